"""C02 extension: who may be exempted from the return-type check.

R2.28  A returned value is matched against the declared return type only when
       the callee's frame says so (`frame.check_return`, read by
       VirtualMachine._return_value / _check_frame_yield: R2.3).  The flag is
       False by default (a frame without a declared return type has nothing to
       check) and is written by the code that builds the frame for a call
       (today InterpreterFunction.call).  pytype deliberately does not check
       *stubs*: an abstract method (`@abstractmethod def f(self) -> int: ...`
       returns None by design) and the members of a Protocol class.  Nothing
       else may be exempted: for a function with a declared return type the
       flag may stay/become False only if
           the callee itself is abstract (self.is_abstract), or
           the callee is an attribute of a class and the receiver's class is a
           protocol.
       In particular "the receiver's class is (still) abstract" says nothing
       about the method being analysed: `class PartialSeq(Sequence[int])` that
       has not implemented every inherited abstract method is abstract, and
       its concrete `def first(self) -> int: return "x"` must be reported.

       The rule does not recognise the spelling of the condition: it finds
       every store to an attribute named `check_return` in pytype/ (outside
       tests), and for each store outside an `__init__` it *executes* the
       backward slice of the stored value and of the `if` tests the store sits
       under (rules/_minieval.py over the AST; lambdas, module-local helpers
       such as _check_classes and methods of the enclosing class are
       interpreted too) in every world of
           callee.is_abstract x callee.is_attribute_of_class x
           receiver in {none, an instance, a class} x
           receiver class .is_abstract x .is_protocol
       with `<sig>.has_return_annotation` true, and requires
           store not executed, or stored value falsy  ==>  callee is a stub.
"""
import ast
import copy
import itertools

from sa.core import rule, AnalysisError
from sa.pyindex import get_module, dotted, src, all_py_files, walk_no_nested
from rules import _minieval as ME
from rules._pytd_schema import stored_names

FLAG = "check_return"
_DECLARED = "has_return_annotation"
_H = "__return_type_declared__"
_RECEIVER_SOURCE = "get_self_arg"


class _Ev(ME.Interp):
  """_minieval plus lambdas and strict free names."""

  def __init__(self, fn, globals_=None, max_steps=20000, resolver=None, imports=()):
    super().__init__(fn, globals_, max_steps, resolver)
    self.imports = set(imports)

  def expr(self, e, env):
    if isinstance(e, ast.Lambda):
      a = e.args
      if a.vararg or a.kwarg or a.kwonlyargs or a.defaults or a.posonlyargs:
        raise ME.Outside("lambda with a non-trivial signature")
      names = [p.arg for p in a.args]

      def fn(*vals):
        if len(vals) != len(names):
          raise ME.Outside("lambda called with a wrong number of arguments")
        return self.expr(e.body, {**env, **dict(zip(names, vals))})
      return fn
    if isinstance(e, ast.Name) and e.id not in env and e.id not in self.globals:
      v = super().expr(e, env)
      if isinstance(v, ME.Sym) and e.id not in self.imports:
        raise ME.Outside(f"the value of `{e.id}` is not known to the rule")
      return v
    return super().expr(e, env)

  def sub(self, fn):
    return _Ev(fn, self.globals, self.max_steps, self.resolver, self.imports)


class _Dummy(ast.AST):
  pass


def _module_function(ev_box, fn):
  names = [p.arg for p in fn.args.posonlyargs + fn.args.args]

  def call(*a, **kw):
    if len(a) > len(names):
      raise ME.Outside(f"{fn.name}: too many arguments")
    return ev_box[0].sub(fn).call({**dict(zip(names, a)), **kw})
  return call


def _free_loads(node, bound=frozenset()):
  """Names read by `node` that are not bound inside it (lambda parameters,
  comprehension targets)."""
  out = set()
  if isinstance(node, ast.Lambda):
    inner = bound | {a.arg for a in ast.walk(node.args) if isinstance(a, ast.arg)}
    return _free_loads(node.body, inner)
  if isinstance(node, (ast.ListComp, ast.SetComp, ast.GeneratorExp, ast.DictComp)):
    inner = set(bound)
    for g in node.generators:
      out |= _free_loads(g.iter, frozenset(inner))
      inner |= {n.id for n in ast.walk(g.target) if isinstance(n, ast.Name)}
      for c in g.ifs:
        out |= _free_loads(c, frozenset(inner))
    for part in ([node.key, node.value] if isinstance(node, ast.DictComp) else [node.elt]):
      out |= _free_loads(part, frozenset(inner))
    return out
  if isinstance(node, ast.Name):
    if isinstance(node.ctx, ast.Load) and node.id not in bound:
      out.add(node.id)
    return out
  for ch in ast.iter_child_nodes(node):
    out |= _free_loads(ch, bound)
  return out


class _Subst(ast.NodeTransformer):
  def visit_Attribute(self, n):
    if n.attr == _DECLARED and isinstance(n.ctx, ast.Load):
      return ast.copy_location(ast.Name(id=_H, ctx=ast.Load()), n)
    return self.generic_visit(n)


def _enclosing_tests(mod, stmt, fn):
  """[(test, polarity)] of the `if`s `stmt` is nested in; other compound
  statements (loops, try) around a flag store are not understood."""
  out, cur = [], stmt
  while mod.parent.get(cur) is not fn:
    par = mod.parent.get(cur)
    if par is None:
      raise AnalysisError("store of the flag: enclosing function lost")
    if isinstance(par, ast.If):
      if cur in par.body:
        out.append((par.test, True))
      elif cur in par.orelse:
        out.append((par.test, False))
    elif isinstance(par, ast.stmt):
      raise AnalysisError(f"{fn.name}: `{FLAG}` is stored inside a "
                          f"{type(par).__name__} statement; not understood")
    cur = par
  return out


def _predecessors(mod, stmt, fn):
  """Statements evaluated before `stmt` on the way from the function's entry,
  nearest first (for every enclosing block: the statements preceding the
  ancestor in that block)."""
  out, cur = [], stmt
  while cur is not fn:
    par = mod.parent[cur]
    for field in ("body", "orelse", "finalbody"):
      blk = getattr(par, field, None)
      if isinstance(blk, list) and cur in blk:
        out.extend(reversed(blk[:blk.index(cur)]))
    cur = par
  return out


def _slice(mod, fn, stmt, exprs):
  """(receiver names, statements to execute in order) defining the free names
  of `exprs` at `stmt`."""
  needed = set()
  for e in exprs:
    needed |= _free_loads(e)
  chosen, receivers = [], set()
  for p in _predecessors(mod, stmt, fn):
    st = stored_names(p)
    if not (st & needed):
      continue
    if isinstance(p, ast.Assign) and isinstance(p.value, ast.Call) and \
        isinstance(p.value.func, ast.Attribute) and p.value.func.attr == _RECEIVER_SOURCE \
        and all(isinstance(t, ast.Name) for t in p.targets):
      receivers |= {t.id for t in p.targets}
      needed -= st
      continue
    chosen.append(p)
    if isinstance(p, (ast.Assign, ast.AnnAssign)) and not isinstance(
        p, ast.AugAssign) and all(isinstance(t, ast.Name) for t in (
            p.targets if isinstance(p, ast.Assign) else [p.target])):
      needed -= st  # an unconditional plain binding: earlier definitions are dead
    needed |= _free_loads(p)
  return receivers, list(reversed(chosen)), needed


def _worlds():
  for a, m in itertools.product((False, True), repeat=2):
    yield {"callee_abstract": a, "callee_attr_of_class": m, "receiver": "none",
           "cls_abstract": False, "cls_protocol": False}
    for kind in ("instance", "class"):
      for ca, cp in itertools.product((False, True), repeat=2):
        yield {"callee_abstract": a, "callee_attr_of_class": m, "receiver": kind,
               "cls_abstract": ca, "cls_protocol": cp}


def _receiver_value(w):
  if w["receiver"] == "none":
    return None
  meta = ME.Obj(("class_mixin.Class", "Class"), {"is_abstract": False, "is_protocol": False})
  meta.attrs["cls"] = meta
  cls = ME.Obj(("class_mixin.Class", "Class"),
               {"is_abstract": w["cls_abstract"], "is_protocol": w["cls_protocol"],
                "cls": meta})
  if w["receiver"] == "class":
    val = cls
  else:
    val = ME.Obj(("_instance_base.Instance", "Instance"), {"cls": cls})
  return ME.Obj(("cfg.Variable", "Variable"),
                {"data": [val], "bindings": [ME.Obj(("cfg.Binding",), {"data": val})]})


def _is_stub(w):
  return w["callee_abstract"] or (
      w["callee_attr_of_class"] and w["receiver"] != "none" and w["cls_protocol"])


def _decide_store(ctx, mod, fn, store):
  """-> list of worlds in which a non-stub's return check is skipped."""
  stmt = mod.enclosing_stmt(store)
  if not (isinstance(stmt, ast.Assign) and len(stmt.targets) == 1):
    raise AnalysisError(f"{fn.name}: `{FLAG}` is not stored by a plain assignment")
  tests = _enclosing_tests(mod, stmt, fn)
  sub = _Subst()
  value = sub.visit(copy.deepcopy(stmt.value))
  tests2 = [(sub.visit(copy.deepcopy(t)), pol) for t, pol in tests]
  receivers, todo, free = _slice(mod, fn, stmt, [value] + [t for t, _ in tests2])
  todo = [sub.visit(copy.deepcopy(s)) for s in todo]
  params = [a.arg for a in fn.args.posonlyargs + fn.args.args]
  self_name = params[0] if params else None
  cls_node = mod.parent.get(fn)
  methods = {s.name: s for s in cls_node.body if isinstance(s, ast.FunctionDef)} \
      if isinstance(cls_node, ast.ClassDef) else {}
  box = [None]
  globs = {name: _module_function(box, f) for name, f in mod.functions.items()}
  ev = _Ev(fn, globs, imports=set(mod.imports))
  box[0] = ev
  skipped = []
  for w in _worlds():
    env = {_H: True}
    if self_name:
      env[self_name] = ME.Obj(
          ("InterpreterFunction",),
          {"is_abstract": w["callee_abstract"],
           "is_attribute_of_class": w["callee_attr_of_class"]},
          cls_methods=methods)
    rv = _receiver_value(w)
    for r in receivers:
      env[r] = rv
    try:
      ev.steps = 0
      ev.block(todo, env)
      executed = all(ev.truth(ev.expr(t, env)) == pol for t, pol in tests2)
      checked = executed and ev.truth(ev.expr(value, env))
    except ME.Outside as e:
      raise AnalysisError(f"{fn.name}: the computation of `{FLAG}` is outside the "
                          f"evaluated fragment: {e}") from e
    except (ME.Raised, ME.Diverged) as e:
      raise AnalysisError(f"{fn.name}: the computation of `{FLAG}` raised "
                          f"{type(e).__name__}({e}) in the world {w}") from e
    except ME._Return as e:  # pylint: disable=protected-access
      raise AnalysisError(f"{fn.name}: a statement the flag depends on returns") from e
    if not checked and not _is_stub(w):
      skipped.append(dict(w, store_executed=executed))
  return skipped, {"receiver_locals": sorted(receivers),
                   "slice": [src(s)[:70] for s in todo], "stored": src(stmt.value)[:80],
                   "under": [(src(t)[:60], pol) for t, pol in tests]}


def _qual(mod, node):
  parts, cur = [node.name], node
  while cur in mod.parent:
    cur = mod.parent[cur]
    if isinstance(cur, (ast.FunctionDef, ast.ClassDef)):
      parts.append(cur.name)
  return ".".join(reversed(parts))


@rule("R2.28", "C02", floor=2)
def r2_28(ctx):
  """Only abstract / protocol stubs are exempt from the return-type check."""
  n_eval = 0
  for rel in all_py_files(ctx):
    if rel.endswith("_test.py") or "/rewrite/" in rel or FLAG not in ctx.read(rel):
      continue
    mod = get_module(ctx, rel)
    for n in ast.walk(mod.tree):
      if not (isinstance(n, ast.Attribute) and n.attr == FLAG and isinstance(n.ctx, ast.Store)):
        continue
      fn = mod.enclosing_function(n)
      if fn is None:
        raise AnalysisError(f"{rel}: `{FLAG}` stored at module/class level")
      q = _qual(mod, fn)
      stmt = mod.enclosing_stmt(n)
      if fn.name == "__init__" and dotted(n.value) == fn.args.args[0].arg:
        v = stmt.value if isinstance(stmt, ast.Assign) else None
        if not (isinstance(v, ast.Constant) and isinstance(v.value, bool)):
          raise AnalysisError(f"{q}: the initial `{FLAG}` is not a bool constant")
        ctx.ok(f"{q}:initial-{FLAG}", rel, n.lineno, {"default": v.value})
        continue
      skipped, facts = _decide_store(ctx, mod, fn, n)
      n_eval += 1
      w = skipped[0] if skipped else None
      ctx.check(not skipped, f"{q}:{FLAG}:skip-only-for-stubs", rel, n.lineno,
                f"{q} leaves a function with a declared return type unchecked "
                f"although it is not a stub: in the world {w} "
                f"({len(skipped)} of 36 worlds) `{FLAG}` is "
                f"{'stored falsy' if w and w['store_executed'] else 'not stored (stays False)'}; "
                "only the abstract method itself (self.is_abstract) and the members of "
                "a protocol class may skip the check - a concrete method of a class "
                "that is still abstract (`class P(Sequence[int])` with "
                "`def first(self) -> int: return 'x'`) must get [bad-return-type]",
                dict(facts, unchecked_non_stub_worlds=skipped[:4]))
  if not n_eval:
    raise AnalysisError(f"no store to `<frame>.{FLAG}` outside __init__ was found")


IF = "pytype/abstract/_interpreter_function.py"
_FORMULA = ("    check_return = not (\n"
            "        self.is_attribute_of_class and caller_is_protocol\n"
            "    ) and not (caller_is_abstract and self.is_abstract)\n")
_SCANS = ("    caller_is_abstract = _check_classes(self_arg, lambda cls: cls.is_abstract)\n"
          "    caller_is_protocol = _check_classes(self_arg, lambda cls: cls.is_protocol)\n")

VARIANTS = [
    {"name": "seeded-C02-r4m2", "rule": "R2.28", "patch": "seeded/C02-r4m2/patch.diff",
     "expect": "fire"},
    {"name": "abstract-class-exempts-every-method", "rule": "R2.28", "file": IF,
     "expect": "fire", "old": _FORMULA,
     "new": "    check_return = not (\n"
            "        self.is_attribute_of_class and caller_is_protocol\n"
            "    ) and not caller_is_abstract\n"},
    {"name": "every-method-exempt", "rule": "R2.28", "file": IF, "expect": "fire",
     "old": "        self.is_attribute_of_class and caller_is_protocol\n",
     "new": "        self.is_attribute_of_class or caller_is_protocol\n"},
    {"name": "protocol-scan-accepts-any-class", "rule": "R2.28", "file": IF, "expect": "fire",
     "old": "lambda cls: cls.is_protocol)", "new": "lambda cls: cls.is_protocol or True)"},
    {"name": "class-scan-vacuously-true-without-receiver", "rule": "R2.28", "file": IF,
     "expect": "fire",
     "old": "  if not var:\n    return False\n  for v in var.data:\n",
     "new": "  if not var:\n    return True\n  for v in var.data:\n"},
    {"name": "flag-stored-only-when-already-false", "rule": "R2.28", "file": IF,
     "expect": "fire",
     "old": "    if sig.has_return_annotation or not check_return:\n",
     "new": "    if not check_return:\n"},
    {"name": "flag-never-true", "rule": "R2.28", "file": IF, "expect": "fire",
     "old": "      frame.check_return = check_return\n",
     "new": "      frame.check_return = check_return and caller_is_protocol\n"},
    {"name": "twin-de-morgan", "rule": "R2.28", "file": IF, "expect": "silent",
     "old": _FORMULA,
     "new": "    exempt = (self.is_attribute_of_class and caller_is_protocol) or (\n"
            "        caller_is_abstract and self.is_abstract)\n"
            "    check_return = not exempt\n"},
    {"name": "twin-if-elif-else", "rule": "R2.28", "file": IF, "expect": "silent",
     "old": _FORMULA,
     "new": "    if self.is_attribute_of_class and caller_is_protocol:\n"
            "      check_return = False\n"
            "    elif self.is_abstract and caller_is_abstract:\n"
            "      check_return = False\n"
            "    else:\n"
            "      check_return = True\n"},
    {"name": "twin-helper-method-and-renamed-locals", "rule": "R2.28", "expect": "silent",
     "edits": [
         (IF, _SCANS + "    # We should avoid", "    # We should avoid"),
         (IF, _FORMULA, "    check_return = not self._is_stub_of(self_arg)\n"),
         (IF, "  def call(\n      self,\n      node: \"cfg.CFGNode\",\n",
          "  def _is_stub_of(self, receiver):\n"
          "    if self.is_attribute_of_class and _check_classes(\n"
          "        receiver, lambda c: c.is_protocol):\n"
          "      return True\n"
          "    return self.is_abstract and _check_classes(\n"
          "        receiver, lambda c: c.is_abstract)\n\n"
          "  def call(\n      self,\n      node: \"cfg.CFGNode\",\n")]},
    {"name": "twin-abstract-callee-alone-exempt", "rule": "R2.28", "file": IF,
     "expect": "silent", "old": _FORMULA,
     "new": "    check_return = not (\n"
            "        self.is_attribute_of_class and caller_is_protocol\n"
            "    ) and not self.is_abstract\n"},
    {"name": "flag-depends-on-unmodelled-state", "rule": "R2.28", "file": IF,
     "expect": "error", "old": _FORMULA,
     "new": _FORMULA + "    check_return = check_return and not self.ctx.options.quick\n"},
]
