"""C06 extension R6.25: the declared field order of a namedtuple class reaches the importer.

Module A's inferred AST passes through the canonical-ordering visitor before it is printed (io) and before
it is pickled (serialize_ast); that visitor sorts a class's constants unless its guard says the order is
semantic.  For a namedtuple the order IS the `__new__` signature and the tuple layout module B sees, so the
guard must hold for every shape of base list a namedtuple class can have: the marker alone
(`class P(NamedTuple)`), the marker followed or preceded by other bases (`class P(NamedTuple, Generic[T])`,
mixins), with the marker spelt as ClassType (inferred AST) or NamedType (the AST PrepareForExport re-parses).

The evaluation is rules/c05_order_guard.order_guard_matrix (the visitor's VisitClass and everything it calls,
taken from /repo as an AST and evaluated on classes with unsorted constants); this rule reports it per
base-list shape (number of bases x position of the marker), R5.23 per node class of the marker.
"""
from sa.core import rule
from rules.c05_order_guard import order_guard_matrix, VISITORS


@rule("R6.25", "C06", floor=6)
def r6_25(ctx):
  """A namedtuple's field order survives canonical ordering wherever the marker stands in the base list."""
  cname, vc, markers, cases, _ = order_guard_matrix(ctx)
  for marker in sorted(markers):
    for n in (1, 2, 3):
      for pos in range(n):
        mine = [c for c in cases if c["marker"] == marker and c["n"] == n and c["position"] == pos]
        bad = [c for c in mine if not c["kept"]]
        facts = {"cases": len(mine), "marker_forms": sorted({c["form"] for c in mine})}
        name = f"{cname}.VisitClass:field-order-kept[{marker} is base {pos + 1} of {n}]"
        if bad:
          ex = bad[0]
          ctx.bad(name, VISITORS, vc.lineno,
                  f"a class with bases [{', '.join(ex['bases'])}] and fields declared as zeta, alpha, mid comes "
                  f"out of {cname}.VisitClass with the fields in the order {ex['got']}: the stub (text and pickle) "
                  "emitted for module A declares the namedtuple's fields in another order than A's analysis used, "
                  "so module B sees a different __new__ signature and tuple layout "
                  f"({len(bad)} of {len(mine)} base lists of this shape)",
                  dict(facts, counterexample={k: ex[k] for k in ("bases", "got")}, failing=len(bad)))
        else:
          ctx.ok(name, VISITORS, vc.lineno, facts)


_ISNT = ("  return any(\n      base.name in (\"collections.namedtuple\", \"typing.NamedTuple\")\n"
         "      for base in node.bases\n  )\n")
VARIANTS = [
    {"name": "seeded-C06-r4m1", "rule": "R6.25", "patch": "seeded/C06-r4m1/patch.diff", "expect": "fire"},
    {"name": "seeded-C05-r4m2-seen-from-C06", "rule": "R6.25", "patch": "seeded/C05-r4m2/patch.diff",
     "expect": "fire"},
    {"name": "marker-must-be-the-last-base", "rule": "R6.25", "file": VISITORS, "old": _ISNT,
     "new": "  return bool(node.bases) and node.bases[-1].name in (\n"
            "      \"collections.namedtuple\", \"typing.NamedTuple\")\n", "expect": "fire"},
    {"name": "at-most-two-bases-searched", "rule": "R6.25", "file": VISITORS, "old": _ISNT,
     "new": "  return any(\n      base.name in (\"collections.namedtuple\", \"typing.NamedTuple\")\n"
            "      for base in node.bases[:2]\n  )\n", "expect": "fire"},
    {"name": "every-base-must-be-the-marker", "rule": "R6.25", "file": VISITORS, "old": _ISNT,
     "new": "  return bool(node.bases) and all(\n"
            "      base.name in (\"collections.namedtuple\", \"typing.NamedTuple\")\n"
            "      for base in node.bases\n  )\n", "expect": "fire"},
    {"name": "guard-negated-in-VisitClass", "rule": "R6.25", "file": VISITORS,
     "old": "    if self._PreserveConstantsOrdering(node):\n      constants = node.constants\n",
     "new": "    if not self._PreserveConstantsOrdering(node) and len(node.bases) > 1:\n"
            "      constants = node.constants\n", "expect": "fire"},
    {"name": "twin-marker-search-over-reversed-bases", "rule": "R6.25", "file": VISITORS, "old": _ISNT,
     "new": "  for base in reversed(node.bases):\n"
            "    if base.name in (\"collections.namedtuple\", \"typing.NamedTuple\"):\n"
            "      return True\n  return False\n", "expect": "silent"},
    {"name": "twin-marker-names-as-a-local-tuple", "rule": "R6.25", "file": VISITORS, "old": _ISNT,
     "new": "  markers = (\"collections.namedtuple\", \"typing.NamedTuple\")\n"
            "  return bool([b for b in node.bases if b.name in markers])\n", "expect": "silent"},
    {"name": "twin-guard-clauses-in-preserve-ordering", "rule": "R6.25", "file": VISITORS,
     "old": "    # The order of a namedtuple's fields should always be preserved.\n    return IsNamedTuple(node)\n",
     "new": "    if IsNamedTuple(node):\n      return True\n    return False\n", "expect": "silent"},
    {"name": "twin-benign-C04-r2", "rule": "R6.25", "patch": "benign/C04-r2/patch.diff", "expect": "silent"},
]
