"""C12 - serialised stubs decode to the same declarations.

Decides schema closure of the msgspec node classes, the equality/hash law, the
export pipeline of SerializeAst, the encoder settings and the decoder wiring.
Does NOT decide msgspec itself.
"""
import ast

from sa.core import rule, AnalysisError
from sa.pyindex import (get_module, dotted, src, kwarg, calls_in, walk_no_nested,
                        all_py_files, fold, Unfoldable)
from sa import flow
from rules._pytd_schema import (get_schema, reaching,
                                defs_at, stored_names, PYTD, NODE, PICKLE,
                                SERIALIZE)
from rules import _util_c12c17c18 as U

EXPLANATION = (
    "Static obligations of the pickle round trip, read from the AST of "
    "pytd/pytd.py, pytd/parse/node.py, pytd/booleq.py, pytd/serialize_ast.py, "
    "pytd/visitors.py and imports/pickle_utils.py: R12.1 every annotated field "
    "of every msgspec Node class (and of SerializableAst) that admits a class "
    "C also admits every concrete subclass of C, and the union aliases "
    "TypeU/TypeParameterU/SetOfTypesU/GenericTypeU list all concrete "
    "subclasses of their root (msgspec does not decode subclasses); R12.2 in "
    "every class defining __eq__/__hash__ each hashed projection of self is a "
    "function of a compared projection, and a hash helper that walks a set is "
    "order-free; the pair is the one the class's instances actually use: "
    "__eq__/__hash__ inherited from a base class or mixin defined in the same "
    "file are resolved through the local C3 linearisation (nothing is taken "
    "from behind a base that is not defined in the file; a class that defines "
    "__eq__ without __hash__ is unhashable, as in Python), so moving the pair "
    "into a shared base changes nothing and overriding one half in a "
    "subclass is judged against the inherited other half.  __eq__ is read "
    "path by path (path condition + the conjuncts "
    "of the returned expression): a path with a same-class test "
    "(isinstance(other, type(self) | self.__class__ | the class), "
    "type/__class__ equality) contributes its `E(self) == E(other)` "
    "comparisons (exact class equality also makes self.__class__ hashable); "
    "`self is other`, False and NotImplemented contribute nothing; a path "
    "WITHOUT a positive same-class test that compares `other` as a whole "
    "(`P(self) == other`) can return True for an object of a different "
    "class, so hash(self) must equal hash(other) = hash(P(self)) there: "
    "__hash__ must return hash(P(self)) (or P(self).__hash__()) on a path "
    "whose self-only conditions are among the arm's; a generated/struct/"
    "identity hash or a __hash__ that never returns hash(P(self)) is a "
    "violation; an un-decidable implication is an analysis error.  A "
    "__hash__ with several returns is accepted when every returned "
    "expression and every test choosing between them only uses compared "
    "projections; R12.3 the AST handed to SerializableAst(...) has passed "
    "ClearClassPointers, CanonicalOrderingVisitor (nothing re-ordering after "
    "it) and ClearLookupCache on every path, and ClearLookupCache clears the "
    "cache of every class that has one.  The pipeline is a property of what "
    "SerializeAst does, not of where the statements stand: calls of "
    "module-local step functions are inlined first (rules/_util_c12c17c18: "
    "the textbook inlining transformation, applied only when it preserves "
    "behaviour - tail-position returns, renamed locals, arguments bound in "
    "call order), plain copies `x = y` are followed, ClearClassPointers "
    "counts on any tree of the .Visit lineage of the exported object (the "
    "ClassType nodes are shared), ClearLookupCache only on the exported "
    "object itself; a helper that receives the tree and cannot be inlined is "
    "an analysis error, never a verdict; R12.4 the encoder is deterministic, "
    "the gzip header constant, the dependency lists sorted (what reaches the "
    "sink Encode/Save/SerializableAst is followed through local definitions, "
    "inlined temporaries and inlined helpers: `Encode(SerializeAst(..))` and "
    "`out = SerializeAst(..); Encode(out)` are the same, a rebinding of the "
    "temporary on some path is not; a dependency list read as a field "
    "`rec.f` / `rec[i]` of a local built - after helper inlining - as a "
    "NamedTuple / plain @dataclass of the module or a tuple display is the "
    "constructor argument stored in that field, any other record shape, a "
    "record that escapes or a field changed in place is an analysis error); "
    "R12.5 each decoder is typed with the "
    "structure its loader promises and the file loader - found by its role: "
    "the module-level function whose call LoadAst and LoadBuiltins return "
    "and which receives a module-level msgspec Decoder; its name and "
    "parameter names are free, the constructs keep the name `_Load` - turns "
    "I/O, gzip and msgspec failures into LoadPickleError; R12.6 at every "
    "pytd.Literal(...) construction site of the package (non-test) the "
    "expression stored in `value` is never *definitely* of a type outside "
    "the field's declared union (int | str | bool | TypeU | Constant, read "
    "from the schema): a small intra-procedural inference (literals, "
    "repr/str/f-strings -> str, pytd constructors -> that node class, names "
    "through reaching definitions, isinstance/is-None/truthiness guards on "
    "the path, argument-less methods of the same class through their "
    "returns, and the type-tag invariant of pyi.types.Pyval: `type` names "
    "type(`value`) because Pyval.from_const builds "
    "cls(type(node.value).__name__, node.value), over the payload types of "
    "ast.Constant minus what the from_const call sites exclude) yields the "
    "types the argument can have; unknown is never reported.  Blind spots "
    "of R12.2: whether the OTHER class's __eq__ agrees (symmetry), __eq__ "
    "arms written with or/IfExp or through helpers (analysis error), "
    "hash(P) written in an algebraically equal but syntactically different "
    "way (reported), __ne__, subclasses that override only one of the pair "
    "in another module.  Necessary "
    "conditions only: the behaviour of msgspec's encoder/decoder and the "
    "visitors' bodies beyond the named statements are not decided.")
ASSUMPTIONS = [
    "msgspec decodes a field only to the classes named in its annotation "
    "(tagged unions), never to a subclass",
    "a Node class is abstract (never instantiated) iff it is Node, its name "
    "starts with '_' or it has no fields but has subclasses",
    "msgspec generates __eq__/__hash__ over all struct fields unless eq=False "
    "is given; a class without a generated or written __eq__ compares by "
    "identity",
    "R12.2: the members compared by a foreign arm obey the eq/hash law "
    "themselves (a == b implies hash(a) == hash(b)), and hash(f(x)) differs "
    "from hash(x) for some x unless f is the identity",
    "ClassType nodes are mutated in place by ClearClassPointers and shared by "
    "the copies later visitors make",
    "R12.6: msgspec.Struct construction does not validate field types; an "
    "ast.Constant payload is one of bool, NoneType, int, float, complex, "
    "str, bytes, ellipsis (ast._const_node_type_names of the host CPython); "
    "instances of Pyval built directly (Pyval('str', ...), negated()) keep "
    "the tag/value agreement; other Node constructors' arguments are not "
    "typed by a rule yet (an experiment over all 714 constructor arguments "
    "found, besides Literal.value, only TypeDeclUnit(name=None) in "
    "pyi/definitions.py, which is replaced before the unit is used)",
    "reference exception hierarchy: gzip.BadGzipFile < OSError; "
    "msgspec.ValidationError < msgspec.DecodeError < msgspec.MsgspecError",
    "R12.2: a method inherited from a base class of the same file is judged "
    "for instances whose class is the inheriting class; bases that are not "
    "defined in the file (msgspec.Struct) contribute only what the schema "
    "reader models (generated eq/hash)",
    "R12.3/R12.4 inlining: attribute reads and subscripts have no side "
    "effects; a module-level helper name denotes the def of that name",
    "R4.4/R12.4 records: a typing.NamedTuple subclass / @dataclass without "
    "__new__/__init__/__post_init__/field() specifiers stores each "
    "constructor argument unchanged in the field of the same position or "
    "keyword; typing.NamedTuple and dataclasses.dataclass are not shadowed",
]

EXPLANATION += (
    "  R12.6 admits a value class for a declared atom the way msgspec "
    "DECODES it (strict): `int` admits int only - a bool is not covered by "
    "`int` (msgpack true/false is rejected for an int field although "
    "isinstance(True, int) and construction/encoding never validate) -, "
    "`float` admits float and int, `bool` bool, `str` str; so every value "
    "class a constructor site can store (bool from pyi Pyval.to_pytd_literal "
    "and output.py's TypedDict `total=False` / bool constants) must be named "
    "by the annotation of Literal.value itself.")
ASSUMPTIONS += [
    "R12.6: msgspec decodes in strict mode (imports/pickle_utils.py builds "
    "msgspec.msgpack.Decoder(type) without strict=False; not checked by a "
    "rule): bool is rejected for int and float, int is accepted for float",
]

# rules/c12_sortkey.py (R12.7)
EXPLANATION += (
    "  R12.7 (rules/c12_sortkey.py) the canonical order is computed on the "
    "state that is encoded: Node.__lt__ sorts by _ToTuple, i.e. by str() of "
    "the fields, i.e. by the __str__/__repr__ of the nodes below.  For every "
    "node class with a hand-written __eq__ the rule derives from the schema "
    "the fields that __eq__ never reads but the rendering does (generated "
    "__repr__ prints every field): today ClassType.cls - equal trees sort "
    "differently depending on whether the class pointers are filled in.  "
    "Every visitor SerializeAst applies to the lineage of the exported tree "
    "(step functions inlined, visitor objects bound to a local followed) is "
    "resolved to its class (through re-exports and imports, with its "
    "resolvable base classes) and classified by what it does to such a field: "
    "reset (`node.F = None` as a top-level statement of Enter/Visit/Leave"
    "<Class>), set (any other store to `.F`, setattr, or a constructor / "
    "Replace of the class that passes a non-None value on) or nothing.  On "
    "every path a resetting visitor must have been applied, and no setting "
    "one since, when CanonicalOrderingVisitor is applied AND when "
    "SerializableAst(...) is built: clearing the pointers after the sort "
    "(seeded C12-r3m1) leaves the pointer-free tree that is encoded ordered by "
    "keys it no longer has, so Serialize(Decode(Serialize(x))) differs.  Blind "
    "spots: the ORDER of a field that equality treats as a set "
    "(_SetOfTypes.type_list) is normalised by the canonical ordering itself "
    "and not tracked; a visitor that merely passes the field on "
    "(ClassType(new_name, node.cls)) counts as setting it, so moving "
    "RenameModuleVisitor between the clearing and the sort would be "
    "reported although it copies None; lookup caches (_name2item) are part of "
    "the generated equality, hence not equality-blind, and stay with R12.3.")
ASSUMPTIONS += [
    "R12.7: str() of a tuple/list/dict renders its elements with repr(), of a "
    "node with its __str__; msgspec's generated __repr__ prints every struct "
    "field; the visitor framework's own base class (Visitor) writes no node "
    "field",
]

VISITORS = "pytype/pytd/visitors.py"
BOOLEQ = "pytype/pytd/booleq.py"


# -- R12.1 ------------------------------------------------------------------------

def _closure_gaps(sch, members):
  gaps = []
  for c in sorted(members):
    for s in sch.concrete_subclasses(c):
      if s not in members:
        gaps.append((c, s))
    if sch.is_abstract(c) and not sch.concrete_subclasses(c):
      gaps.append((c, "<abstract class with no concrete subclass>"))
  return gaps


@rule("R12.1", "C12", floor=69)
def r12_1(ctx):
  """Every field that admits a class admits its concrete subclasses."""
  sch = get_schema(ctx)
  for cname, info in sch.classes.items():
    for fname, ann, _ in info.own_fields:
      members, atoms = sch.expand(ann)
      gaps = _closure_gaps(sch, members)
      ctx.check(not gaps, f"{cname}.{fname}", PYTD if cname != "Node" else NODE,
                ann.lineno,
                f"field {cname}.{fname}: {src(ann)} admits "
                + ", ".join(f"{c} but not its subclass {s}" for c, s in gaps)
                + "; msgspec cannot decode the subclass in this field",
                {"admits": sorted(members), "other": sorted(atoms)})
  # the union aliases list every concrete subclass of their root
  for alias, root in (("TypeU", "Type"), ("TypeParameterU", "TypeParameter"),
                      ("SetOfTypesU", "_SetOfTypes"),
                      ("GenericTypeU", "GenericType")):
    members = sch.alias_members(alias)
    if root not in sch.classes:
      raise AnalysisError(f"pytd.{root} not found")
    want = set(sch.concrete_subclasses(root))
    if not sch.is_abstract(root):
      want.add(root)
    missing = sorted(want - members)
    extra = sorted(members - want)
    ctx.check(not missing, f"alias:{alias}", PYTD,
              sch.aliases[alias].lineno,
              f"{alias} lacks {missing}: a concrete subclass of {root} that is "
              "not in the union cannot be decoded wherever the union is used",
              {"members": sorted(members), "not_subclasses_of_root": extra})
  # SerializableAst fields that hold nodes
  smod = get_module(ctx, SERIALIZE)
  n = 0
  for st in smod.cls("SerializableAst").body:
    if isinstance(st, ast.AnnAssign) and isinstance(st.target, ast.Name):
      members, atoms = sch.expand(st.annotation)
      gaps = _closure_gaps(sch, members)
      n += 1
      ctx.check(not gaps, f"SerializableAst.{st.target.id}", SERIALIZE, st.lineno,
                f"SerializableAst.{st.target.id}: {src(st.annotation)} admits "
                + ", ".join(f"{c} but not {s}" for c, s in gaps),
                {"admits": sorted(members), "other": sorted(atoms)})
  if n < 4:
    raise AnalysisError("SerializableAst: fields not found")


# -- R12.2 ------------------------------------------------------------------------

def _swap_self(expr_src, a, b):
  tree = ast.parse(expr_src, mode="eval")
  for n in ast.walk(tree):
    if isinstance(n, ast.Name) and n.id == a:
      n.id = b
  return ast.unparse(tree)


def _names(e):
  return {x.id for x in ast.walk(e) if isinstance(x, ast.Name)}


def _same_class_test(c, me, other, clsname):
  """(kind, sense) when `c` tests whether `other` belongs to the class
  (hierarchy) whose __eq__ this is, else None.  kind "member":
  isinstance(other, type(self) | self.__class__ | <the class itself>); kind
  "exact": type(self) ==/is type(other), self.__class__ ==/is other.__class__
  (sense False for != / is not)."""
  if isinstance(c, ast.Call) and dotted(c.func) == "isinstance" and len(c.args) == 2 \
      and dotted(c.args[0]) == other:
    if src(c.args[1]) in (f"type({me})", f"{me}.__class__", clsname):
      return "member", True
    return None
  if isinstance(c, ast.Compare) and len(c.ops) == 1 and \
      isinstance(c.ops[0], (ast.Eq, ast.Is, ast.NotEq, ast.IsNot)):
    pair = {src(c.left), src(c.comparators[0])}
    if pair in ({f"type({me})", f"type({other})"},
                {f"{me}.__class__", f"{other}.__class__"}):
      return "exact", isinstance(c.ops[0], (ast.Eq, ast.Is))
  return None


def _flatten(test, pol, out):
  """Literals (expr, polarity) of a path-condition test; an opaque compound
  stays whole."""
  while isinstance(test, ast.UnaryOp) and isinstance(test.op, ast.Not):
    test, pol = test.operand, not pol
  if isinstance(test, ast.BoolOp) and isinstance(test.op, ast.And) == pol:
    for v in test.values:
      _flatten(v, pol, out)
  else:
    out.append((test, pol))


def _projection_pair(c, me, other):
  """E for a comparison `E(self) <op> E(other)` (same E on both sides)."""
  l, r = c.left, c.comparators[0]
  nl, nr = _names(l), _names(r)
  if me in nl and other in nr and \
      _swap_self(src(l), me, "self") == _swap_self(src(r), other, "self"):
    return _swap_self(src(l), me, "self")
  if me in nr and other in nl and \
      _swap_self(src(r), me, "self") == _swap_self(src(l), other, "self"):
    return _swap_self(src(r), me, "self")
  return None


def _eq_arms(mod, fn, clsname):
  """Path-wise reading of __eq__.

  Returns (compared, foreign): `compared` = the projections E with
  `E(self) == E(other)` required on the paths where `other` is known to belong
  to the class; `foreign` = the arms that can answer something other than
  False/NotImplemented for an `other` that is NOT known to belong to the class
  and compare it as a whole: dicts {"proj": P(self) as text over `self`,
  "when": self-only path literals, "definitely_foreign": the path NEGATES the
  same-class test, "line"}."""
  if len(fn.args.args) != 2:
    raise AnalysisError(f"{fn.name}: unexpected parameters")
  me, other = fn.args.args[0].arg, fn.args.args[1].arg
  compared, foreign = set(), []
  rets = [n for n in walk_no_nested(fn) if isinstance(n, ast.Return)]
  if not rets:
    raise AnalysisError("__eq__: no return")
  for ret in rets:
    v = ret.value
    if v is None:
      raise AnalysisError("__eq__: bare return")
    if (isinstance(v, ast.Constant) and v.value is False) or \
        (isinstance(v, ast.Name) and v.id == "NotImplemented"):
      continue   # never claims equality
    lits = []
    for t, pol in flow.guards(mod.parent, ret, stop=fn):
      _flatten(t, pol, lits)
    n_guard = len(lits)
    if not (isinstance(v, ast.Constant) and v.value is True):
      _flatten(v, True, lits)
    same = not_same = identity = False
    projs, whole, when = [], [], []
    for i, (c, pol) in enumerate(lits):
      sc = _same_class_test(c, me, other, clsname)
      if sc:
        pol = pol == sc[1]
        same, not_same = same or pol, not_same or not pol
        if sc[0] == "exact" and pol:
          # equal objects have the same class: it may be hashed
          projs.extend(["self.__class__", "type(self)"])
        continue
      if isinstance(c, ast.Compare) and len(c.ops) == 1 and \
          isinstance(c.ops[0], (ast.Is, ast.IsNot)) and \
          {src(c.left), src(c.comparators[0])} == {me, other}:
        identity = identity or (isinstance(c.ops[0], ast.Is) == pol)
        continue
      names = _names(c)
      if other not in names:
        when.append((_swap_self(src(c), me, "self"), pol))
        continue
      if isinstance(c, ast.Compare) and len(c.ops) == 1 and \
          isinstance(c.ops[0], (ast.Eq, ast.NotEq)):
        eq_holds = isinstance(c.ops[0], ast.Eq) == pol
        e = _projection_pair(c, me, other)
        if e is not None and eq_holds:
          projs.append(e)
          continue
        l, r = c.left, c.comparators[0]
        if dotted(r) == other and other not in _names(l):
          l, r = r, l
        if dotted(l) == other and other not in _names(r) and eq_holds:
          whole.append((_swap_self(src(r), me, "self"), me in _names(r)))
          continue
        if e is not None or dotted(l) == other:
          # an inequality that holds on this path: no obligation by itself
          if i < n_guard:
            continue
      if i < n_guard and isinstance(c, ast.Call) and \
          dotted(c.func) == "isinstance" and dotted(c.args[0]) == other:
        # membership of `other` in some other class: narrows, proves nothing
        continue
      raise AnalysisError(f"__eq__: comparison {src(c)} is not E(self) == E(other)")
    if identity and not projs and not whole:
      continue   # `self is other`
    if same and not whole:
      if not projs and not (isinstance(v, ast.Constant) and v.value is True):
        raise AnalysisError(f"__eq__: `return {src(v)}` compares nothing")
      compared.update(projs)
      continue
    if projs and not whole and not not_same:
      # duck-typed equality (`self.x == other.x`, class not tested): whatever
      # class `other` has, only these projections are compared
      compared.update(projs)
      continue
    if whole and not same:
      for proj, mentions_self in whole:
        foreign.append({"proj": proj, "mentions_self": mentions_self,
                        "when": sorted(when), "also_compared": sorted(projs),
                        "definitely_foreign": not_same, "line": ret.lineno})
      continue
    raise AnalysisError(
        f"__eq__: `return {src(v)}` at line {ret.lineno} can claim equality "
        "with an `other` whose class is not tested (or mixes a same-class test "
        "with a comparison against `other` as a whole): not understood")
  return compared, foreign


def _uncovered_self(expr, me, compared):
  """`self` occurrences of expr not inside a sub-expression that is compared."""
  bad = []

  def walk(n):
    if _swap_self(src(n), me, "self") in compared if isinstance(n, ast.expr) else False:
      return
    if isinstance(n, ast.Name) and n.id == me:
      bad.append(n)
      return
    for c in ast.iter_child_nodes(n):
      walk(c)
  walk(expr)
  return bad


def _minimal_context(mod, name_node, stop):
  """The largest attribute/call chain around a `self` occurrence (for text)."""
  cur = name_node
  while cur in mod.parent and mod.parent[cur] is not stop and isinstance(
      mod.parent[cur], (ast.Attribute,)):
    cur = mod.parent[cur]
  return src(cur)


def _order_free_helper(mod, fname):
  """Helper g(xs) used as hash(g(self.X)): every walk over xs is order-free."""
  fn = mod.func(fname)
  if not fn.args.args:
    raise AnalysisError(f"{fname}: no parameter")
  p = fn.args.args[0].arg
  walks = []
  for n in ast.walk(fn):
    it = None
    if isinstance(n, (ast.GeneratorExp, ast.ListComp)):
      if any(dotted(g.iter) == p for g in n.generators):
        it = n
    elif isinstance(n, ast.For) and dotted(n.iter) == p:
      walks.append(("for", False))
      continue
    elif isinstance(n, ast.Call) and dotted(n.func) in ("tuple", "list") and \
        n.args and dotted(n.args[0]) == p:
      it = n
    if it is None:
      continue
    cur, ok = it, False
    while cur in mod.parent:
      par = mod.parent[cur]
      if isinstance(par, ast.Call) and cur in par.args:
        d = dotted(par.func)
        if d in ("sorted", "frozenset", "set", "sum", "min", "max", "len",
                 "any", "all"):
          ok = True
          break
        if d in ("tuple", "list", "iter", "map"):
          cur = par
          continue
      break
    walks.append((src(it), ok))
  return fn, walks


def _hash_paths(mod, hs):
  """[(self-only path literals as text over `self`, return value node)]."""
  me = hs.args.args[0].arg
  out = []
  for r in walk_no_nested(hs):
    if not isinstance(r, ast.Return) or r.value is None:
      continue
    lits = []
    for t, pol in flow.guards(mod.parent, r, stop=hs):
      _flatten(t, pol, lits)
    out.append(([(_swap_self(src(c), me, "self"), pol) for c, pol in lits],
                [c for c, _ in lits], r))
  return out


def _is_hash_of(h, proj, me):
  """`h` is hash(P) / P.__hash__() for the projection text P (over `self`)."""
  if isinstance(h, ast.Call) and dotted(h.func) == "hash" and len(h.args) == 1 \
      and not h.keywords:
    return _swap_self(src(h.args[0]), me, "self") == proj
  if isinstance(h, ast.Call) and isinstance(h.func, ast.Attribute) and \
      h.func.attr == "__hash__" and not h.args:
    return _swap_self(src(h.func.value), me, "self") == proj
  return False


def _foreign_arms(ctx, rel, mod, cd, hs, struct_info, foreign, facts):
  """An __eq__ arm that can return True for an `other` outside the class
  (`P(self) == other`) forces hash(self) == hash(other) == hash(P(self)) there:
  __hash__ must return hash(P(self)) on every path the arm's condition allows."""
  n = 0
  for k, arm in enumerate(foreign):
    n += 1
    name = f"{cd.name}:eq-foreign-arm" + (f"#{k + 1}" if k else "")
    f2 = facts | {"arm": f"{arm['proj']} == other", "when": arm["when"],
                  "other_is_never_same_class": arm["definitely_foreign"]}
    if not arm["mentions_self"]:
      raise AnalysisError(
          f"{cd.name}.__eq__: `{arm['proj']} == other` does not involve self: "
          "not understood")
    if hs is None:
      hashable = struct_info is not None and struct_info["frozen"] and \
          struct_info["eq"] is not False
      if not hashable and struct_info is None:
        # plain class with __eq__ and no __hash__: Python sets __hash__ = None
        hashable = False
      ctx.check(not hashable, name, rel, arm["line"],
                f"{cd.name}.__eq__ can return True for an `other` that is not a "
                f"{cd.name} (`{arm['proj']} == other`) but the class keeps the "
                "generated hash over its fields, which the other object's hash "
                "cannot equal", f2 | {"hash": "generated" if hashable else None})
      continue
    me = hs.args.args[0].arg
    paths = _hash_paths(mod, hs)
    mirrored = [p for p in paths if _is_hash_of(p[2].value, arm["proj"], me)]
    when = set(arm["when"])
    if not mirrored:
      ctx.bad(name, rel, arm["line"],
              f"{cd.name}.__eq__ can return True for an `other` that is not a "
              f"{cd.name}: `{arm['proj']} == other`"
              + (f" when {' and '.join(('' if p else 'not ') + t for t, p in arm['when'])}"
                 if arm["when"] else "")
              + f"; then hash(other) == hash({arm['proj']}) must equal "
              f"hash(self), but __hash__ returns "
              f"{' / '.join(sorted({src(p[2].value) for p in paths}))} and never "
              f"hash({arm['proj']}): equal nodes hash differently, so set/dict "
              "de-duplication keeps both",
              f2 | {"hash_returns": sorted({src(p[2].value) for p in paths})})
      continue
    # the mirrored return must be taken whenever the arm applies
    ok = any(set(p[0]) <= when for p in mirrored)
    if not ok:
      raise AnalysisError(
          f"{cd.name}.__hash__ returns hash({arm['proj']}) under "
          f"{[p[0] for p in mirrored]} but the __eq__ arm applies under "
          f"{arm['when']}: implication not decided")
    ctx.ok(name, rel, arm["line"], f2 | {"mirrored_by": src(mirrored[0][2])})
  return n


def _multi_return_hash(ctx, rel, mod, cd, hs, rets, compared, eq_kind,
                       struct_info, facts):
  """__hash__ with several returns: every returned expression and every test
  choosing between them must be a function of compared projections."""
  me = hs.args.args[0].arg
  name = cd.name
  if compared is None:
    if eq_kind == "struct-fields":
      compared = {f"self.{f}" for f in struct_info["fields"]}
    else:
      compared = set()
  unc = []
  for lits_txt, lit_nodes, r in _hash_paths(mod, hs):
    for e in [r.value] + lit_nodes:
      if isinstance(e, ast.Call) and isinstance(e.func, ast.Attribute) and \
          e.func.attr == "__hash__" and isinstance(e.func.value, ast.Call) and \
          dotted(e.func.value.func) == "super":
        raise AnalysisError(f"{name}.__hash__: super().__hash__() on one of "
                            "several paths: not understood")
      if src(e) == f"id({me})":
        unc.append(e)
        continue
      unc.extend(_uncovered_self(e, me, compared))
  ctxs = sorted({_minimal_context(mod, n, hs) if isinstance(n, ast.Name) else src(n)
                 for n in unc})
  facts = facts | {"hashed": sorted({src(r.value) for r in rets})}
  ctx.check(not unc, f"{name}:eq-hash", rel, hs.lineno,
            f"{name}.__hash__ (several returns) uses the projection(s) {ctxs} "
            f"but __eq__ compares {sorted(compared)}; two equal objects can "
            "hash differently", facts | {"uncovered": ctxs})
  return 1


def _eq_hash_class(ctx, rel, mod, cd, struct_info):
  """One instance per class defining __eq__ and/or __hash__."""
  meths = {st.name: st for st in cd.body
           if isinstance(st, (ast.FunctionDef, ast.AsyncFunctionDef))}
  eq, hs = meths.get("__eq__"), meths.get("__hash__")
  if eq is None and hs is None:
    return 0
  name = cd.name
  compared, foreign = _eq_arms(mod, eq, name) if eq is not None else (None, [])
  facts = {"compared": sorted(compared) if compared is not None else None}
  n_extra = _foreign_arms(ctx, rel, mod, cd, hs, struct_info, foreign, facts)
  # what kind of equality does the class have?
  if eq is not None:
    eq_kind = "custom"
  elif struct_info is not None and struct_info["eq"] is not False:
    eq_kind = "struct-fields"
  else:
    eq_kind = "identity"
  facts["eq"] = eq_kind
  if hs is None:
    # custom __eq__ without __hash__
    if struct_info is not None and struct_info["frozen"] and struct_info["eq"] is not False:
      # msgspec generates a hash over all fields
      fields = struct_info["fields"]
      uncovered = [f for f in fields if f"self.{f}" not in compared
                   and not any(c.startswith(f"self.{f}") or f"self.{f}" in c
                               for c in compared)]
      ctx.check(not uncovered, f"{name}:eq-hash", rel, cd.lineno,
                f"{name} writes __eq__ but keeps the generated hash over all "
                f"fields; fields {uncovered} are hashed but not compared",
                facts | {"hashed": [f"self.{f}" for f in fields]})
    else:
      ctx.ok(f"{name}:eq-hash", rel, cd.lineno, facts | {"hashed": None,
                                                         "note": "unhashable"})
    return 1 + n_extra
  me = hs.args.args[0].arg
  rets = [n for n in walk_no_nested(hs) if isinstance(n, ast.Return)]
  if not rets or any(r.value is None for r in rets):
    raise AnalysisError(f"{name}.__hash__: expected `return <expr>`")
  if len(rets) > 1:
    return _multi_return_hash(ctx, rel, mod, cd, hs, rets, compared, eq_kind,
                              struct_info, facts) + n_extra
  h = rets[0].value
  facts["hashed"] = src(h)
  # shape A: struct hash of (a copy of) self
  if isinstance(h, ast.Call) and isinstance(h.func, ast.Attribute) and \
      h.func.attr == "__hash__" and isinstance(h.func.value, ast.Call) and \
      dotted(h.func.value.func) == "super":
    sup = h.func.value
    obj = sup.args[1] if len(sup.args) == 2 else None
    src_ok = False
    dropped = []
    if obj is None or dotted(obj) == me:
      src_ok = True
    elif isinstance(obj, ast.Name):
      rd = reaching(hs)
      defs = defs_at(rd, rets[0], obj.id)
      if len(defs) == 1 and isinstance(defs[0], ast.Assign) and \
          isinstance(defs[0].value, ast.Call) and \
          dotted(defs[0].value.func) == f"{me}.Replace" and \
          not defs[0].value.args and all(
              k.arg and isinstance(k.value, ast.Constant)
              for k in defs[0].value.keywords):
        src_ok = True
        dropped = [k.arg for k in defs[0].value.keywords]
    if not src_ok:
      raise AnalysisError(f"{name}.__hash__: super().__hash__() receiver not understood")
    facts["hashed"] = f"struct fields of self minus {dropped}"
    ctx.check(eq_kind == "struct-fields", f"{name}:eq-hash", rel, hs.lineno,
              f"{name}.__hash__ hashes the struct fields, but equality is "
              f"{eq_kind}: a field that is hashed is not compared", facts)
    return 1 + n_extra
  # shape B: identity hash
  if src(h) == f"id({me})":
    ctx.check(eq_kind == "identity", f"{name}:eq-hash", rel, hs.lineno,
              f"{name}.__hash__ is id(self) but equality is {eq_kind}: equal "
              "objects would hash differently", facts)
    return 1 + n_extra
  # shape C: an expression over self projections
  if compared is None:
    if eq_kind == "struct-fields":
      fields = struct_info["fields"]
      compared = {f"self.{f}" for f in fields}
      facts["compared"] = sorted(compared)
    else:
      compared = set()
  unc = _uncovered_self(h, me, compared)
  ctxs = sorted({_minimal_context(mod, n, hs) for n in unc})
  ctx.check(not unc, f"{name}:eq-hash", rel, hs.lineno,
            f"{name}.__hash__ returns {src(h)}: the projection(s) {ctxs} are "
            f"hashed but __eq__ compares {sorted(compared)}; two equal objects "
            "can hash differently", facts | {"uncovered": ctxs})
  return 1 + n_extra


@rule("R12.2", "C12", floor=10)
def r12_2(ctx):
  """Hashed projections are functions of compared projections."""
  sch = get_schema(ctx)
  n = 0
  for rel in (PYTD, NODE, BOOLEQ):
    # __eq__/__hash__ inherited from a base class defined in the same file
    # are the class's own as far as the law is concerned: every class is
    # judged on the pair its instances actually use (local MRO)
    mod = U.virtual(ctx, rel, flatten=True, flatten_names=("__eq__", "__hash__"))
    for cd in mod.tree.body:
      if not isinstance(cd, ast.ClassDef):
        continue
      info = None
      if rel != BOOLEQ and cd.name in sch.classes:
        info = {"eq": sch.option(cd.name, "eq", True),
                "frozen": sch.option(cd.name, "frozen", False),
                "fields": list(sch.fields(cd.name))}
      n += _eq_hash_class(ctx, rel, mod, cd, info)
  # helpers that hash a set-valued projection must not depend on its order
  mod = get_module(ctx, BOOLEQ)
  helpers = set()
  for cd in mod.tree.body:
    if isinstance(cd, ast.ClassDef):
      for st in cd.body:
        if isinstance(st, ast.FunctionDef) and st.name == "__hash__":
          for c in calls_in(st):
            d = dotted(c.func)
            if d in mod.functions and c.args and \
                (dotted(c.args[0]) or "").startswith(st.args.args[0].arg + "."):
              helpers.add(d)
  for hname in sorted(helpers):
    fn, walks = _order_free_helper(mod, hname)
    if not walks:
      raise AnalysisError(f"{hname}: no walk over its argument found")
    ctx.check(all(ok for _, ok in walks), f"{hname}:order-free", BOOLEQ,
              fn.lineno,
              f"{hname} hashes a set-valued projection; the walk(s) "
              f"{[w for w, ok in walks if not ok]} observe the set's iteration "
              "order, so equal sets can hash differently",
              {"walks": [w for w, _ in walks]})


# -- R12.3 ------------------------------------------------------------------------

_ORDER_PRESERVING_AFTER_CANON = {"ClearLookupCache", "ClearClassPointers"}
_POINTER_SETTERS = {"FillInLocalPointers", "LookupExternalTypes",
                    "LookupClasses", "LookupLocalTypes"}


def _visitor_of(call):
  """`X.Visit(V(...))` -> (receiver name, 'V'), else None."""
  if isinstance(call, ast.Call) and isinstance(call.func, ast.Attribute) and \
      call.func.attr == "Visit" and isinstance(call.func.value, ast.Name) and \
      len(call.args) == 1 and isinstance(call.args[0], ast.Call):
    d = dotted(call.args[0].func)
    if d:
      return call.func.value.id, d.split(".")[-1]
  return None


def _unit_visits(unit):
  out = []
  for c in flow.unconditional_calls(unit):
    v = _visitor_of(c)
    if v:
      out.append(v)
  return out


class _Pipeline:
  """What SerializeAst does to the tree it hands to SerializableAst(...)."""


def _export_pipeline(ctx):
  """The export pipeline of SerializeAst, read once (shared by R12.3 and the
  sort-key rule R12.7 in rules/c12_sortkey.py): the virtual module with the
  step functions inlined, the constructor statement, reaching definitions, the
  per-path verdicts of the canonical-ordering walk, the names that denote the
  exported object (`aliases`) / the trees it was derived from (`lineage`) and
  the statements that apply CanonicalOrderingVisitor (`canon_stmts`)."""
  def make():
    p = _Pipeline()
    # module-local step functions (`ast = _CleanForExport(ast)`) are inlined:
    # the pipeline is a property of what SerializeAst does, not of where the
    # statements are written
    p.smod = smod = U.virtual(ctx, SERIALIZE, inline=("SerializeAst",))
    p.fn = fn = smod.func("SerializeAst")
    ctors = calls_in(fn, name="SerializableAst")
    if len(ctors) != 1:
      raise AnalysisError("SerializeAst: SerializableAst(...) call not found")
    ctor = ctors[0]
    a0 = ctor.args[0] if ctor.args else kwarg(ctor, "ast")
    if not isinstance(a0, ast.Name):
      raise AnalysisError("SerializeAst: the AST argument is not a local name")
    p.var = var = a0.id
    p.cstmt = cstmt = smod.enclosing_stmt(ctor)
    p.rd = rd = reaching(fn)
    # -- canonical ordering: walk the definition chain backwards from the ctor
    p.verdicts = verdicts = []   # per path: (has_canonical, visitors_after)
    p.unknown = unknown = []
    p.aliases = aliases = {var}  # names that denote the very object handed to the ctor
    p.lineage = lineage = {var}  # names of the trees that object was derived from by .Visit
    p.canon_stmts = canon_stmts = []

    def back(name, stmt, after, depth, seen):
      if depth > 12:
        raise AnalysisError("SerializeAst: definition chain too deep")
      defs = defs_at(rd, stmt, name)
      if not defs:
        verdicts.append((False, list(after)))
        return
      for d in defs:
        if d in seen:
          continue
        plain = isinstance(d, ast.Assign) and len(d.targets) == 1 and \
            dotted(d.targets[0]) == name
        if plain and isinstance(d.value, ast.Name):
          # `name = other`: the same object under another name
          if not after:
            aliases.add(d.value.id)
          lineage.add(d.value.id)
          back(d.value.id, d, after, depth + 1, seen | {d})
          continue
        v = _visitor_of(d.value) if plain else None
        if v is None:
          # not `name = X.Visit(V())`: nothing is known about its order
          unknown.append(src(d)[:80])
          verdicts.append((False, list(after)))
          continue
        recv, vis = v
        lineage.add(recv)
        if vis == "CanonicalOrderingVisitor":
          verdicts.append((True, list(after)))
          if d not in canon_stmts:
            canon_stmts.append(d)
          continue
        back(recv, d, after + [vis], depth + 1, seen | {d})

    back(var, cstmt, [], 0, frozenset())
    # a module-local helper the inliner had to leave as a call may do (or undo)
    # any of the steps: refuse rather than judge what cannot be seen
    for c in calls_in(fn):
      if dotted(c.func) in smod.functions and any(
          isinstance(a, ast.Name) and a.id in lineage
          for a in list(c.args) + [k.value for k in c.keywords]):
        raise AnalysisError(
            f"SerializeAst: the tree is passed to the helper {dotted(c.func)}, "
            f"which could not be inlined ({'; '.join(x for x in smod.notes if 'not inlined' in x)[:160]})")
    return p
  return ctx.memo(("c12pipeline",), make)


@rule("R12.3", "C12", floor=6)
def r12_3(ctx):
  """Export pipeline of SerializeAst."""
  sch = get_schema(ctx)
  p = _export_pipeline(ctx)
  smod, fn, var, cstmt = p.smod, p.fn, p.var, p.cstmt
  verdicts, unknown, aliases, lineage = p.verdicts, p.unknown, p.aliases, p.lineage
  late = sorted({v for ok, after in verdicts if ok for v in after
                 if v not in _ORDER_PRESERVING_AFTER_CANON})
  if late:
    raise AnalysisError(
        f"SerializeAst: visitor(s) {late} run after CanonicalOrderingVisitor; "
        "whether they preserve order is not known to the rule")
  ctx.check(bool(verdicts) and all(ok for ok, _ in verdicts),
            "SerializeAst:CanonicalOrderingVisitor", SERIALIZE, cstmt.lineno,
            "the AST handed to SerializableAst(...) is not (on every path) "
            "the result of .Visit(visitors.CanonicalOrderingVisitor())"
            + (f"; other definitions: {unknown}" if unknown else ""),
            {"paths": [(ok, after) for ok, after in verdicts]})
  # -- in-place cleaners dominate the ctor
  def gen(unit):
    out = set()
    for recv, vis in _unit_visits(unit):
      # ClassType nodes are shared along the whole lineage (ASSUMPTIONS); the
      # lookup caches belong to the one object that is handed over
      if vis == "ClearClassPointers" and recv in lineage:
        out.add("pointers-cleared")
      if vis == "ClearLookupCache" and recv in aliases:
        out.add("cache-cleared")
    return out

  def kill(unit):
    k = set()
    is_copy = isinstance(unit, ast.Assign) and isinstance(unit.value, ast.Name) \
        and unit.value.id in aliases
    if aliases & stored_names(unit) and not is_copy:
      k.add("cache-cleared")
    for _, vis in _unit_visits(unit):
      if vis in _POINTER_SETTERS:
        k.add("pointers-cleared")
    return k

  mf = flow.flow(fn, gen, kill, mode="must")
  st = mf.before.get(cstmt)
  if st is None:
    raise AnalysisError("SerializeAst: constructor statement unreachable")
  ctx.check("pointers-cleared" in st, "SerializeAst:ClearClassPointers", SERIALIZE,
            cstmt.lineno,
            f"`{var}.Visit(visitors.ClearClassPointers())` does not dominate "
            "SerializableAst(...): ClassType.cls (typed Any) would be encoded "
            "as a nested class body and decode to a dict",
            {"facts_at_ctor": sorted(st)})
  ctx.check("cache-cleared" in st, "SerializeAst:ClearLookupCache", SERIALIZE,
            cstmt.lineno,
            f"`{var}.Visit(ClearLookupCache())` must be applied to the final "
            f"value of `{var}` before SerializableAst(...): the _name2item "
            "lookup caches are struct fields and would be serialised",
            {"facts_at_ctor": sorted(st)})
  # -- ClearLookupCache clears the cache of every class that has one
  cached = [c for c in sch.classes if not sch.is_abstract(c)
            and "_name2item" in sch.fields(c)]
  if not cached:
    raise AnalysisError("no Node class with a _name2item cache found")
  smod.cls("ClearLookupCache")

  def visitor_method(mod_, cls_, names):
    # own or inherited from a base class / mixin of the same file
    classes = {k: v for k, v in mod_.classes.items() if v in mod_.tree.body}
    opaque = None
    for b in U.local_mro(classes, cls_):
      if b.startswith("?"):
        opaque = opaque or b[1:]
        continue
      own = mod_.methods(b)
      for nm in names:
        if nm in own:
          if opaque is not None:
            raise AnalysisError(
                f"{cls_}.{nm} is defined in {b}, behind the base {opaque} which is "
                "not defined in the file and may define it as well")
          return own[nm]
    return None

  for c in cached:
    m = visitor_method(smod, "ClearLookupCache", (f"Leave{c}", f"Enter{c}", f"Visit{c}"))
    ok = False
    if m is not None and len(m.args.args) == 2:
      p = m.args.args[1].arg
      ok = any(dotted(cl.func) == f"{p}._name2item.clear" for cl in calls_in(m))
    ctx.check(ok, f"ClearLookupCache:{c}", SERIALIZE,
              m.lineno if m is not None else smod.cls("ClearLookupCache").lineno,
              f"pytd.{c} has a _name2item cache field but ClearLookupCache "
              "does not clear it", {"method": m.name if m is not None else None})
  # -- ClearClassPointers resets ClassType.cls
  vmod = get_module(ctx, VISITORS)
  vmod.cls("ClearClassPointers")
  m = visitor_method(vmod, "ClearClassPointers", ("EnterClassType",))
  ok = False
  if m is not None and len(m.args.args) == 2:
    p = m.args.args[1].arg
    ok = any(isinstance(n, ast.Assign) and len(n.targets) == 1
             and dotted(n.targets[0]) == f"{p}.cls"
             and isinstance(n.value, ast.Constant) and n.value.value is None
             for n in ast.walk(m))
  ctx.check(ok, "ClearClassPointers:EnterClassType", VISITORS,
            m.lineno if m is not None else vmod.cls("ClearClassPointers").lineno,
            "ClearClassPointers.EnterClassType must set node.cls = None", {})


# -- R12.4 ------------------------------------------------------------------------

@rule("R12.4", "C12", floor=9)
def r12_4(ctx):
  """= R4.4: deterministic encoder, constant gzip header, sorted lists."""
  U.serialisation_instances(ctx)


# -- R12.5 ------------------------------------------------------------------------

_WANT_CAUGHT = ("OSError", "gzip.BadGzipFile", "msgspec.DecodeError",
                "msgspec.ValidationError")


def S_params(fn):
  return [a.arg for a in fn.args.posonlyargs + fn.args.args]


@rule("R12.5", "C12", floor=11)
def r12_5(ctx):
  """Decoder types, loader wiring and error conversion."""
  mod = get_module(ctx, PICKLE)
  want = {"AstDecoder": "serialize_ast.SerializableAst",
          "BuiltinsDecoder": "serialize_ast.ModuleBundle"}
  for name, typ in want.items():
    v = mod.const(name)
    if not (isinstance(v, ast.Call) and dotted(v.func) == "msgspec.msgpack.Decoder"):
      raise AnalysisError(f"pickle_utils.{name} is not a msgspec.msgpack.Decoder(...)")
    t = kwarg(v, "type") or (v.args[0] if v.args else None)
    got = dotted(t) if t is not None else None
    ctx.check(got == typ, f"{name}:type", PICKLE, v.lineno,
              f"{name} is typed {got}; the loader promises {typ} (an untyped "
              "decoder yields dicts, a wrong type fails validation)",
              {"type": got})
  # loaders use their decoder.  The file loader is found by its role: the
  # module-level function whose call LoadAst / LoadBuiltins return and which
  # is handed a module-level msgspec Decoder (its name and the name of its
  # decoder parameter are free)
  decoders = {nm for nm, v in mod.assigns.items()
              if isinstance(v, ast.Call) and dotted(v.func) == "msgspec.msgpack.Decoder"}
  loader_calls = {}
  for fname, dec, how in (("LoadAst", "AstDecoder", "load"),
                          ("LoadBuiltins", "BuiltinsDecoder", "load"),
                          ("DecodeAst", "AstDecoder", "decode"),
                          ("DecodeBuiltins", "BuiltinsDecoder", "decode")):
    fn = mod.func(fname)
    rets = [n for n in walk_no_nested(fn) if isinstance(n, ast.Return)]
    if len(rets) != 1 or not isinstance(rets[0].value, ast.Call):
      raise AnalysisError(f"{fname}: expected `return <call>`")
    c = rets[0].value
    if how == "load":
      callee = dotted(c.func)
      if callee not in mod.functions or callee in S_params(fn):
        raise AnalysisError(
            f"{fname}: returns `{src(c)[:60]}`, not a call of a module-level "
            "loader function")
      loader_calls[fname] = (callee, c, dec, fn)
    else:
      d = dotted(c.func) or ""
      got = d[:-len(".decode")] if d.endswith(".decode") else None
      ctx.check(got == dec, f"{fname}:decoder", PICKLE, fn.lineno,
                f"{fname} must decode with {dec}; uses {got or src(c)}",
                {"decoder": got})
  names = {v[0] for v in loader_calls.values()}
  if len(names) != 1:
    raise AnalysisError(f"LoadAst / LoadBuiltins use different loaders {sorted(names)}")
  lname = names.pop()
  lfn = mod.func(lname)
  lparams = S_params(lfn)
  if lfn.args.vararg or lfn.args.kwarg:
    raise AnalysisError(f"{lname}: star parameters")
  receives = {}
  for fname, (_, c, dec, fn) in loader_calls.items():
    if any(isinstance(a, ast.Starred) for a in c.args) or \
        any(k.arg is None for k in c.keywords):
      raise AnalysisError(f"{fname}: star arguments in the loader call")
    bound = dict(zip(lparams, c.args))
    for k in c.keywords:
      bound[k.arg] = k.value
    receives[fname] = {p: dotted(a) for p, a in bound.items() if dotted(a) in decoders}
  dec_params = set().union(*[set(r) for r in receives.values()])
  if not dec_params:
    # no decoder is handed over at all: the parameter .decode is called on
    dec_params = {(dotted(c.func) or "")[:-len(".decode")] for c in calls_in(lfn)
                  if (dotted(c.func) or "").endswith(".decode")} & set(lparams)
  if len(dec_params) != 1:
    raise AnalysisError(
        f"{lname}: the decoder parameter is not identified ({sorted(dec_params)})")
  dec_param = dec_params.pop()
  for fname, (_, c, dec, fn) in loader_calls.items():
    got = receives[fname].get(dec_param)
    ctx.check(got == dec, f"{fname}:decoder", PICKLE, fn.lineno,
              f"{fname} must decode with {dec}; uses {got or src(c)}",
              {"decoder": got, "loader": lname})
  # the loader: decode inside the try; failures become LoadPickleError
  # (constructs keep the historical name `_Load` whatever the function is called)
  fn = lfn
  tries = [n for n in walk_no_nested(fn) if isinstance(n, ast.Try)]
  if len(tries) != 1:
    raise AnalysisError(f"{lname}: expected one try statement")
  t = tries[0]
  in_try = [c for st in t.body for c in calls_in(st)
            if dotted(c.func) == f"{dec_param}.decode"]
  all_dec = [c for c in calls_in(fn) if dotted(c.func) == f"{dec_param}.decode"]
  opens = [c for st in t.body for c in calls_in(st)
           if dotted(c.func) in ("open_function", "open")]
  all_opens = [c for c in calls_in(fn) if dotted(c.func) in ("open_function", "open")]
  ctx.check(bool(all_dec) and len(in_try) == len(all_dec)
            and bool(all_opens) and len(opens) == len(all_opens),
            "_Load:guarded-region", PICKLE, t.lineno,
            "opening the file and dec.decode(data) must both happen inside "
            "the try whose handler raises LoadPickleError",
            {"decode_in_try": len(in_try), "open_in_try": len(opens)})
  caught = {}
  for h in t.handlers:
    raises = [n for n in ast.walk(h) if isinstance(n, ast.Raise)]
    conv = bool(raises) and all(
        isinstance(r.exc, ast.Call) and dotted(r.exc.func) == "LoadPickleError"
        for r in raises) and flow.terminates(h.body)
    if h.type is None:
      names = ["<bare>"]
    elif isinstance(h.type, ast.Tuple):
      names = [dotted(e) for e in h.type.elts]
    else:
      names = [dotted(h.type)]
    for nme in names:
      caught.setdefault(nme, conv)
  broad = ("Exception", "BaseException", "<bare>")
  # reference class hierarchy: gzip.BadGzipFile < OSError,
  # msgspec.ValidationError < msgspec.DecodeError < msgspec.MsgspecError
  supers = {"gzip.BadGzipFile": ("OSError",),
            "msgspec.ValidationError": ("msgspec.DecodeError",
                                        "msgspec.MsgspecError"),
            "msgspec.DecodeError": ("msgspec.MsgspecError",)}
  for exc in _WANT_CAUGHT:
    ok = caught.get(exc, False) or any(caught.get(b, False) for b in broad) \
        or any(caught.get(b, False) for b in supers.get(exc, ()))
    ctx.check(ok, f"_Load:converts:{exc}", PICKLE, t.lineno,
              f"_Load does not turn {exc} into LoadPickleError (callers such "
              "as io.wrap_pytype_exceptions only know LoadPickleError)",
              {"caught": sorted(k for k in caught if k)})


# -- R12.6 ------------------------------------------------------------------------
# Constructor-argument typing: what is *stored* in a field must be of a type
# the field declares (msgspec does not validate on construction, it encodes
# whatever it finds and fails - or changes the value - on decoding).

_UNK = (frozenset(), True)
_STR_FUNCS = {"repr", "str", "ascii", "chr", "hex", "oct", "bin", "format"}
_STR_METHODS = {"format", "join", "decode", "lower", "upper", "strip", "lstrip",
                "rstrip", "replace", "removeprefix", "removesuffix", "title"}
_FUNC_TYPES = {"int": "int", "len": "int", "ord": "int", "hash": "int", "id": "int",
               "bool": "bool", "isinstance": "bool", "callable": "bool",
               "float": "float", "complex": "complex", "bytes": "bytes",
               "tuple": "tuple", "list": "list", "set": "set", "frozenset": "frozenset",
               "dict": "dict", "sorted": "list"}
_ISINSTANCE = {"int": {"int", "bool"}, "float": {"float"}, "complex": {"complex"},
               "str": {"str"}, "bytes": {"bytes"}, "bool": {"bool"},
               "tuple": {"tuple"}, "list": {"list"}, "dict": {"dict"},
               "set": {"set"}, "frozenset": {"frozenset"}}
# what msgspec DECODES for a declared atom (strict mode): `bool` is not covered
# by `int` (msgpack true/false is rejected for an int field: "Expected `int |
# str`, got `bool`"), although isinstance(True, int) and construction/encoding
# never validate; an int is accepted for a float field, a bool is not
_ATOM_ADMITS = {"int": {"int"}, "str": {"str"}, "bool": {"bool"},
                "float": {"float", "int"}, "bytes": {"bytes"},
                "None": {"NoneType"}}


def _const_type_universe():
  """Type names an ast.Constant payload can have (CPython reference table)."""
  tab = getattr(ast, "_const_node_type_names", None)
  if tab:
    return frozenset(t.__name__ for t in tab)
  return frozenset({"bool", "NoneType", "int", "float", "complex", "str", "bytes",
                    "ellipsis"})


def _u(a, b):
  return (a[0] | b[0], a[1] or b[1])


def _conjuncts(test, pol):
  """Atomic (test, polarity) facts implied by `test` having truth value pol."""
  while isinstance(test, ast.UnaryOp) and isinstance(test.op, ast.Not):
    test, pol = test.operand, not pol
  if isinstance(test, ast.BoolOp):
    if (isinstance(test.op, ast.And) and pol) or (isinstance(test.op, ast.Or) and not pol):
      out = []
      for v in test.values:
        out.extend(_conjuncts(v, pol))
      return out
    return []
  return [(test, pol)]


class _ArgTypes:
  """Small intra-procedural inference: the set of run-time types an expression
  can definitely have (plus an 'anything else' flag).  Never guesses."""

  def __init__(self, ctx, mod, sch):
    self.ctx, self.mod, self.sch = ctx, mod, sch
    self._rd = {}
    self._models = {}

  # -- helpers --------------------------------------------------------------
  def node_class(self, func):
    d = dotted(func)
    if d is None:
      return None
    head, _, last = d.rpartition(".")
    if last not in self.sch.classes or self.sch.is_abstract(last):
      return None
    imp = self.mod.imports
    if self.mod.rel == PYTD and not head:
      return last
    if head and imp.get(head, "").endswith("pytd.pytd"):
      return last
    if not head and imp.get(last, "").endswith(f"pytd.pytd.{last}"):
      return last
    if head == "pytd" and imp.get("pytd", "").endswith(".pytd"):
      return last
    return None

  def rd(self, fn):
    if fn not in self._rd:
      self._rd[fn] = reaching(fn)
    return self._rd[fn]

  def guards(self, stmt):
    out = []
    for t, p in flow.guards(self.mod.parent, stmt):
      out.extend(_conjuncts(t, p))
    return out

  def narrow(self, expr, res, stmt):
    key = src(expr)
    types, unk = res
    for t, pol in self.guards(stmt):
      if isinstance(t, ast.Call) and dotted(t.func) == "isinstance" and \
          len(t.args) == 2 and src(t.args[0]) == key:
        ks = t.args[1].elts if isinstance(t.args[1], ast.Tuple) else [t.args[1]]
        names = [dotted(k) for k in ks]
        if any(n not in _ISINSTANCE for n in names):
          if pol:
            # narrowed to a class we do not model: nothing definite remains
            cls = [self.node_class(k) for k in ks]
            if all(cls):
              types, unk = frozenset(f"node:{c}" for c in cls), False
            else:
              types, unk = frozenset(), True
          continue
        ts = frozenset().union(*(_ISINSTANCE[n] for n in names))
        if pol:
          types, unk = (ts if unk else types & ts), False
        else:
          types = types - ts
      elif isinstance(t, ast.Compare) and len(t.ops) == 1 and \
          isinstance(t.ops[0], (ast.Is, ast.IsNot)) and src(t.left) == key and \
          isinstance(t.comparators[0], ast.Constant) and t.comparators[0].value is None:
        is_none = pol == isinstance(t.ops[0], ast.Is)
        if is_none:
          types, unk = frozenset({"NoneType"}), False
        else:
          types = types - {"NoneType"}
      elif src(t) == key and pol:
        types = types - {"NoneType"}   # truthy: not None
    return types, unk

  # -- the inference ----------------------------------------------------------
  def infer(self, expr, stmt, depth=0):
    fn = self.mod.enclosing_function(stmt)
    if depth > 6:
      return _UNK
    res = self._infer(expr, stmt, fn, depth)
    return self.narrow(expr, res, stmt)

  def _infer(self, expr, stmt, fn, depth):
    one = lambda t: (frozenset({t}), False)
    if isinstance(expr, ast.Constant):
      return one(type(expr.value).__name__)
    if isinstance(expr, ast.JoinedStr):
      return one("str")
    if isinstance(expr, (ast.Tuple, ast.List, ast.Set, ast.Dict)):
      return one(type(expr).__name__.lower())
    if isinstance(expr, (ast.ListComp, ast.SetComp, ast.DictComp)):
      return one({"ListComp": "list", "SetComp": "set", "DictComp": "dict"}[type(expr).__name__])
    if isinstance(expr, ast.NamedExpr):
      return self.infer(expr.value, stmt, depth + 1)
    if isinstance(expr, ast.IfExp):
      return _u(self.infer(expr.body, stmt, depth + 1), self.infer(expr.orelse, stmt, depth + 1))
    if isinstance(expr, ast.BoolOp):
      acc = (frozenset(), False)
      for v in expr.values:
        acc = _u(acc, self.infer(v, stmt, depth + 1))
      return acc
    if isinstance(expr, ast.UnaryOp):
      if isinstance(expr.op, ast.Not):
        return one("bool")
      t, unk = self.infer(expr.operand, stmt, depth + 1)
      return frozenset("int" if x == "bool" else x for x in t), unk
    if isinstance(expr, ast.BinOp):
      if isinstance(expr.op, ast.Mod) and self.infer(expr.left, stmt, depth + 1) == one("str"):
        return one("str")
      l, r = self.infer(expr.left, stmt, depth + 1), self.infer(expr.right, stmt, depth + 1)
      if isinstance(expr.op, ast.Add) and l == r and not l[1] and len(l[0]) == 1 and \
          next(iter(l[0])) in ("str", "bytes", "tuple", "list"):
        return l
      return _UNK
    if isinstance(expr, ast.Compare):
      return one("bool") if all(isinstance(o, (ast.Is, ast.IsNot, ast.In, ast.NotIn))
                                for o in expr.ops) else _UNK
    if isinstance(expr, ast.Call):
      return self._call(expr, stmt, fn, depth)
    if isinstance(expr, ast.Name):
      return self._name(expr, stmt, fn, depth)
    if isinstance(expr, ast.Attribute):
      return self._attribute(expr, stmt, fn)
    return _UNK

  def _call(self, call, stmt, fn, depth):
    one = lambda t: (frozenset({t}), False)
    d = dotted(call.func)
    if d in _STR_FUNCS:
      return one("str")
    if d in _FUNC_TYPES:
      return one(_FUNC_TYPES[d])
    nc = self.node_class(call.func)
    if nc:
      return one(f"node:{nc}")
    if isinstance(call.func, ast.Attribute):
      if call.func.attr in _STR_METHODS and isinstance(
          call.func.value, (ast.Constant, ast.JoinedStr)):
        return one("str")
      if call.func.attr == "encode":
        return one("bytes") if self.infer(call.func.value, stmt, depth + 1) == one("str") else _UNK
      # a method of the enclosing class: the union of what it returns
      recv = call.func.value
      meth = fn
      while meth is not None and not isinstance(self.mod.parent.get(meth), ast.ClassDef):
        meth = self.mod.enclosing_function(meth)
      if isinstance(recv, ast.Name) and meth is not None and meth.args.args and \
          recv.id == meth.args.args[0].arg and not isinstance(meth, ast.Lambda):
        cls = self.mod.parent[meth]
        target = [s for s in cls.body if isinstance(s, ast.FunctionDef)
                  and s.name == call.func.attr]
        if len(target) == 1 and not target[0].decorator_list and depth < 3 \
            and not call.args and not call.keywords:
          acc = (frozenset(), False)
          rets = [n for n in ast.walk(target[0]) if isinstance(n, ast.Return)
                  and self.mod.enclosing_function(n) is target[0]]
          if not rets or not flow.terminates(target[0].body):
            acc = _u(acc, one("NoneType"))
          for r in rets:
            acc = _u(acc, one("NoneType") if r.value is None
                     else self.infer(r.value, r, depth + 2))
          return acc
    return _UNK

  def _name(self, name, stmt, fn, depth):
    if fn is None or isinstance(fn, ast.Lambda):
      return _UNK
    defs = defs_at(self.rd(fn), stmt, name.id)
    if not defs:
      for a in fn.args.posonlyargs + fn.args.args + fn.args.kwonlyargs:
        if a.arg == name.id and a.annotation is not None and \
            dotted(a.annotation) in _ISINSTANCE and dotted(a.annotation) != "int":
          return (frozenset(_ISINSTANCE[dotted(a.annotation)]), False)
      return _UNK
    acc = (frozenset(), False)
    for d in defs:
      val = None
      if isinstance(d, ast.Assign):
        for t in d.targets:
          if isinstance(t, ast.Name) and t.id == name.id:
            val = d.value
      elif isinstance(d, ast.AnnAssign) and isinstance(d.target, ast.Name) \
          and d.target.id == name.id:
        val = d.value
      if val is None or d is stmt:
        return _UNK
      acc = _u(acc, self.infer(val, d, depth + 1))
    return acc

  # -- type-tagged values -------------------------------------------------------
  def _attribute(self, expr, stmt, fn):
    meth = fn
    while meth is not None and not isinstance(self.mod.parent.get(meth), ast.ClassDef):
      meth = self.mod.enclosing_function(meth)
    if meth is None or isinstance(meth, ast.Lambda) or not meth.args.args or \
        not isinstance(expr.value, ast.Name) or expr.value.id != meth.args.args[0].arg:
      return _UNK
    model = self.tag_model(self.mod.parent[meth])
    if model is None or expr.attr != model["value"]:
      return _UNK
    tags = set(model["universe"])
    tag_expr = f"{expr.value.id}.{model['tag']}"
    for t, pol in self.guards(stmt):
      if not (isinstance(t, ast.Compare) and len(t.ops) == 1 and src(t.left) == tag_expr):
        continue
      op, rhs = t.ops[0], t.comparators[0]
      try:
        val = fold(rhs, mod=self.mod)
      except Unfoldable:
        continue
      if isinstance(op, (ast.Eq, ast.NotEq)) and isinstance(val, str):
        vals, positive = {val}, isinstance(op, ast.Eq)
      elif isinstance(op, (ast.In, ast.NotIn)) and isinstance(val, (tuple, list, set, frozenset)):
        vals, positive = set(val), isinstance(op, ast.In)
      else:
        continue
      if positive == pol:
        tags &= vals
      else:
        tags -= vals
    return (frozenset(tags), False)

  def tag_model(self, cls):
    """{tag, value, universe} when `cls` is built by `cls(type(E).__name__, E, ..)`
    from an ast.Constant payload: field <tag> then names type(<value>) exactly."""
    if cls in self._models:
      return self._models[cls]
    model = None
    fields = [s.target.id for s in cls.body
              if isinstance(s, ast.AnnAssign) and isinstance(s.target, ast.Name)]
    for m in cls.body:
      if not isinstance(m, ast.FunctionDef) or len(m.args.args) != 2:
        continue
      if not any(dotted(d) == "classmethod" for d in m.decorator_list):
        continue
      me, p = m.args.args[0].arg, m.args.args[1]
      ann = dotted(p.annotation) if p.annotation is not None else None
      if ann is None:
        continue
      head, _, last = ann.rpartition(".")
      if last != "Constant" or self.mod.imports.get(head, head) != "ast":
        continue
      for r in ast.walk(m):
        if isinstance(r, ast.Return) and isinstance(r.value, ast.Call) and \
            dotted(r.value.func) in (me, cls.name) and len(r.value.args) >= 2 and \
            len(fields) >= 2:
          a0, a1 = r.value.args[0], r.value.args[1]
          if src(a0) == f"type({src(a1)}).__name__" and src(a1) == f"{p.arg}.value":
            model = {"tag": fields[0], "value": fields[1], "ctor": m.name,
                     "universe": self._universe_at_call_sites(cls.name, m.name)}
    self._models[cls] = model
    return model

  def _universe_at_call_sites(self, clsname, ctor):
    """Constant payload types that reach the tagging constructor: the CPython
    table, minus what each call site has excluded on its path."""
    full = _const_type_universe()
    acc, sites = set(), 0
    d = self.mod.rel.rsplit("/", 1)[0] + "/"
    for rel in all_py_files(self.ctx):
      if not rel.startswith(d) or rel.endswith("_test.py"):
        continue
      if f"{clsname}.{ctor}" not in self.ctx.read(rel):
        continue
      m = get_module(self.ctx, rel)
      for c in calls_in(m.tree):
        if not (dotted(c.func) or "").endswith(f"{clsname}.{ctor}") or len(c.args) != 1:
          continue
        sites += 1
        here = set(full)
        payload = f"{src(c.args[0])}.value"
        for t, pol in flow.guards(m.parent, m.enclosing_stmt(c)):
          for t2, p2 in _conjuncts(t, pol):
            if isinstance(t2, ast.Compare) and len(t2.ops) == 1 and src(t2.left) == payload \
                and isinstance(t2.ops[0], (ast.Is, ast.IsNot)):
              rhs = src(t2.comparators[0])
              which = {"Ellipsis": "ellipsis", "...": "ellipsis", "None": "NoneType"}.get(rhs)
              if which:
                is_it = p2 == isinstance(t2.ops[0], ast.Is)
                here = {which} if is_it else here - {which}
            elif isinstance(t2, ast.Call) and dotted(t2.func) == "isinstance" and \
                len(t2.args) == 2 and src(t2.args[0]) == payload:
              ks = t2.args[1].elts if isinstance(t2.args[1], ast.Tuple) else [t2.args[1]]
              names = [dotted(k) for k in ks]
              if all(n in _ISINSTANCE for n in names):
                ts = set().union(*(_ISINSTANCE[n] for n in names))
                here = here & ts if p2 else here - ts
        acc |= here
    return frozenset(acc) if sites else full


def _field_admits(sch, ann):
  """(set of admitted type names, open) for a field annotation."""
  members, atoms = sch.expand(ann)
  if atoms & {"Any", "object"}:
    return set(), True
  out = {f"node:{m}" for m in members}
  for m in list(members):
    out |= {f"node:{s}" for s in sch.concrete_subclasses(m)}
  for a in atoms:
    if a not in _ATOM_ADMITS:
      return set(), True
    out |= _ATOM_ADMITS[a]
  return out, False


def _is_testfile(rel):
  base = rel.rsplit("/", 1)[-1]
  return base.endswith("_test.py") or base.startswith("test_") or "/tests/" in rel


@rule("R12.6", "C12", floor=6)
def r12_6(ctx):
  """What is stored in pytd.Literal.value is of a type the field declares."""
  sch = get_schema(ctx)
  target, field = "Literal", "value"
  if target not in sch.classes or field not in sch.fields(target):
    raise AnalysisError("pytd.Literal.value not found in the schema")
  ann = sch.fields(target)[field][0]
  allowed, open_ = _field_admits(sch, ann)
  if open_:
    raise AnalysisError(f"pytd.Literal.value is declared {src(ann)}: nothing to decide")
  pos = list(sch.fields(target)).index(field)
  n = 0
  for rel in all_py_files(ctx):
    if _is_testfile(rel) or f"{target}(" not in ctx.read(rel):
      continue
    mod = get_module(ctx, rel)
    inf = _ArgTypes(ctx, mod, sch)
    for call in calls_in(mod.tree):
      if inf.node_class(call.func) != target:
        continue
      arg = kwarg(call, field)
      if arg is None and len(call.args) > pos and not any(
          isinstance(a, ast.Starred) for a in call.args):
        arg = call.args[pos]
      if arg is None:
        raise AnalysisError(f"{rel}:{call.lineno}: pytd.Literal(...) without a "
                            "recognisable `value` argument")
      stmt = mod.enclosing_stmt(call)
      fn = mod.enclosing_function(call)
      types, unk = inf.infer(arg, stmt)
      outside = sorted(t for t in types if t not in allowed)
      qual = _qualname(mod, call)
      base = f"{rel.removeprefix('pytype/')}:{qual}:Literal.value<-{src(arg)[:40]}"
      facts = {"argument": src(arg), "can_be": sorted(types), "or_unknown": unk,
               "declared": src(ann)}
      n += 1
      if outside:
        ctx.bad(f"{base}:outside={','.join(outside)}", rel, call.lineno,
                f"`{src(arg)}` stored in pytd.Literal.value can be "
                f"{' / '.join(outside)} here, but the field is declared "
                f"{src(ann)}: msgspec does not validate on construction, so the "
                "stub is built and printed, but the serialised stub cannot be "
                "encoded or decoded again"
                + (" (a bool is NOT covered by a declared `int` when msgspec "
                   "decodes: the stub encodes, then DecodeAst raises "
                   "ValidationError `Expected int | ..., got bool`)"
                   if "bool" in outside else ""), facts)
      else:
        ctx.ok(base, rel, call.lineno, facts)
  if n == 0:
    raise AnalysisError("no pytd.Literal(...) construction site found")


def _qualname(mod, node):
  parts = []
  cur = node
  while cur in mod.parent:
    cur = mod.parent[cur]
    if isinstance(cur, (ast.FunctionDef, ast.AsyncFunctionDef, ast.ClassDef)):
      parts.append(cur.name)
  return ".".join(reversed(parts)) or "<module>"


PYI_TYPES = "pytype/pyi/types.py"
_FLOAT_ARM = ("    elif self.type in (\"float\", \"complex\"):\n"
              "      raise ParseError(\n"
              "          f\"Invalid type `{self.type}` in Literal[{self.value}].\"\n"
              "      )\n")

_SET_EQ = ("    if self is other:\n      return True\n"
           "    if isinstance(other, type(self)):\n"
           "      # equality doesn't care about the ordering of the type_list\n"
           "      return frozenset(self.type_list) == frozenset(other.type_list)\n"
           "    return NotImplemented\n")

_CLEAN_TAIL = ("  # Clean external references\n"
               "  ast.Visit(visitors.ClearClassPointers())\n"
               "  ast = ast.Visit(visitors.CanonicalOrderingVisitor())\n\n"
               "  # Clear out the Lookup caches.\n"
               "  ast.Visit(ClearLookupCache())\n")
_SER_DEF = "def SerializeAst(ast, src_path=None, metadata=None) -> SerializableAst:\n"


def _clean_helper(body):
  return ("def _CleanForExport(tree):\n" + body + "\n\n" + _SER_DEF)


_LOAD_CALLS = [
    (PICKLE, "def _Load(\n    dec: \"_Dec[_DecT]\",",
     "def _ReadAndDecode(\n    decoder: \"_Dec[_DecT]\","),
    (PICKLE, "    return dec.decode(data)\n", "    return decoder.decode(data)\n"),
    (PICKLE, "  return _Load(\n      AstDecoder, filename, compress, open_function\n  )",
     "  return _ReadAndDecode(\n      AstDecoder, filename, compress, open_function\n  )"),
]

VARIANTS = [
    # -- R12.1 -----------------------------------------------------------------
    {"name": "field-admits-only-generic-base", "rule": "R12.1", "file": PYTD, "expect": "fire",
     "old": "  name: str\n  type: TypeU\n  kind: ParameterKind",
     "new": "  name: str\n  type: NamedType | ClassType | GenericType\n  kind: ParameterKind"},
    {"name": "field-typed-with-abstract-root", "rule": "R12.1", "file": PYTD, "expect": "fire",
     "old": "  return_type: TypeU\n", "new": "  return_type: Type\n"},
    {"name": "new-generic-subclass-not-in-union", "rule": "R12.1", "file": PYTD, "expect": "fire",
     "old": "class Concatenate(GenericType):",
     "new": "class UnpackedType(GenericType):\n  \"\"\"Unpack[...].\"\"\"\n\n\nclass Concatenate(GenericType):"},
    {"name": "concatenate-dropped-from-GenericTypeU", "rule": "R12.1", "file": PYTD, "expect": "fire",
     "old": "GenericTypeU = Union[GenericType, TupleType, CallableType, Concatenate]",
     "new": "GenericTypeU = Union[GenericType, TupleType, CallableType]"},
    {"name": "new-type-class-not-in-TypeU", "rule": "R12.1", "file": PYTD, "expect": "fire",
     "old": "class Annotated(Type):",
     "new": "class NewTypeRef(Type):\n  name: str\n\n\nclass Annotated(Type):"},
    {"name": "template-item-loses-paramspec", "rule": "R12.1", "file": PYTD, "expect": "fire",
     "old": "  type_param: TypeParameterU\n", "new": "  type_param: TypeParameter\n"},
    {"name": "twin-union-members-reordered", "rule": "R12.1", "file": PYTD, "expect": "silent",
     "old": "GenericTypeU = Union[GenericType, TupleType, CallableType, Concatenate]",
     "new": "GenericTypeU = Union[Concatenate, CallableType, TupleType, GenericType]"},
    {"name": "twin-optional-spelling", "rule": "R12.1", "file": PYTD, "expect": "silent",
     "old": "  mutated_type: TypeU | None\n", "new": "  mutated_type: Union[TypeU, None]\n"},
    {"name": "twin-alias-inlined-in-field", "rule": "R12.1", "file": PYTD, "expect": "silent",
     "old": "  type_param: TypeParameterU\n", "new": "  type_param: TypeParameter | ParamSpec\n"},
    # -- R12.2 -----------------------------------------------------------------
    {"name": "setoftypes-hashes-ordered-tuple", "rule": "R12.2", "file": PYTD, "expect": "fire",
     "old": "    return hash(frozenset(self.type_list))",
     "new": "    return hash(self.type_list)"},
    {"name": "classtype-hashes-cls-pointer", "rule": "R12.2", "file": PYTD, "expect": "fire",
     "old": "    return hash((self.__class__.__name__, self.name))",
     "new": "    return hash((self.__class__.__name__, self.name, id(self.cls)))"},
    {"name": "eq-term-hashes-extra-field", "rule": "R12.2", "file": BOOLEQ, "expect": "fire",
     "old": "        and self.left == other.left\n        and self.right == other.right\n",
     "new": "        and self.left == other.left\n"},
    {"name": "typedeclunit-gets-value-equality", "rule": "R12.2", "file": PYTD, "expect": "fire",
     "old": "class TypeDeclUnit(Node, eq=False):", "new": "class TypeDeclUnit(Node):"},
    {"name": "expr-set-hash-unsorted", "rule": "R12.2", "file": BOOLEQ, "expect": "fire",
     "old": "  return hash(tuple(sorted(hash(e) for e in expr_set)))",
     "new": "  return hash(tuple(hash(e) for e in expr_set))"},
    {"name": "class-custom-eq-keeps-field-hash", "rule": "R12.2", "file": PYTD, "expect": "fire",
     "old": "  def __hash__(self):\n    # _name2item is a dict, so it can't be hashed.",
     "new": "  def __eq__(self, other):\n    return self.__class__ == other.__class__ and self.name == other.name\n\n  def __hash__(self):\n    # _name2item is a dict, so it can't be hashed."},
    {"name": "seeded-C12-r2m2", "rule": "R12.2", "patch": "seeded/C12-r2m2/patch.diff",
     "expect": "fire"},
    {"name": "classtype-equals-its-name-string", "rule": "R12.2", "file": PYTD, "expect": "fire",
     "old": "    return self.__class__ == other.__class__ and self.name == other.name\n\n  def __ne__",
     "new": "    if isinstance(other, str):\n      return self.name == other\n"
            "    return self.__class__ == other.__class__ and self.name == other.name\n\n  def __ne__"},
    {"name": "and-term-equals-a-bare-frozenset", "rule": "R12.2", "file": BOOLEQ, "expect": "fire",
     "old": "    return self.__class__ == other.__class__ and self.exprs == other.exprs\n\n"
            "  def __repr__(self):\n    return f\"And(",
     "new": "    if self.__class__ != other.__class__:\n      return other == self.exprs\n"
            "    return self.exprs == other.exprs\n\n"
            "  def __repr__(self):\n    return f\"And("},
    {"name": "classtype-duck-typed-equality", "rule": "R12.2", "file": PYTD, "expect": "fire",
     "old": "    return self.__class__ == other.__class__ and self.name == other.name\n\n  def __ne__",
     "new": "    return self.name == other.name\n\n  def __ne__"},
    {"name": "twin-setoftypes-foreign-other-leaves-first", "rule": "R12.2", "file": PYTD,
     "expect": "silent", "old": _SET_EQ,
     "new": "    if self is other:\n      return True\n"
            "    if not isinstance(other, type(self)):\n      return NotImplemented\n"
            "    return frozenset(other.type_list) == frozenset(self.type_list)\n"},
    {"name": "twin-setoftypes-singleton-mirrored-in-hash", "rule": "R12.2", "expect": "silent",
     "edits": [
         (PYTD, _SET_EQ,
          "    if self is other:\n      return True\n"
          "    if isinstance(other, type(self)):\n"
          "      return frozenset(self.type_list) == frozenset(other.type_list)\n"
          "    if len(frozenset(self.type_list)) == 1:\n"
          "      return next(iter(frozenset(self.type_list))) == other\n"
          "    return NotImplemented\n"),
         (PYTD, "    return hash(frozenset(self.type_list))\n",
          "    if len(frozenset(self.type_list)) == 1:\n"
          "      return hash(next(iter(frozenset(self.type_list))))\n"
          "    return hash(frozenset(self.type_list))\n")]},
    {"name": "setoftypes-singleton-hash-chosen-by-tuple-length", "rule": "R12.2", "expect": "fire",
     "edits": [
         (PYTD, "    return hash(frozenset(self.type_list))\n",
          "    if len(self.type_list) == 1:\n"
          "      return hash(self.type_list[0])\n"
          "    return hash(frozenset(self.type_list))\n")]},
    {"name": "twin-hash-via-sum-of-hashes", "rule": "R12.2", "file": BOOLEQ, "expect": "silent",
     "old": "  return hash(tuple(sorted(hash(e) for e in expr_set)))",
     "new": "  return hash(sum(hash(e) for e in expr_set))"},
    {"name": "twin-hash-omits-class-name", "rule": "R12.2", "file": PYTD, "expect": "silent",
     "old": "    return hash((self.__class__.__name__, self.name))",
     "new": "    return hash(self.name)"},
    {"name": "twin-eq-operands-swapped", "rule": "R12.2", "file": BOOLEQ, "expect": "silent",
     "old": "        and self.left == other.left\n        and self.right == other.right\n",
     "new": "        and other.left == self.left\n        and other.right == self.right\n"},
    # class identity hashed, same-class tested in __eq__ (any spelling / form)
    {"name": "twin-classtype-exact-class-guard-clause", "rule": "R12.2", "file": PYTD,
     "expect": "silent",
     "old": "    return self.__class__ == other.__class__ and self.name == other.name\n\n  def __ne__",
     "new": "    if type(self) is not type(other):\n      return False\n"
            "    return other.name == self.name\n\n  def __ne__"},
    {"name": "twin-classtype-hash-spelled-type-self", "rule": "R12.2", "file": PYTD,
     "expect": "silent",
     "old": "    return hash((self.__class__.__name__, self.name))",
     "new": "    return hash((type(self).__name__, self.name))"},
    {"name": "classtype-hashes-class-but-eq-admits-subclasses", "rule": "R12.2", "file": PYTD,
     "expect": "fire",
     "old": "    return self.__class__ == other.__class__ and self.name == other.name\n\n  def __ne__",
     "new": "    return isinstance(other, type(self)) and self.name == other.name\n\n  def __ne__"},
    # __eq__/__hash__ resolved through the local MRO
    {"name": "twin-benign-C17-r2-eq-hash-in-base", "rule": "R12.2",
     "patch": "benign/C17-r2/patch.diff", "expect": "silent"},
    {"name": "twin-subclass-restates-inherited-hash", "rule": "R12.2", "file": PYTD,
     "expect": "silent",
     "old": "class UnionType(_SetOfTypes):\n  \"\"\"A union type that contains all types in self.type_list.\"\"\"\n",
     "new": "class UnionType(_SetOfTypes):\n  \"\"\"A union type that contains all types in self.type_list.\"\"\"\n\n"
            "  def __hash__(self):\n    return hash(frozenset(self.type_list))\n"},
    {"name": "subclass-hash-ordered-against-inherited-eq", "rule": "R12.2", "file": PYTD,
     "expect": "fire",
     "old": "class UnionType(_SetOfTypes):\n  \"\"\"A union type that contains all types in self.type_list.\"\"\"\n",
     "new": "class UnionType(_SetOfTypes):\n  \"\"\"A union type that contains all types in self.type_list.\"\"\"\n\n"
            "  def __hash__(self):\n    return hash(self.type_list)\n"},
    {"name": "junction-base-hashes-uncompared-field", "rule": "R12.2", "expect": "fire",
     "edits": [
         (BOOLEQ, "class _And(BooleanTerm):",
          "class _Junction(BooleanTerm):\n"
          "  __slots__ = (\"exprs\", \"origin\")\n\n"
          "  def __eq__(self, other):\n"
          "    return self.__class__ == other.__class__ and self.exprs == other.exprs\n\n"
          "  def __hash__(self):\n"
          "    return hash((_expr_set_hash(self.exprs), self.origin))\n\n\n"
          "class _And(_Junction):"),
         (BOOLEQ, "  def __eq__(self, other):\n"
                  "    return self.__class__ == other.__class__ and self.exprs == other.exprs\n\n"
                  "  def __repr__(self):\n    return f\"And(",
          "  def __repr__(self):\n    return f\"And("),
         (BOOLEQ, "    return \"(\" + \" & \".join(str(t) for t in self.exprs) + \")\"\n\n"
                  "  def __hash__(self):\n    return _expr_set_hash(self.exprs)\n",
          "    return \"(\" + \" & \".join(str(t) for t in self.exprs) + \")\"\n")]},
    # -- R12.3 -----------------------------------------------------------------
    {"name": "twin-benign-C12-r2-step-functions", "rule": "R12.3",
     "patch": "benign/C12-r2/patch.diff", "expect": "silent"},
    {"name": "twin-benign-C06-r2-serialize-ast-restyled", "rule": "R12.3",
     "patch": "benign/C06-r2/patch.diff", "expect": "silent"},
    {"name": "twin-cleanup-in-a-helper", "rule": "R12.3", "expect": "silent",
     "edits": [
         (SERIALIZE, _CLEAN_TAIL, "  ast = _CleanForExport(ast)\n"),
         (SERIALIZE, _SER_DEF, _clean_helper(
             "  tree.Visit(visitors.ClearClassPointers())\n"
             "  tree = tree.Visit(visitors.CanonicalOrderingVisitor())\n"
             "  tree.Visit(ClearLookupCache())\n"
             "  return tree\n"))]},
    {"name": "twin-cleanup-helper-result-under-new-name", "rule": "R12.3", "expect": "silent",
     "edits": [
         (SERIALIZE, _CLEAN_TAIL, "  exported = _CleanForExport(ast)\n"),
         (SERIALIZE, "  return SerializableAst(\n      ast,\n", "  return SerializableAst(\n      exported,\n"),
         (SERIALIZE, _SER_DEF, _clean_helper(
             "  tree.Visit(visitors.ClearClassPointers())\n"
             "  result = tree.Visit(visitors.CanonicalOrderingVisitor())\n"
             "  result.Visit(ClearLookupCache())\n"
             "  return result\n"))]},
    {"name": "cleanup-helper-skips-ClearClassPointers", "rule": "R12.3", "expect": "fire",
     "edits": [
         (SERIALIZE, _CLEAN_TAIL, "  ast = _CleanForExport(ast)\n"),
         (SERIALIZE, _SER_DEF, _clean_helper(
             "  tree = tree.Visit(visitors.CanonicalOrderingVisitor())\n"
             "  tree.Visit(ClearLookupCache())\n"
             "  return tree\n"))]},
    {"name": "cleanup-helper-discards-canonical-result", "rule": "R12.3", "expect": "fire",
     "edits": [
         (SERIALIZE, _CLEAN_TAIL, "  ast = _CleanForExport(ast)\n"),
         (SERIALIZE, _SER_DEF, _clean_helper(
             "  tree.Visit(visitors.ClearClassPointers())\n"
             "  tree.Visit(visitors.CanonicalOrderingVisitor())\n"
             "  tree.Visit(ClearLookupCache())\n"
             "  return tree\n"))]},
    {"name": "cleanup-helper-clears-cache-of-the-unsorted-copy", "rule": "R12.3", "expect": "fire",
     "edits": [
         (SERIALIZE, _CLEAN_TAIL, "  ast = _CleanForExport(ast)\n"),
         (SERIALIZE, _SER_DEF, _clean_helper(
             "  tree.Visit(visitors.ClearClassPointers())\n"
             "  tree.Visit(ClearLookupCache())\n"
             "  return tree.Visit(visitors.CanonicalOrderingVisitor())\n"))]},
    {"name": "cleanup-helper-result-ignored", "rule": "R12.3", "expect": "fire",
     "edits": [
         (SERIALIZE, _CLEAN_TAIL, "  _CleanForExport(ast)\n"),
         (SERIALIZE, _SER_DEF, _clean_helper(
             "  tree.Visit(visitors.ClearClassPointers())\n"
             "  tree = tree.Visit(visitors.CanonicalOrderingVisitor())\n"
             "  tree.Visit(ClearLookupCache())\n"
             "  return tree\n"))]},
    {"name": "cleanup-helper-outside-the-inliner", "rule": "R12.3", "expect": "error",
     "edits": [
         (SERIALIZE, _CLEAN_TAIL, "  ast = _CleanForExport(ast)\n"),
         (SERIALIZE, _SER_DEF, _clean_helper(
             "  try:\n"
             "    tree.Visit(visitors.ClearClassPointers())\n"
             "    tree = tree.Visit(visitors.CanonicalOrderingVisitor())\n"
             "    tree.Visit(ClearLookupCache())\n"
             "    return tree\n"
             "  finally:\n"
             "    pass\n"))]},
    {"name": "skip-ClearClassPointers", "rule": "R12.3", "file": SERIALIZE, "expect": "fire",
     "old": "  ast.Visit(visitors.ClearClassPointers())\n  ast = ast.Visit(visitors.CanonicalOrderingVisitor())",
     "new": "  ast = ast.Visit(visitors.CanonicalOrderingVisitor())"},
    {"name": "skip-canonical-ordering-on-export", "rule": "R12.3", "file": SERIALIZE, "expect": "fire",
     "old": "  ast = ast.Visit(visitors.CanonicalOrderingVisitor())\n", "new": ""},
    {"name": "canonical-result-discarded", "rule": "R12.3", "file": SERIALIZE, "expect": "fire",
     "old": "  ast = ast.Visit(visitors.CanonicalOrderingVisitor())\n",
     "new": "  ast.Visit(visitors.CanonicalOrderingVisitor())\n"},
    {"name": "skip-ClearLookupCache", "rule": "R12.3", "file": SERIALIZE, "expect": "fire",
     "old": "  ast.Visit(ClearLookupCache())\n", "new": ""},
    {"name": "lookup-cache-cleared-too-early", "rule": "R12.3", "expect": "fire",
     "edits": [
         (SERIALIZE, "  ast.Visit(ClearLookupCache())\n", ""),
         (SERIALIZE, "  ast.Visit(visitors.ClearClassPointers())\n",
          "  ast.Visit(ClearLookupCache())\n  ast.Visit(visitors.ClearClassPointers())\n")]},
    {"name": "clear-pointers-only-for-init-modules", "rule": "R12.3", "file": SERIALIZE,
     "expect": "fire",
     "old": "  ast.Visit(visitors.ClearClassPointers())\n",
     "new": "  if src_path:\n    ast.Visit(visitors.ClearClassPointers())\n"},
    {"name": "class-cache-not-cleared", "rule": "R12.3", "file": SERIALIZE, "expect": "fire",
     "old": "  def LeaveClass(self, node):\n    node._name2item.clear()  # pylint: disable=protected-access\n\n",
     "new": ""},
    {"name": "clear-pointers-visitor-noop", "rule": "R12.3", "file": VISITORS, "expect": "fire",
     "old": "  def EnterClassType(self, node):\n    node.cls = None\n",
     "new": "  def EnterClassType(self, node):\n    del node\n"},
    {"name": "twin-cache-clearing-methods-in-a-mixin", "rule": "R12.3", "expect": "silent",
     "edits": [
         (SERIALIZE, "class ClearLookupCache(visitors.Visitor):",
          "class _CacheClearingMixin:\n\n"
          "  def LeaveClass(self, node):\n"
          "    node._name2item.clear()  # pylint: disable=protected-access\n\n\n"
          "class ClearLookupCache(_CacheClearingMixin, visitors.Visitor):"),
         (SERIALIZE, "  def LeaveClass(self, node):\n    node._name2item.clear()  # pylint: disable=protected-access\n\n"
                     "  def LeaveTypeDeclUnit", "  def LeaveTypeDeclUnit")]},
    {"name": "cache-clearing-mixin-behind-the-visitor-base", "rule": "R12.3", "expect": "error",
     "edits": [
         (SERIALIZE, "class ClearLookupCache(visitors.Visitor):",
          "class _CacheClearingMixin:\n\n"
          "  def LeaveClass(self, node):\n"
          "    node._name2item.clear()  # pylint: disable=protected-access\n\n\n"
          "class ClearLookupCache(visitors.Visitor, _CacheClearingMixin):"),
         (SERIALIZE, "  def LeaveClass(self, node):\n    node._name2item.clear()  # pylint: disable=protected-access\n\n"
                     "  def LeaveTypeDeclUnit", "  def LeaveTypeDeclUnit")]},
    {"name": "twin-cleaners-assign-their-result", "rule": "R12.3", "file": SERIALIZE, "expect": "silent",
     "old": "  ast.Visit(ClearLookupCache())\n", "new": "  ast = ast.Visit(ClearLookupCache())\n"},
    # (clearing the pointers AFTER the canonical ordering is not a twin: it is the
    # seeded defect C12-r3m1 and a must-fire variant of R12.7, rules/c12_sortkey.py)
    {"name": "unknown-visitor-after-canonical", "rule": "R12.3", "file": SERIALIZE, "expect": "error",
     "old": "  ast.Visit(ClearLookupCache())\n",
     "new": "  ast = ast.Visit(visitors.RemoveUnknownClasses())\n  ast.Visit(ClearLookupCache())\n"},
    # -- R12.4 -----------------------------------------------------------------
    {"name": "encoder-order-none", "rule": "R12.4", "file": PICKLE, "expect": "fire",
     "old": "Encoder = msgspec.msgpack.Encoder(order=\"deterministic\")",
     "new": "Encoder = msgspec.msgpack.Encoder(order=None)"},
    {"name": "gzip-live-mtime", "rule": "R12.4", "file": PICKLE, "expect": "fire",
     "old": "fileobj=fi, mtime=1.0)", "new": "fileobj=fi, mtime=None)"},
    {"name": "save-writes-fresh-encoding", "rule": "R12.4", "file": PICKLE, "expect": "fire",
     "old": "      fi.write(Encode(obj))", "new": "      fi.write(msgspec.msgpack.encode(obj))"},
    {"name": "serialize-skips-SerializeAst", "rule": "R12.4", "file": PICKLE, "expect": "fire",
     "old": "  out = serialize_ast.SerializeAst(ast, src_path, metadata)\n  return Encode(out)",
     "new": "  return Encode(ast)"},
    {"name": "dependencies-unsorted", "rule": "R12.4", "file": SERIALIZE, "expect": "fire",
     "old": "      sorted(dependencies.items()),", "new": "      list(dependencies.items()),"},
    {"name": "twin-benign-C12-r4-inlined-temporaries", "rule": "R12.4",
     "patch": "benign/C12-r4/patch.diff", "expect": "silent"},
    {"name": "twin-benign-C12-r2-sorted-in-helper", "rule": "R12.4",
     "patch": "benign/C12-r2/patch.diff", "expect": "silent"},
    {"name": "twin-serialize-temporary-inlined", "rule": "R12.4", "file": PICKLE,
     "expect": "silent",
     "old": "  out = serialize_ast.SerializeAst(ast, src_path, metadata)\n  return Encode(out)",
     "new": "  return Encode(serialize_ast.SerializeAst(ast, src_path, metadata))"},
    {"name": "serialize-inlined-but-encodes-the-raw-ast", "rule": "R12.4", "file": PICKLE,
     "expect": "fire",
     "old": "  out = serialize_ast.SerializeAst(ast, src_path, metadata)\n  return Encode(out)",
     "new": "  serialize_ast.SerializeAst(ast, src_path, metadata)\n  return Encode(ast)"},
    {"name": "serialize-and-save-rebinds-temporary", "rule": "R12.4", "file": PICKLE,
     "expect": "fire",
     "old": "  out = serialize_ast.SerializeAst(ast, src_path, metadata)\n  Save(out,",
     "new": "  out = serialize_ast.SerializeAst(ast, src_path, metadata)\n"
            "  if not metadata:\n    out = ast\n  Save(out,"},
    {"name": "twin-dependencies-sorted-when-collected", "rule": "R12.4", "expect": "silent",
     "edits": [
         (SERIALIZE, "  dependencies = deps.dependencies\n  late_dependencies = deps.late_dependencies\n",
          "  dependencies, late_dependencies = _SortedDeps(deps)\n"),
         (SERIALIZE, "      sorted(dependencies.items()),\n      sorted(late_dependencies.items()),\n",
          "      dependencies,\n      late_dependencies,\n"),
         (SERIALIZE, _SER_DEF,
          "def _SortedDeps(collector):\n"
          "  return (sorted(collector.dependencies.items()),\n"
          "          sorted(collector.late_dependencies.items()))\n\n\n" + _SER_DEF)]},
    {"name": "helper-sorts-only-the-early-dependencies", "rule": "R12.4", "expect": "fire",
     "edits": [
         (SERIALIZE, "  dependencies = deps.dependencies\n  late_dependencies = deps.late_dependencies\n",
          "  dependencies, late_dependencies = _SortedDeps(deps)\n"),
         (SERIALIZE, "      sorted(dependencies.items()),\n      sorted(late_dependencies.items()),\n",
          "      dependencies,\n      late_dependencies,\n"),
         (SERIALIZE, _SER_DEF,
          "def _SortedDeps(collector):\n"
          "  return (sorted(collector.dependencies.items()),\n"
          "          list(collector.late_dependencies.items()))\n\n\n" + _SER_DEF)]},
    {"name": "twin-benign-C04-r4-gzip-writer-helper", "rule": "R12.4",
     "patch": "benign/C04-r4/patch.diff", "expect": "silent"},
    {"name": "twin-benign-C06-r2-inlined-collector", "rule": "R12.4",
     "patch": "benign/C06-r2/patch.diff", "expect": "silent"},
    {"name": "twin-gzip-mtime-named-constant", "rule": "R12.4", "expect": "silent",
     "edits": [(PICKLE, "fileobj=fi, mtime=1.0)", "fileobj=fi, mtime=_GZIP_MTIME)"),
               (PICKLE, "def _Load(\n", "_GZIP_MTIME = 1.0\n\n\ndef _Load(\n")]},
    {"name": "gzip-mtime-named-constant-is-None", "rule": "R12.4", "expect": "fire",
     "edits": [(PICKLE, "fileobj=fi, mtime=1.0)", "fileobj=fi, mtime=_GZIP_MTIME)"),
               (PICKLE, "def _Load(\n", "_GZIP_MTIME = None\n\n\ndef _Load(\n")]},
    {"name": "gzip-mtime-named-constant-rebound", "rule": "R12.4", "expect": "error",
     "edits": [(PICKLE, "fileobj=fi, mtime=1.0)", "fileobj=fi, mtime=_GZIP_MTIME)"),
               (PICKLE, "def _Load(\n",
                "_GZIP_MTIME = 1.0\n_GZIP_MTIME = float(len(__name__))\n\n\ndef _Load(\n")]},
    {"name": "twin-gzip-writer-in-a-helper", "rule": "R12.4", "expect": "silent",
     "edits": [(PICKLE, "      with gzip.GzipFile(filename=\"\", mode=\"wb\", fileobj=fi, mtime=1.0) as zfi:",
                "      with _GzipWriter(fi) as zfi:"),
               (PICKLE, "def _Load(\n",
                "def _GzipWriter(fi):\n"
                "  return gzip.GzipFile(filename=\"\", mode=\"wb\", fileobj=fi, mtime=1.0)\n\n\n"
                "def _Load(\n")]},
    {"name": "gzip-writer-helper-keeps-file-name", "rule": "R12.4", "expect": "fire",
     "edits": [(PICKLE, "      with gzip.GzipFile(filename=\"\", mode=\"wb\", fileobj=fi, mtime=1.0) as zfi:",
                "      with _GzipWriter(fi) as zfi:"),
               (PICKLE, "def _Load(\n",
                "def _GzipWriter(fi):\n"
                "  return gzip.GzipFile(mode=\"wb\", fileobj=fi, mtime=1.0)\n\n\n"
                "def _Load(\n")]},
    {"name": "twin-encoder-order-sorted", "rule": "R12.4", "file": PICKLE, "expect": "silent",
     "old": "Encoder = msgspec.msgpack.Encoder(order=\"deterministic\")",
     "new": "Encoder = msgspec.msgpack.Encoder(order=\"sorted\")"},
    # -- R12.5 -----------------------------------------------------------------
    {"name": "ast-decoder-untyped", "rule": "R12.5", "file": PICKLE, "expect": "fire",
     "old": "AstDecoder = msgspec.msgpack.Decoder(type=serialize_ast.SerializableAst)",
     "new": "AstDecoder = msgspec.msgpack.Decoder()"},
    {"name": "builtins-decoder-wrong-type", "rule": "R12.5", "file": PICKLE, "expect": "fire",
     "old": "BuiltinsDecoder = msgspec.msgpack.Decoder(type=serialize_ast.ModuleBundle)",
     "new": "BuiltinsDecoder = msgspec.msgpack.Decoder(type=serialize_ast.SerializableAst)"},
    {"name": "load-builtins-with-ast-decoder", "rule": "R12.5", "file": PICKLE, "expect": "fire",
     "old": "  return _Load(BuiltinsDecoder, filename, compress, open_function)",
     "new": "  return _Load(AstDecoder, filename, compress, open_function)"},
    {"name": "msgspec-errors-escape", "rule": "R12.5", "file": PICKLE, "expect": "fire",
     "old": "      msgspec.DecodeError,\n      msgspec.ValidationError,\n  ) as e:",
     "new": "  ) as e:"},
    {"name": "decode-error-escapes", "rule": "R12.5", "file": PICKLE, "expect": "fire",
     "old": "      msgspec.DecodeError,\n      msgspec.ValidationError,\n  ) as e:",
     "new": "      msgspec.ValidationError,\n  ) as e:"},
    {"name": "twin-validation-implied-by-decode-error", "rule": "R12.5", "file": PICKLE,
     "expect": "silent",
     "old": "      msgspec.DecodeError,\n      msgspec.ValidationError,\n  ) as e:",
     "new": "      msgspec.DecodeError,\n  ) as e:"},
    {"name": "handler-swallows-instead-of-raising", "rule": "R12.5", "file": PICKLE,
     "expect": "fire",
     "old": "    raise LoadPickleError(filename) from e",
     "new": "    raise RuntimeError(filename) from e"},
    {"name": "oserror-escapes", "rule": "R12.5", "file": PICKLE, "expect": "fire",
     "old": "  except (\n      OSError,\n      gzip.BadGzipFile,", "new": "  except (\n      gzip.BadGzipFile,"},
    {"name": "decode-outside-try", "rule": "R12.5", "file": PICKLE, "expect": "fire",
     "old": "        data = fi.read()\n    return dec.decode(data)\n  except (",
     "new": "        data = fi.read()\n  except ("},
    {"name": "twin-badgzip-implied-by-oserror", "rule": "R12.5", "file": PICKLE, "expect": "silent",
     "old": "      OSError,\n      gzip.BadGzipFile,\n", "new": "      OSError,\n"},
    {"name": "twin-benign-C12-r4-loader-renamed", "rule": "R12.5",
     "patch": "benign/C12-r4/patch.diff", "expect": "silent"},
    {"name": "twin-loader-and-decoder-parameter-renamed", "rule": "R12.5", "expect": "silent",
     "edits": _LOAD_CALLS + [
         (PICKLE, "  return _Load(BuiltinsDecoder, filename, compress, open_function)",
          "  return _ReadAndDecode(BuiltinsDecoder, filename, compress, open_function)")]},
    {"name": "renamed-loader-given-the-wrong-decoder", "rule": "R12.5", "expect": "fire",
     "edits": _LOAD_CALLS + [
         (PICKLE, "  return _Load(BuiltinsDecoder, filename, compress, open_function)",
          "  return _ReadAndDecode(AstDecoder, filename, compress, open_function)")]},
    {"name": "renamed-loader-lets-msgspec-errors-escape", "rule": "R12.5", "expect": "fire",
     "edits": _LOAD_CALLS + [
         (PICKLE, "  return _Load(BuiltinsDecoder, filename, compress, open_function)",
          "  return _ReadAndDecode(BuiltinsDecoder, filename, compress, open_function)"),
         (PICKLE, "      msgspec.DecodeError,\n      msgspec.ValidationError,\n  ) as e:",
          "  ) as e:")]},
    {"name": "loaders-split-over-two-functions", "rule": "R12.5", "expect": "error",
     "edits": [
         (PICKLE, "  return _Load(BuiltinsDecoder, filename, compress, open_function)",
          "  return _LoadBundle(BuiltinsDecoder, filename, compress, open_function)"),
         (PICKLE, "def DecodeAst(data: bytes)",
          "def _LoadBundle(dec, filename, compress=False, open_function=open):\n"
          "  with open_function(filename, \"rb\") as fi:\n"
          "    return dec.decode(fi.read())\n\n\n"
          "def DecodeAst(data: bytes)")]},
    {"name": "twin-benign-C04-r4-read-helper", "rule": "R12.5",
     "patch": "benign/C04-r4/patch.diff", "expect": "silent"},
    {"name": "twin-decoder-type-positional", "rule": "R12.5", "file": PICKLE, "expect": "silent",
     "old": "AstDecoder = msgspec.msgpack.Decoder(type=serialize_ast.SerializableAst)",
     "new": "AstDecoder = msgspec.msgpack.Decoder(serialize_ast.SerializableAst)"},
    # -- R12.6 (the `twin-` variants also reject complex literals, the defect
    # the rule reports on the reference tree, so that they are silent there)
    {"name": "seeded-C12-r4m2", "rule": "R12.6", "patch": "seeded/C12-r4m2/patch.diff",
     "expect": "fire"},
    {"name": "literal-value-bool-replaced-by-float", "rule": "R12.6", "file": PYTD, "expect": "fire",
     "old": "  value: int | str | bool | TypeU | Constant\n",
     "new": "  value: int | str | float | TypeU | Constant\n"},
    {"name": "literal-value-declared-without-int", "rule": "R12.6", "file": PYTD, "expect": "fire",
     "old": "  value: int | str | bool | TypeU | Constant\n",
     "new": "  value: str | bool | TypeU | Constant\n"},
    {"name": "literal-value-scalars-behind-alias-without-bool", "rule": "R12.6", "file": PYTD, "expect": "fire",
     "old": "class Literal(Type, eq=False):\n  value: int | str | bool | TypeU | Constant\n",
     "new": "_LiteralScalar = Union[int, str]\n\n\nclass Literal(Type, eq=False):\n  value: _LiteralScalar | TypeU | Constant\n"},
    {"name": "twin-literal-value-members-reordered", "rule": "R12.6", "file": PYTD, "expect": "silent",
     "old": "  value: int | str | bool | TypeU | Constant\n",
     "new": "  value: bool | int | str | Constant | TypeU\n"},
    {"name": "twin-literal-value-typing-union", "rule": "R12.6", "file": PYTD, "expect": "silent",
     "old": "  value: int | str | bool | TypeU | Constant\n",
     "new": "  value: Union[int, str, bool, TypeU, Constant]\n"},
    {"name": "twin-literal-value-scalars-behind-alias", "rule": "R12.6", "file": PYTD, "expect": "silent",
     "old": "class Literal(Type, eq=False):\n  value: int | str | bool | TypeU | Constant\n",
     "new": "_LiteralScalar = Union[int, str, bool]\n\n\nclass Literal(Type, eq=False):\n  value: _LiteralScalar | TypeU | Constant\n"},
    {"name": "seeded-C12-m2", "rule": "R12.6", "patch": "seeded/C12-m2/patch.diff",
     "expect": "fire"},
    {"name": "output-stores-raw-str-or-bytes-literal", "rule": "R12.6",
     "file": "pytype/output.py", "expect": "fire",
     "old": "        value = repr(v.value.pyval)\n", "new": "        value = v.value.pyval\n"},
    {"name": "typeddict-total-literal-none", "rule": "R12.6", "file": "pytype/output.py",
     "expect": "fire",
     "old": 'keywords.append(("total", pytd.Literal(False)))',
     "new": 'keywords.append(("total", pytd.Literal(None)))'},
    {"name": "float-literals-let-through", "rule": "R12.6", "file": PYI_TYPES, "expect": "fire",
     "old": "    elif self.type in (\"float\", \"complex\"):\n",
     "new": "    elif self.type == \"complex\":\n"},
    {"name": "complex-literals-let-through", "rule": "R12.6", "file": PYI_TYPES, "expect": "fire",
     "old": "    elif self.type in (\"float\", \"complex\"):\n",
     "new": "    elif self.type == \"float\":\n"},
    {"name": "twin-float-and-complex-rejected-in-separate-arms", "rule": "R12.6", "file": PYI_TYPES,
     "expect": "silent", "old": _FLOAT_ARM,
     "new": "    elif self.type == \"float\":\n"
            "      raise ParseError(f\"Invalid type `float` in Literal[{self.value}].\")\n"
            "    elif self.type == \"complex\":\n"
            "      raise ParseError(f\"Invalid type `complex` in Literal[{self.value}].\")\n"},
    {"name": "twin-literal-built-per-arm", "rule": "R12.6", "file": PYI_TYPES, "expect": "silent",
     "old": "    if self.type in _STRING_TYPES:\n      val = self.repr_str()\n" + _FLOAT_ARM
            + "    else:\n      val = self.value\n    return pytd.Literal(val)\n",
     "new": "    if self.type in (\"int\", \"bool\"):\n      return pytd.Literal(self.value)\n"
            "    if self.type not in _STRING_TYPES:\n"
            "      raise ParseError(f\"Invalid type `{self.type}` in Literal[{self.value}].\")\n"
            "    quoted = self.repr_str()\n    return pytd.Literal(quoted)\n"},
    {"name": "twin-bytes-arm-split-off", "rule": "R12.6", "expect": "silent",
     "edits": [
         (PYI_TYPES, "    if self.type in _STRING_TYPES:\n      val = self.repr_str()\n",
          "    if self.type in (\"str\", \"unicode\"):\n      val = self.repr_str()\n"
          "    elif self.type == \"bytes\":\n      val = repr(self.value)\n"),
         (PYI_TYPES, _FLOAT_ARM,
          "    elif self.type == \"complex\" or self.type == \"float\":\n"
          "      raise ParseError(f\"Invalid type `{self.type}` in Literal[{self.value}].\")\n")]},
]

# dependency lists taken from the fields of a record returned by a helper
from rules import _record_fields as _RF   # noqa: E402
VARIANTS += _RF.deps_record_variants("R12.4")
