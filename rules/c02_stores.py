"""C02 extension: every store into the current frame's scope is checked against
(and recorded in) the frame's table of annotated locals.

R2.24  An annotated local is enforced by two cooperating steps of
       VirtualMachine._apply_annotation: the store that carries the annotation
       records it in `current_annotated_locals`, and every later store to the
       same name looks the type up there and checks the new value.  Both steps
       are keyed on the `annotations_dict` argument being that table.  The rule
       follows each handler of an opcode that stores into the frame's own
       scope - STORE_NAME, and the STORE_* members of CPython's `haslocal` /
       `hasfree` opcode classes (STORE_FAST, STORE_DEREF: a cell variable is a
       local that an inner function also reads) - through the VM's helper
       methods, propagating constant arguments (`local=True`) and folding
       conditional expressions on them, to the `_apply_annotation` calls it can
       reach, and requires: at least one is reached, and every one receives
       `self.current_annotated_locals` as the table and a true `check_types`.
       It also requires `_apply_annotation` to fall back to the table's
       recorded type when the store itself carries none.
"""
import ast
import opcode

from sa.core import rule, AnalysisError
from sa.pyindex import get_module, dotted, src, walk_no_nested

VM = "pytype/vm.py"
TABLE = "self.current_annotated_locals"
SINK = "_apply_annotation"


def local_store_ops():
  ops = {"STORE_NAME"}
  for name, num in opcode.opmap.items():
    if name.startswith("STORE_") and (num in opcode.haslocal or num in opcode.hasfree):
      ops.add(name)
  return sorted(ops)


def _ev(e, env):
  if isinstance(e, ast.Constant):
    return ("const", e.value)
  if isinstance(e, ast.Name):
    return env.get(e.id, ("expr", e.id))
  if dotted(e) == TABLE:
    return ("table",)
  if isinstance(e, ast.IfExp):
    t = _ev(e.test, env)
    if t[0] == "const":
      return _ev(e.body if t[1] else e.orelse, env)
    return ("either", (_ev(e.body, env), _ev(e.orelse, env)), src(e.test))
  if isinstance(e, ast.UnaryOp) and isinstance(e.op, ast.Not):
    t = _ev(e.operand, env)
    if t[0] == "const":
      return ("const", not t[1])
  if isinstance(e, ast.BoolOp):
    vals = [_ev(v, env) for v in e.values]
    decisive = isinstance(e.op, ast.Or)      # a true operand decides `or`, a false one `and`
    if any(v[0] == "const" and bool(v[1]) == decisive for v in vals):
      return ("const", decisive)
    rest = [v for v in vals if v[0] != "const"]
    if not rest:
      return ("const", not decisive)
    if len(rest) == 1 and len(vals) > 1:
      return ("expr", "<" + str(rest[0][1:])[:50] + ">")   # truth value of the rest
  return ("expr", src(e)[:60])


def _bind(fn, call, env):
  params = [a.arg for a in fn.args.args]
  if params and params[0] == "self":
    params = params[1:]
  out = {}
  defaults = fn.args.defaults
  for p, d in zip(params[len(params) - len(defaults):], defaults):
    out[p] = _ev(d, {})
  for a in fn.args.kwonlyargs:
    params.append(a.arg)
  for p, d in zip([a.arg for a in fn.args.kwonlyargs], fn.args.kw_defaults):
    if d is not None:
      out[p] = _ev(d, {})
  if any(isinstance(a, ast.Starred) for a in call.args) or \
      any(k.arg is None for k in call.keywords):
    raise AnalysisError(f"{fn.name}: called with */** arguments")
  for p, a in zip(params, call.args):
    out[p] = _ev(a, env)
  for k in call.keywords:
    out[k.arg] = _ev(k.value, env)
  return out


def _own_calls(stmt):
  """Calls evaluated by `stmt` itself (its header for compound statements)."""
  if isinstance(stmt, (ast.If, ast.While)):
    roots = [stmt.test]
  elif isinstance(stmt, (ast.For, ast.AsyncFor)):
    roots = [stmt.iter]
  elif isinstance(stmt, (ast.With, ast.AsyncWith)):
    roots = [i.context_expr for i in stmt.items]
  elif isinstance(stmt, ast.Try):
    roots = []
  elif isinstance(stmt, (ast.FunctionDef, ast.AsyncFunctionDef, ast.ClassDef)):
    roots = []
  else:
    roots = [stmt]
  out = []
  for r in roots:
    if isinstance(r, ast.Call):
      out.append(r)
    out.extend(n for n in walk_no_nested(r) if isinstance(n, ast.Call))
  return out


class _Reach:
  def __init__(self, methods):
    self.methods = methods
    self.hits = []        # (path, table value, check_types value, lineno)
    # methods from which the sink is reachable at all (by name)
    calls = {m: {dotted(c.func)[5:] for c in ast.walk(f) if isinstance(c, ast.Call)
                 and (dotted(c.func) or "").startswith("self.")
                 and (dotted(c.func) or "").count(".") == 1}
             for m, f in methods.items()}
    self.relevant = {SINK}
    changed = True
    while changed:
      changed = False
      for m, cs in calls.items():
        if m not in self.relevant and cs & self.relevant:
          self.relevant.add(m)
          changed = True

  def run(self, name, env, path=()):
    if len(path) > 8 or name in path:
      raise AnalysisError(f"store handler call chain too deep/recursive: {path}")
    self._block(self.methods[name].body, dict(env), path + (name,))

  def _block(self, stmts, env, path):
    for st in stmts:
      for c in _own_calls(st):
        self._call(c, env, path)
      if isinstance(st, ast.Assign):
        for t in st.targets:
          if isinstance(t, ast.Name):
            env[t.id] = _ev(st.value, env)
          else:
            for x in ast.walk(t):
              if isinstance(x, ast.Name):
                env[x.id] = ("expr", f"<unpacked {x.id}>")
      elif isinstance(st, ast.If):
        t = _ev(st.test, env)
        if t[0] == "const":
          self._block(st.body if t[1] else st.orelse, env, path)
        else:
          e1, e2 = dict(env), dict(env)
          self._block(st.body, e1, path)
          self._block(st.orelse, e2, path)
          for k in set(e1) | set(e2):
            if e1.get(k) == e2.get(k):
              env[k] = e1[k]
            else:
              env[k] = ("either", (e1.get(k), e2.get(k)), src(st.test))
      elif isinstance(st, (ast.For, ast.AsyncFor, ast.While)):
        self._block(st.body, env, path)
        self._block(st.orelse, env, path)
      elif isinstance(st, (ast.With, ast.AsyncWith)):
        self._block(st.body, env, path)
      elif isinstance(st, ast.Try):
        self._block(st.body, env, path)
        for h in st.handlers:
          self._block(h.body, env, path)
        self._block(st.orelse, env, path)
        self._block(st.finalbody, env, path)

  def _call(self, c, env, path):
    d = dotted(c.func) or ""
    if not d.startswith("self.") or d.count(".") != 1:
      return
    m = d[5:]
    if m not in self.methods or m not in self.relevant:
      return
    bound = _bind(self.methods[m], c, env)
    if m == SINK:
      self.hits.append((path, bound.get("annotations_dict", ("missing",)),
                        bound.get("check_types", ("missing",)), c.lineno))
    else:
      self.run(m, bound, path)


@rule("R2.24", "C02", floor=4)
def r2_24(ctx):
  """Local-store handlers hand the annotated-locals table to _apply_annotation."""
  mod = get_module(ctx, VM)
  methods = mod.methods("VirtualMachine")
  if SINK not in methods:
    raise AnalysisError(f"VirtualMachine.{SINK} not found")
  sink = methods[SINK]
  sink_params = [a.arg for a in sink.args.args]
  if "annotations_dict" not in sink_params or "check_types" not in sink_params:
    raise AnalysisError(f"{SINK}: parameters annotations_dict/check_types not found")
  for op in local_store_ops():
    h = f"byte_{op}"
    if h not in methods:
      if op in ("STORE_NAME", "STORE_FAST", "STORE_DEREF"):
        raise AnalysisError(f"VirtualMachine.{h} not found")
      continue
    r = _Reach(methods)
    r.run(h, {})
    facts = {"reaches": [{"via": list(p[1:]), "annotations_dict": list(map(str, t)),
                          "check_types": list(map(str, c))} for p, t, c, _ in r.hits]}
    if not r.hits:
      ctx.bad(f"{op}:annotated-locals-table", VM, methods[h].lineno,
              f"{h} stores into the frame's own scope but never reaches "
              f"{SINK}: an annotated variable stored by this opcode is not "
              "checked at all", facts)
      continue
    wrong = [(p, t, c, ln) for p, t, c, ln in r.hits
             if t != ("table",) or c != ("const", True)]
    ln = wrong[0][3] if wrong else methods[h].lineno
    ctx.check(not wrong, f"{op}:annotated-locals-table", VM, ln,
              f"{h} reaches {SINK} with annotations_dict="
              f"{wrong[0][1] if wrong else ''}, check_types={wrong[0][2] if wrong else ''} "
              f"(via {' -> '.join(wrong[0][0]) if wrong else ''}): a name in the "
              f"frame's own scope must be recorded in and looked up from "
              f"`{TABLE}`; with any other table (or None) only the store that "
              "carries the annotation on its own line is checked and later "
              "assignments of a non-conforming value are accepted", facts)
  # the table is consulted when the store itself has no annotation
  typ_arg = None
  for c in ast.walk(sink):
    if isinstance(c, ast.Call) and (dotted(c.func) or "").endswith(
        "check_annotation_type_mismatch") and len(c.args) >= 3:
      typ_arg = dotted(c.args[2])
  if typ_arg is None:
    raise AnalysisError(f"{SINK}: check_annotation_type_mismatch(.., typ, ..) not found")
  from sa import flow
  fallback = []
  for n in walk_no_nested(sink):
    if isinstance(n, ast.Assign) and any(dotted(t) == typ_arg for t in n.targets) and any(
        isinstance(x, ast.Subscript) and dotted(x.value) == "annotations_dict"
        for x in ast.walk(n.value)):
      g = flow.guards_txt(mod.parent, n, stop=sink)
      conj = set()
      for t, p in g:
        if p:
          e = ast.parse(t, mode="eval").body
          vals = e.values if isinstance(e, ast.BoolOp) and isinstance(e.op, ast.And) else [e]
          conj |= {src(v) for v in vals}
      fallback.append((n, sorted(conj), g))
  if not fallback:
    ctx.bad(f"{SINK}:falls-back-to-recorded-annotation", VM, sink.lineno,
            f"{SINK} never takes `{typ_arg}` from annotations_dict: a later "
            "store to an annotated name is not checked against the recorded type")
  else:
    n, conj, g = fallback[0]
    ok = "annotations_dict is not None" in conj and \
        all(c in (f"{typ_arg} is None", "annotations_dict is not None",
                  "name in annotations_dict") for c in conj)
    ctx.check(ok, f"{SINK}:falls-back-to-recorded-annotation", VM, n.lineno,
              f"the recorded annotation must be used exactly when the store "
              f"carries none (`{typ_arg} is None`) and the name is in the "
              f"table; the fallback is guarded by {conj}", {"guards": conj})


def _alternatives(v):
  if v[0] == "either":
    for x in v[1]:
      if x is not None:
        yield from _alternatives(x)
  else:
    yield v


@rule("R2.25", "C02", floor=1)
def r2_25(ctx):
  """A store through `global x` consults an annotation table, not None."""
  mod = get_module(ctx, VM)
  methods = mod.methods("VirtualMachine")
  h = "byte_STORE_GLOBAL"
  if h not in methods or SINK not in methods:
    raise AnalysisError(f"VirtualMachine.{h} / {SINK} not found")
  r = _Reach(methods)
  r.run(h, {})
  facts = {"reaches": [{"via": list(p[1:]), "annotations_dict": str(t)[:200],
                        "check_types": str(c)} for p, t, c, _ in r.hits]}
  if not r.hits:
    ctx.bad("STORE_GLOBAL:annotation-table", VM, methods[h].lineno,
            f"{h} never reaches {SINK}: a store to an annotated global is not checked", facts)
    return
  def is_table(a):
    return a == ("table",) or (a[0] == "expr" and "annotated_locals" in str(a[1]))

  for p, t, c, ln in r.hits:
    # names bound to an expression over self.annotated_locals
    table_vars = set()
    for m_ in p:
      for n_ in ast.walk(methods[m_]):
        if isinstance(n_, ast.Assign) and len(n_.targets) == 1 and isinstance(n_.targets[0], ast.Name) \
            and "annotated_locals" in src(n_.value):
          table_vars.add(n_.targets[0].id)

    asking = set(table_vars)      # locals computed from a table: tests on them ask the table
    for m_ in p:
      for n_ in ast.walk(methods[m_]):
        if isinstance(n_, ast.Assign) and len(n_.targets) == 1 and isinstance(n_.targets[0], ast.Name) \
            and any(isinstance(x, ast.Name) and x.id in table_vars for x in ast.walk(n_.value)):
          asking.add(n_.targets[0].id)

    def tabular(a):
      return a is not None and (is_table(a) or (a[0] == "expr" and a[1] in table_vars))

    def ok(v):
      """Every way of choosing the table ends in a table - except where the
      choice itself asked the table whether it knows the name."""
      if v is None:
        return False
      if v[0] == "either":
        asks_table = len(v) > 2 and any(tv in v[2] for tv in asking | {"annotated_locals"})
        kids = [ok(x) for x in v[1]]
        return any(kids) if asks_table else all(kids)
      return tabular(v)
    alts = list(_alternatives(t))
    unknown = [a for a in alts if a[0] == "expr" and not tabular(a)]
    if unknown:
      raise AnalysisError(f"{h}: annotations_dict={t} not understood")
    ctx.check(ok(t) and c == ("const", True), "STORE_GLOBAL:annotation-table", VM, ln,
              f"{h} reaches {SINK} with annotations_dict={t}, check_types={c} "
              f"(via {' -> '.join(p)}): with no table the store is only checked "
              "when its own line carries the annotation, so `x: int = 0` followed by "
              "`def f(): global x; x = 's'` is accepted (and the module-level "
              "annotated store of a name some function declares global - which "
              "CPython compiles to STORE_GLOBAL too - is not recorded: the emitted "
              "stub says `x: Union[int, str]`)", facts)


@rule("R2.26", "C02", floor=1)
def r2_26(ctx):
  """A store to a free variable (`nonlocal y`) consults the table of the frame that owns y."""
  mod = get_module(ctx, VM)
  methods = mod.methods("VirtualMachine")
  h = "byte_STORE_DEREF"
  if h not in methods or SINK not in methods:
    raise AnalysisError(f"VirtualMachine.{h} / {SINK} not found")
  if "STORE_DEREF" not in opcode.opmap or opcode.opmap["STORE_DEREF"] not in opcode.hasfree:
    raise AnalysisError("host CPython: STORE_DEREF is not a free-variable opcode")
  r = _Reach(methods)
  r.run(h, {})
  if not r.hits:
    raise AnalysisError(f"{h} never reaches {SINK} (R2.24 reports that)")
  owner_aware = False
  for p, t, c, ln in r.hits:
    for a in _alternatives(t):
      if a[0] == "expr" and ("annotated_locals" in str(a[1]) or "f_back" in str(a[1])
                             or "frames" in str(a[1])):
        owner_aware = True
  # or the handler distinguishes cell variables from free ones explicitly
  chain = {m for p, _, _, _ in r.hits for m in p}
  for m in chain:
    if any(isinstance(n, ast.Attribute) and n.attr in ("co_freevars", "co_cellvars")
           for n in ast.walk(methods[m])):
      owner_aware = True
  ctx.check(owner_aware, "STORE_DEREF:free-variable-owner-table", VM, r.hits[0][3],
            f"{h} hands {SINK} the *current* frame's table for every cell slot; "
            "STORE_DEREF also stores free variables (`nonlocal y`), whose "
            "annotation lives in the enclosing function's table: `def g(): y: int "
            "= 0; def h(): nonlocal y; y = 't'` is accepted and g is inferred to "
            "return str",
            {"reaches": [{"via": list(p[1:]), "annotations_dict": str(t)[:120]}
                         for p, t, c, _ in r.hits]})


_DEREF_OLD = ("    value = self._apply_annotation(\n        state, op, name, value, "
              "self.current_annotated_locals, check_types=True\n    )\n"
              "    state = state.forward_cfg_node(f\"StoreDeref:{name}\")")

VARIANTS = [
    {"name": "revert-D61-global-store-without-a-table", "rule": "R2.25", "file": VM, "expect": "fire",
     "old": ("      module_locals = self.annotated_locals.get(\"<module>\")\n"
             "      if module_locals and name in module_locals and module_locals[name].typ:\n"
             "        annotations_dict = module_locals\n"
             "      else:\n"
             "        annotations_dict = None\n"),
     "new": "      annotations_dict = None\n"},
    {"name": "global-store-not-type-checked", "rule": "R2.25", "file": VM, "expect": "fire",
     "old": ("    value = self._apply_annotation(\n"
             "        state, op, name, orig_val, annotations_dict, check_types=True\n"
             "    )\n    value = self._process_annotations(state.node, name, value)"),
     "new": ("    value = self._apply_annotation(\n"
             "        state, op, name, orig_val, annotations_dict, check_types=local\n"
             "    )\n    value = self._process_annotations(state.node, name, value)")},
    {"name": "twin-global-table-as-conditional-expression", "rule": "R2.25", "file": VM,
     "expect": "silent",
     "old": ("      if module_locals and name in module_locals and module_locals[name].typ:\n"
             "        annotations_dict = module_locals\n"
             "      else:\n"
             "        annotations_dict = None\n"),
     "new": ("      known = module_locals and name in module_locals and module_locals[name].typ\n"
             "      annotations_dict = module_locals if known else None\n")},
    {"name": "seeded-C02-r2m2", "rule": "R2.24", "patch": "seeded/C02-r2m2/patch.diff",
     "expect": "fire"},
    {"name": "store-name-as-global", "rule": "R2.24", "file": VM, "expect": "fire",
     "old": "  def byte_STORE_NAME(self, state, op):\n    name = op.argval\n    return self._pop_and_store(state, op, name, local=True)",
     "new": "  def byte_STORE_NAME(self, state, op):\n    name = op.argval\n    return self._pop_and_store(state, op, name, local=False)"},
    {"name": "store-deref-unchecked", "rule": "R2.24", "file": VM, "expect": "fire",
     "old": _DEREF_OLD,
     "new": _DEREF_OLD.replace("check_types=True", "check_types=False")},
    {"name": "store-fast-bypasses-annotations", "rule": "R2.24", "file": VM, "expect": "fire",
     "old": "      return self._del_name(op, state.pop_and_discard(), name, local=True)\n    else:\n      return self._pop_and_store(state, op, name, local=True)",
     "new": "      return self._del_name(op, state.pop_and_discard(), name, local=True)\n    else:\n      state, value = state.pop()\n      return self._store_value(state, name, value, local=True)"},
    {"name": "helper-table-choice-inverted", "rule": "R2.24", "file": VM, "expect": "fire",
     "old": "    if local or self.frame.f_globals is self.frame.f_locals:\n",
     "new": "    if not local and self.frame.f_globals is not self.frame.f_locals:\n"},
    {"name": "fallback-to-recorded-type-dropped", "rule": "R2.24", "file": VM, "expect": "fire",
     "old": "        typ = annotations_dict[name].get_type(state.node, name)\n",
     "new": "        typ = None\n"},
    {"name": "twin-store-deref-through-helper-local-true", "rule": "R2.24", "file": VM, "expect": "silent",
     "old": _DEREF_OLD,
     "new": ("    table = self.current_annotated_locals\n    value = self._apply_annotation(\n"
             "        state, op, name, value, annotations_dict=table, check_types=True\n    )\n"
             "    state = state.forward_cfg_node(f\"StoreDeref:{name}\")")},
    {"name": "twin-helper-table-choice-as-statement", "rule": "R2.24", "file": VM, "expect": "silent",
     "old": "    if local or self.frame.f_globals is self.frame.f_locals:\n",
     "new": "    if local:\n      annotations_dict = self.current_annotated_locals\n    elif self.frame.f_globals is self.frame.f_locals:\n"},
    {"name": "twin-store-fast-positional-local", "rule": "R2.24", "file": VM, "expect": "silent",
     "old": "      return self._del_name(op, state.pop_and_discard(), name, local=True)\n    else:\n      return self._pop_and_store(state, op, name, local=True)",
     "new": "      return self._del_name(op, state.pop_and_discard(), name, local=True)\n    is_local = True\n    return self._pop_and_store(state, op, name, is_local)"},
]
