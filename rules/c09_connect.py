"""C09 extension (R9.4): an edge request is dropped only when that very edge is stored.

`is_reachable` can only equal path existence over the edges the caller
*issued* if every issued edge a->b reaches ReachabilityAnalyzer::add_connection
- except when it provably changes nothing: a == b (every node reaches
itself) or a->b is already stored.  R9.2 shows that a stored edge is
registered; this rule looks at the other side: every way of leaving a function
that registers edges WITHOUT having registered this one must be guarded by

  * the self-edge test `this == node`, or
  * a membership test of exactly this edge: `node` found in `this->outgoing_`
    or `this` found in `node->incoming_`.

A test of the reverse edge (`node` in `this->incoming_`, `this` in
`node->outgoing_`), of another container, or an exit under an unrelated
condition (a size comparison, a counter) drops an edge the closure needs.

The function body is executed symbolically over its statement structure
(if / else with `&&`, `||`, `!` split into path alternatives, range-for binding
its variable to "an element of C", break / continue / return); the facts known
on a path are the branch conditions taken.  Membership is recognised as
`elem == x` inside `for (elem : C)`, `std::find(C.begin(), C.end(), x) !=
C.end()`, `std::count(C.begin(), C.end(), x) > 0`, or a call of a predicate
helper of the class (followed: every non-false return of the helper must
itself be such a test, with `this` and the parameters substituted); const
getters `outgoing()` / `incoming()` designate the field, once-bound locals
their initialiser.  A path whose facts contain a mutable flag or an
unresolvable call is an ANALYSIS-ERROR, not a pass and not a finding.
"""
from sa.core import rule, AnalysisError
from sa import cxx
from sa.cxx import term, uncast, inner, strip
from rules import _cxxutil_c07c08 as U

TGF = ("pytype/typegraph/typegraph.cc", "pytype/typegraph/typegraph.h")
ADD_CONN = "ReachabilityAnalyzer::add_connection"
OUT, INC = "CFGNode::outgoing_", "CFGNode::incoming_"


def _line(n):
  return ((n.get("range") or {}).get("begin") or {}).get("line") or 0


_subst, _norm, _split, _Paths = U.subst, U.norm, U.split, U.Paths


class _Edge:
  """The edge a function registers, and what justifies not registering it."""

  def __init__(self, ix):
    self.ix = ix
    self._always = {}

  # -- which calls register the edge ------------------------------------------
  def closes(self, ev):
    if ev.what.split("(")[0] == ADD_CONN:
      return True
    fn = ev.fn
    if fn is None or fn.file not in TGF or fn.body is None:
      return False
    return self.always_closes(fn)

  def always_closes(self, fn):
    if fn.key in self._always:
      return self._always[fn.key]
    self._always[fn.key] = False      # recursion: pessimistic
    if not any(n.get("kind") == "CXXMemberCallExpr" and
               (self.ix.callee(n)[0] or "").split("(")[0] == ADD_CONN
               for n in cxx.walk(fn.body)) and not self._calls_local(fn):
      return False
    try:
      p = _Paths(self.ix, fn, self.closes)
    except AnalysisError:
      return False
    res = bool(p.exits) and all(closed for _, _, _, closed, _ in p.exits)
    self._always[fn.key] = res
    return res

  def _calls_local(self, fn):
    for n in cxx.walk(fn.body):
      if n.get("kind") in ("CXXMemberCallExpr", "CallExpr"):
        f = self.ix.callee(n)[1]
        if f is not None and f.file in TGF and f.body is not None and f.key != fn.key:
          return True
    return False

  # -- the edge (a, b): b is appended to a->outgoing_ / a to b->incoming_ ----------
  def endpoints(self, fn, mapping=None, depth=0):
    mapping = mapping or {}
    found = set()
    for n in cxx.walk(fn.body):
      if n.get("kind") != "CXXMemberCallExpr":
        continue
      key, callee, nm, obj = self.ix.callee(n)
      if nm in ("push_back", "emplace_back") and callee is None and len(inner(n)) == 2:
        c = _norm(self.ix, _subst(term(self.ix, obj), mapping))
        x = _norm(self.ix, _subst(term(self.ix, inner(n)[1]), mapping))
        if isinstance(c, tuple) and c[0] == "field" and c[1] == OUT:
          found.add((c[2], x))
        elif isinstance(c, tuple) and c[0] == "field" and c[1] == INC:
          found.add((x, c[2]))
      elif callee is not None and callee.file in TGF and callee.body is not None and \
          depth < 2 and callee.key != fn.key:
        o = strip(obj) if obj is not None else None
        m = {"this": _norm(self.ix, _subst(term(self.ix, obj), mapping))
             if o is not None and o.get("kind") != "CXXThisExpr" else mapping.get("this", ("this",))}
        for p, a in zip(callee.params, inner(n)[1:]):
          m[p["id"]] = _norm(self.ix, _subst(term(self.ix, a), mapping))
        found |= self.endpoints(callee, m, depth + 1)
    return found


def _membership(ix, paths, fact):
  """(container term, element term) when the fact says `element in container`."""
  t, pol = fact
  if not isinstance(t, tuple) or not t:
    return None
  if t[0] == "==" and len(t) == 3 and pol:
    for a, b in ((t[1], t[2]), (t[2], t[1])):
      if isinstance(a, tuple) and a[0] == "var" and a[2] in paths.elems:
        return paths.elems[a[2]], b
    return None

  def find_call(x):
    """std::find(C.begin(), C.end(), v) -> (C, v)"""
    if isinstance(x, tuple) and x[0] == "call" and str(x[1]).endswith("::find") and len(x) == 5:
      b, e, v = x[2], x[3], x[4]
      if isinstance(b, tuple) and b[:2] in (("mcall", "begin"), ("mcall", "cbegin")) and \
          isinstance(e, tuple) and e[:2] in (("mcall", "end"), ("mcall", "cend")) and b[2] == e[2]:
        return b[2], v
    return None

  if t[0] == "opcall" and t[1] == "operator==" and len(t) == 4 and not pol:
    for a, b in ((t[2], t[3]), (t[3], t[2])):
      fc = find_call(a)
      if fc and isinstance(b, tuple) and b[:2] in (("mcall", "end"), ("mcall", "cend")) \
          and b[2] == fc[0]:
        return fc
    return None
  # std::count(C.begin(), C.end(), v) > 0 / != 0 / as a condition
  c = t
  if t[0] in (">", "==") and len(t) == 3 and isinstance(t[2], tuple) and t[2][:2] == ("int", 0):
    if (t[0] == ">" and pol) or (t[0] == "==" and not pol):
      c = t[1]
    else:
      return None
  elif not pol:
    return None
  if isinstance(c, tuple) and c[0] == "call" and str(c[1]).endswith("::count") and len(c) == 5:
    b, e, v = c[2], c[3], c[4]
    if isinstance(b, tuple) and b[:2] == ("mcall", "begin") and isinstance(e, tuple) \
        and e[:2] == ("mcall", "end") and b[2] == e[2]:
      return b[2], v
  return None


def _justified(ix, edge, paths, fact, ab, depth=0):
  """Why the fact makes registering edge a->b unnecessary, else None."""
  a, b = ab
  t, pol = fact
  if isinstance(t, tuple) and t and t[0] == "==" and len(t) == 3 and pol and \
      {t[1], t[2]} == {a, b}:
    return "self-edge"
  m = _membership(ix, paths, fact)
  if m is not None:
    c, x = m
    if c == ("field", OUT, a) and x == b:
      return "b in a->outgoing_"
    if c == ("field", INC, b) and x == a:
      return "a in b->incoming_"
    return None
  # a predicate helper of the typegraph: every non-false answer must be justified
  if pol and isinstance(t, tuple) and t and t[0] in ("mcall", "call") and depth < 2:
    h = ix.by_key.get(t[1]) if isinstance(t[1], str) else None
    if h is not None and h.body is not None and h.file in TGF and h.sig.startswith("bool"):
      args = t[3:] if t[0] == "mcall" else t[2:]
      if len(args) != len(h.params):
        return None
      mapping = {p["id"]: x for p, x in zip(h.params, args)}
      if t[0] == "mcall":
        mapping["this"] = t[2]
      hp = _Paths(ix, h, lambda ev: False, mapping)
      if {p["id"] for p in h.params} & hp.written:
        return None
      why = []
      for kind, node, facts, _, val in hp.exits:
        if kind != "return" or val is None:
          return None
        if val == ("bool", False):
          continue
        alts = [[]] if val == ("bool", True) else _split(val, True)
        for alt in alts:
          fs = list(facts) + alt
          w = [_justified(ix, edge, hp, f, ab, depth + 1) for f in fs]
          w = [x for x in w if x]
          if not w:
            return None
          why.append(w[0])
      if why:
        return f"{h.name}: " + ", ".join(sorted(set(why)))
  return None


_show, _opaque = U.show, U.opaque_fact


@rule("R9.4", "C09", floor=2)
def r9_4(ctx):
  """Every exit that skips add_connection is guarded by a test of exactly this edge."""
  ix = cxx.get_index(ctx)
  edge = _Edge(ix)
  hosts = []
  for fn in sorted(ix.by_key.values(), key=lambda f: f.key):
    if fn.body is None or fn.file not in TGF or \
        fn.kind in ("CXXConstructorDecl", "CXXDestructorDecl"):
      continue
    evs = cxx.events(ix, fn.body, {})
    if any(ev.kind == "call" and edge.closes(ev) for ev in evs):
      hosts.append(fn)
  if not hosts:
    raise AnalysisError("no typegraph function registers an edge with "
                        "ReachabilityAnalyzer::add_connection")
  for fn in hosts:
    paths = _Paths(ix, fn, edge.closes)
    open_exits = [e for e in paths.exits if not e[3]]
    if not open_exits:
      ctx.ok(f"{fn.qual}:registers-on-every-path", fn.file, fn.line, {"exits": len(paths.exits)})
      continue
    if {p["id"] for p in fn.params} & paths.written:
      raise AnalysisError(f"{fn.qual}: a parameter is reassigned; the edge's "
                          "endpoints cannot be read off the parameters")
    eps = edge.endpoints(fn)
    if len(eps) != 1:
      raise AnalysisError(f"{fn.qual}: the stored edge is not understood: "
                          f"{sorted(_show(a) + ' -> ' + _show(b) for a, b in eps)}")
    ab = next(iter(eps))
    seen = {}
    for kind, node, facts, _, _ in open_exits:
      why = [w for w in (_justified(ix, edge, paths, f, ab) for f in facts) if w]
      line = _line(node) if kind == "return" else fn.line
      name = f"{fn.qual}:skip@{kind}#{len([k for k in seen if k[0] == kind])}" \
          if (kind, id(node)) not in seen else seen[(kind, id(node))]
      seen.setdefault((kind, id(node)), name)
      if why:
        ctx.ok(name, fn.file, line, {"justified_by": why[0], "edge": f"{_show(ab[0])} -> {_show(ab[1])}"})
        continue
      op = [o for o in (_opaque(paths, f) for f in facts) if o]
      if op:
        raise AnalysisError(
            f"{fn.qual}: the exit at line {line} skips add_connection under a "
            f"condition that is not understood ({op[0]})")
      shown = U.show_facts(facts, paths.elems)
      ctx.bad(name, fn.file, line,
              f"{fn.qual} can leave at line {line} without calling add_connection, "
              f"and nothing on that path shows that the edge {_show(ab[0])} -> {_show(ab[1])} is "
              "already stored (node in this->outgoing_ / this in node->incoming_) "
              f"or a self-edge; path facts: {shown[:6]}",
              {"facts": shown[:6], "edge": f"{_show(ab[0])} -> {_show(ab[1])}"})


def _tg(n):
  return f"pytype/typegraph/{n}"


_SCAN = ("  for (CFGNode* n : outgoing_) {\n"
         "    if (n == node) {\n"
         "      return;  // already connected\n"
         "    }\n"
         "  }\n")


def _scan(container, needle, var="n"):
  return (f"  for (CFGNode* {var} : {container}) {{\n"
          f"    if ({var} == {needle}) {{\n"
          "      return;  // already connected\n"
          "    }\n"
          "  }\n")


VARIANTS = [
    {"name": "seeded-C09-r3m2", "rule": "R9.4", "patch": "seeded/C09-r3m2/patch.diff", "expect": "fire"},
    {"name": "dedup-scans-own-incoming", "rule": "R9.4", "file": _tg("typegraph.cc"), "expect": "fire",
     "old": _SCAN, "new": _scan("incoming_", "node")},
    {"name": "dedup-scans-successors-outgoing-for-this", "rule": "R9.4", "file": _tg("typegraph.cc"),
     "expect": "fire", "old": _SCAN, "new": _scan("node->outgoing_", "this")},
    {"name": "dedup-find-in-successors-incoming-for-successor", "rule": "R9.4", "file": _tg("typegraph.cc"),
     "expect": "fire", "old": _SCAN,
     "new": "  if (std::find(node->incoming_.begin(), node->incoming_.end(), node) !=\n"
            "      node->incoming_.end()) {\n    return;\n  }\n"},
    {"name": "early-exit-on-fanout-limit", "rule": "R9.4", "file": _tg("typegraph.cc"), "expect": "fire",
     "old": _SCAN, "new": _SCAN + "  if (outgoing_.size() >= 64) {\n    return;  // too many successors\n  }\n"},
    {"name": "dedup-any-neighbour", "rule": "R9.4", "file": _tg("typegraph.cc"), "expect": "fire",
     "old": _SCAN,
     "new": "  for (CFGNode* n : outgoing_) {\n    if (n == node || n->id() > node->id()) {\n"
            "      return;\n    }\n  }\n"},
    {"name": "twin-dedup-std-find", "rule": "R9.4", "file": _tg("typegraph.cc"), "expect": "silent",
     "old": _SCAN,
     "new": "  if (std::find(outgoing_.begin(), outgoing_.end(), node) != outgoing_.end()) {\n"
            "    return;  // already connected\n  }\n"},
    {"name": "twin-dedup-scans-successors-incoming-for-this", "rule": "R9.4", "file": _tg("typegraph.cc"),
     "expect": "silent", "old": _SCAN, "new": _scan("node->incoming_", "this", var="pred")},
    {"name": "twin-dedup-shorter-list-correct", "rule": "R9.4", "file": _tg("typegraph.cc"),
     "expect": "silent", "old": _SCAN,
     "new": "  if (outgoing_.size() <= node->incoming_.size()) {\n"
            "    for (CFGNode* n : outgoing_) {\n      if (n == node) {\n        return;\n      }\n    }\n"
            "  } else {\n"
            "    for (CFGNode* n : node->incoming()) {\n      if (n == this) {\n        return;\n      }\n    }\n"
            "  }\n"},
    {"name": "twin-dedup-flag-hoisted-and-operands-swapped", "rule": "R9.4", "file": _tg("typegraph.cc"),
     "expect": "silent", "old": _SCAN,
     "new": "  const bool already_connected =\n"
            "      std::find(outgoing().begin(), outgoing().end(), node) != outgoing().end();\n"
            "  if (already_connected || node == this) {\n    return;\n  }\n"},
    {"name": "twin-benign-C09-r3-helper-predicate", "rule": "R9.4", "patch": "benign/C09-r3/patch.diff",
     "expect": "silent"},
    {"name": "twin-benign-C08-r3-std-find", "rule": "R9.4", "patch": "benign/C08-r3/patch.diff",
     "expect": "silent"},
    {"name": "twin-edge-stored-in-wrapping-if", "rule": "R9.4", "expect": "silent",
     "edits": [(_tg("typegraph.cc"), _SCAN,
                "  if (std::find(outgoing_.begin(), outgoing_.end(), node) == outgoing_.end()) {\n"),
               (_tg("typegraph.cc"),
                "  this->backward_reachability_->add_connection(node->id(), this->id());\n",
                "  this->backward_reachability_->add_connection(node->id(), this->id());\n  }\n")]},
    {"name": "helper-predicate-tests-reverse-edge", "rule": "R9.4", "expect": "fire",
     "edits": [(_tg("typegraph.h"), "  void ConnectTo(CFGNode* node);",
                "  void ConnectTo(CFGNode* node);\n  bool HasEdgeTo(const CFGNode* other) const;"),
               (_tg("typegraph.cc"), "void CFGNode::ConnectTo(CFGNode* node) {",
                "bool CFGNode::HasEdgeTo(const CFGNode* other) const {\n"
                "  for (const CFGNode* n : incoming_) {\n    if (n == other) return true;\n  }\n"
                "  return false;\n}\n\nvoid CFGNode::ConnectTo(CFGNode* node) {"),
               (_tg("typegraph.cc"), _SCAN, "  if (HasEdgeTo(node)) {\n    return;\n  }\n")]},
    {"name": "twin-helper-predicate-called-on-successor", "rule": "R9.4", "expect": "silent",
     "edits": [(_tg("typegraph.h"), "  void ConnectTo(CFGNode* node);",
                "  void ConnectTo(CFGNode* node);\n  bool HasEdgeFrom(const CFGNode* other) const;"),
               (_tg("typegraph.cc"), "void CFGNode::ConnectTo(CFGNode* node) {",
                "bool CFGNode::HasEdgeFrom(const CFGNode* other) const {\n"
                "  for (const CFGNode* n : incoming_) {\n    if (n == other) return true;\n  }\n"
                "  return false;\n}\n\nvoid CFGNode::ConnectTo(CFGNode* node) {"),
               (_tg("typegraph.cc"), _SCAN, "  if (node->HasEdgeFrom(this)) {\n    return;\n  }\n")]},
    {"name": "dedup-through-mutable-flag", "rule": "R9.4", "file": _tg("typegraph.cc"), "expect": "error",
     "old": _SCAN,
     "new": "  bool found = false;\n  for (CFGNode* n : outgoing_) {\n    if (n == node) {\n"
            "      found = true;\n    }\n  }\n  if (found) {\n    return;\n  }\n"},
]
