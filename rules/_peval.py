"""Three-valued evaluator for small pure predicates found in /repo sources.

Nothing from /repo is imported or executed: expressions are interpreted over
their `ast`.  Used by rules that must know the *value* of a predicate such as
`_computable(name)` for concrete arguments, where the predicate may consult
tables defined elsewhere (`slots.SYMBOL_MAPPING`, built by a comprehension over
`slots.SLOTS`).

Values are ordinary Python values, `Obj` (an instance of a dataclass defined in
the analysed source) or `UNK` (depends on run-time state the analysis does not
model).  `and`/`or`/`not`/`if-else` propagate UNK in the Kleene way.  Any other
operation that mixes a *known* operand with UNK, or that is not modelled and
has a known operand, raises `NotUnderstood` (the caller turns it into an
AnalysisError): the analysis never guesses the value of something that depends
on the inputs it was asked about.
"""
from __future__ import annotations

import ast

from sa.pyindex import get_module, dotted, src


class EvalError(Exception):
  pass


class NotUnderstood(EvalError):
  """A value that depends on the known inputs cannot be determined."""


class NotModelled(EvalError):
  """A construct outside the evaluator.  Inside a *pure* function this is as
  bad as NotUnderstood; inside a method that reads object state the result is
  run-time dependent anyway and becomes UNK."""


class _Unk:
  def __repr__(self):
    return "UNK"


UNK = _Unk()


class Obj:
  """Instance of a (data)class of the analysed source: plain attribute bag."""

  def __init__(self, cls, fields, mod=None):
    self.cls = cls
    self.fields = fields
    self.mod = mod      # PyModule defining the class (for @property lookup)

  def __repr__(self):
    return f"{self.cls}({self.fields})"


_STR_METHODS = {"startswith", "endswith", "isupper", "islower", "strip", "lstrip",
                "rstrip", "removeprefix", "removesuffix", "lower", "upper",
                "isidentifier", "isdigit", "replace", "split", "partition"}
_DICT_METHODS = {"get", "keys", "values", "items"}
_SET_METHODS = {"union", "intersection", "difference", "issubset", "issuperset"}
_BUILTINS = {"len": len, "frozenset": frozenset, "set": set, "tuple": tuple,
             "list": list, "dict": dict, "sorted": sorted, "bool": bool,
             "any": any, "all": all, "str": str, "min": min, "max": max}
_CMP = {ast.Eq: lambda a, b: a == b, ast.NotEq: lambda a, b: a != b,
        ast.In: lambda a, b: a in b, ast.NotIn: lambda a, b: a not in b,
        ast.Is: lambda a, b: a is b, ast.IsNot: lambda a, b: a is not b,
        ast.Lt: lambda a, b: a < b, ast.LtE: lambda a, b: a <= b,
        ast.Gt: lambda a, b: a > b, ast.GtE: lambda a, b: a >= b}


_BIN = {ast.Add: lambda a, b: a + b, ast.Sub: lambda a, b: a - b,
        ast.BitOr: lambda a, b: a | b, ast.BitAnd: lambda a, b: a & b,
        ast.Mult: lambda a, b: a * b, ast.Mod: lambda a, b: a % b}


def _known(v):
  return v is not UNK


class Evaluator:
  """Evaluates expressions of module `rel` (and of modules it imports)."""

  def __init__(self, ctx, package_root="pytype"):
    self.ctx = ctx
    self._globals = {}     # (rel, name) -> value
    self._busy = set()
    self.depth = 0
    self.impure_depth = 0

  # -- module-level names ------------------------------------------------------
  def _module_of_alias(self, mod, alias):
    target = mod.imports.get(alias)
    if not target or target.startswith("."):
      return None
    rel = target.replace(".", "/") + ".py"
    if self.ctx.exists(rel):
      return rel
    return None

  def global_value(self, rel, name):
    key = (rel, name)
    if key in self._globals:
      return self._globals[key]
    if key in self._busy:
      raise NotUnderstood(f"recursive definition of {rel}:{name}")
    mod = get_module(self.ctx, rel)
    if name in mod.assigns:
      self._busy.add(key)
      try:
        v = self.eval(mod.assigns[name], {}, mod, None)
      finally:
        self._busy.discard(key)
      self._globals[key] = v
      return v
    return UNK

  # -- expressions -----------------------------------------------------------------
  def _fail(self, node, env, why, strong=False):
    """Not modelled: UNK if no known local feeds it, else an EvalError."""
    for n in ast.walk(node):
      if isinstance(n, ast.Name) and n.id in env and _known(env[n.id]):
        raise (NotUnderstood if strong else NotModelled)(
            f"{why}: `{src(node)[:80]}` depends on `{n.id}`")
    return UNK

  def eval(self, node, env, mod, cls):
    self.depth += 1
    try:
      if self.depth > 60:
        raise NotModelled("evaluation too deep")
      return self._eval(node, env, mod, cls)
    finally:
      self.depth -= 1

  def _eval(self, node, env, mod, cls):
    ev = lambda n, e=None: self.eval(n, env if e is None else e, mod, cls)
    if isinstance(node, ast.Constant):
      return node.value
    if isinstance(node, ast.Name):
      if node.id in env:
        return env[node.id]
      if node.id in mod.assigns:
        return self.global_value(mod.rel, node.id)
      return UNK
    if isinstance(node, (ast.Tuple, ast.List, ast.Set)):
      vals = [ev(e) for e in node.elts]
      if any(isinstance(e, ast.Starred) for e in node.elts):
        return self._fail(node, env, "starred display")
      if not all(_known(v) for v in vals):
        return self._mixed(node, env, vals)
      try:
        return {ast.Tuple: tuple, ast.List: list, ast.Set: set}[type(node)](vals)
      except TypeError as e:
        raise NotUnderstood(str(e)) from e
    if isinstance(node, ast.Dict):
      if any(k is None for k in node.keys):
        return self._fail(node, env, "dict unpacking")
      ks = [ev(k) for k in node.keys]
      vs = [ev(v) for v in node.values]
      if not all(_known(k) for k in ks):
        return self._mixed(node, env, ks)
      return dict(zip(ks, vs))
    if isinstance(node, ast.BoolOp):
      is_and = isinstance(node.op, ast.And)
      unk = False
      last = None
      for v in node.values:
        x = ev(v)
        if x is UNK:
          unk = True
          continue
        last = x
        if bool(x) != is_and:
          # a known falsy operand of `and` (truthy operand of `or`) decides the
          # truth value whatever the unknown operands before it are
          return x if not unk else (not is_and)
      return UNK if unk else last
    if isinstance(node, ast.UnaryOp) and isinstance(node.op, ast.Not):
      x = ev(node.operand)
      return UNK if x is UNK else (not x)
    if isinstance(node, ast.UnaryOp):
      x = ev(node.operand)
      if x is UNK:
        return UNK
      try:
        return {ast.USub: lambda v: -v, ast.UAdd: lambda v: +v,
                ast.Invert: lambda v: ~v}[type(node.op)](x)
      except Exception as e:  # pylint: disable=broad-except
        raise NotUnderstood(f"`{src(node)}`: {type(e).__name__}") from e
    if isinstance(node, ast.BinOp) and type(node.op) in _BIN:
      a, b = ev(node.left), ev(node.right)
      if not (_known(a) and _known(b)):
        return self._mixed(node, env, [a, b])
      if isinstance(a, Obj) or isinstance(b, Obj):
        return self._fail(node, env, "arithmetic on an object")
      try:
        return _BIN[type(node.op)](a, b)
      except Exception as e:  # pylint: disable=broad-except
        raise NotUnderstood(f"`{src(node)}`: {type(e).__name__}") from e
    if isinstance(node, ast.IfExp):
      t = ev(node.test)
      if t is UNK:
        a, b = ev(node.body), ev(node.orelse)
        if _known(a) and _known(b) and type(a) is type(b) and a == b:
          return a
        return UNK
      return ev(node.body) if t else ev(node.orelse)
    if isinstance(node, ast.Compare):
      vals = [ev(node.left)] + [ev(c) for c in node.comparators]
      if not all(_known(v) for v in vals):
        return self._mixed(node, env, vals)
      for op, a, b in zip(node.ops, vals, vals[1:]):
        try:
          if not _CMP[type(op)](a, b):
            return False
        except Exception as e:  # pylint: disable=broad-except
          raise NotUnderstood(f"`{src(node)}`: {e}") from e
      return True
    if isinstance(node, ast.Attribute):
      if isinstance(node.value, ast.Name) and node.value.id not in env \
          and node.value.id not in mod.assigns:
        rel = self._module_of_alias(mod, node.value.id)
        if rel is not None:
          return self.global_value(rel, node.attr)
      if isinstance(node.value, ast.Name) and node.value.id in ("self", "cls") \
          and cls is not None and env.get(node.value.id, UNK) is UNK \
          and node.attr not in mod.methods(cls):
        # a class-level constant read through the instance
        cv = mod.class_attr(cls, node.attr)
        if cv is not None and not self._stored_elsewhere(mod, cls, node.attr):
          return self.eval(cv, {}, mod, cls)
      base = ev(node.value)
      if isinstance(base, Obj):
        if node.attr in base.fields:
          return base.fields[node.attr]
        if base.mod is not None and base.cls in base.mod.classes:
          meth = base.mod.methods(base.cls).get(node.attr)
          if meth is not None and any(src(d) == "property" for d in meth.decorator_list):
            return self._pure_call(meth, [base], {}, base.mod, base.cls)
        raise NotUnderstood(f"{base.cls} has no field {node.attr}")
      if base is UNK:
        return UNK
      return self._fail(node, env, "attribute of a plain value")
    if isinstance(node, ast.Subscript):
      base, idx = ev(node.value), ev(node.slice) if not isinstance(node.slice, ast.Slice) else UNK
      if isinstance(node.slice, ast.Slice):
        lo = ev(node.slice.lower) if node.slice.lower else None
        hi = ev(node.slice.upper) if node.slice.upper else None
        st = ev(node.slice.step) if node.slice.step else None
        if not all(_known(v) for v in (base, lo, hi, st)):
          return self._mixed(node, env, [base, lo, hi, st])
        idx = slice(lo, hi, st)
      if not (_known(base) and _known(idx)):
        return self._mixed(node, env, [base, idx])
      try:
        return base[idx]
      except Exception as e:  # pylint: disable=broad-except
        raise NotUnderstood(f"`{src(node)}`: {type(e).__name__}") from e
    if isinstance(node, (ast.ListComp, ast.SetComp, ast.GeneratorExp, ast.DictComp)):
      return self._comp(node, env, mod, cls)
    if isinstance(node, ast.Call):
      return self._call(node, env, mod, cls)
    return self._fail(node, env, f"{type(node).__name__} is not modelled")

  def _stored_elsewhere(self, mod, cls, attr):
    """Is `<x>.attr` assigned anywhere in the module (then it is state)?"""
    key = ("stored", mod.rel)
    if key not in self._globals:
      self._globals[key] = {n.attr for n in ast.walk(mod.tree)
                            if isinstance(n, ast.Attribute) and isinstance(n.ctx, (ast.Store, ast.Del))}
    return attr in self._globals[key]

  def _mixed(self, node, env, vals):
    """Some operand is UNK.  Fine if no *known local* is involved."""
    return self._fail(node, env, "operation mixes a known input with unknown state",
                      strong=True)

  def _comp(self, node, env, mod, cls):
    out = []

    def rec(i, e):
      if i == len(node.generators):
        if isinstance(node, ast.DictComp):
          out.append((self.eval(node.key, e, mod, cls), self.eval(node.value, e, mod, cls)))
        else:
          out.append(self.eval(node.elt, e, mod, cls))
        return
      g = node.generators[i]
      it = self.eval(g.iter, e, mod, cls)
      if it is UNK:
        raise _CompUnknown()
      if isinstance(it, dict):
        it = list(it)
      for item in it:
        e2 = dict(e)
        self._bind(g.target, item, e2)
        ok = True
        for cond in g.ifs:
          c = self.eval(cond, e2, mod, cls)
          if c is UNK:
            raise _CompUnknown()
          if not c:
            ok = False
            break
        if ok:
          rec(i + 1, e2)

    try:
      rec(0, dict(env))
    except _CompUnknown:
      return self._fail(node, env, "comprehension over unknown state")
    if any(v is UNK or (isinstance(v, tuple) and any(x is UNK for x in v)) for v in out) \
        and not isinstance(node, ast.DictComp):
      return self._fail(node, env, "comprehension yields unknown elements")
    try:
      if isinstance(node, ast.DictComp):
        if any(k is UNK for k, _ in out):
          return self._fail(node, env, "comprehension yields unknown keys")
        return dict(out)
      if isinstance(node, ast.SetComp):
        return set(out)
      return list(out)
    except TypeError as e:
      raise NotUnderstood(str(e)) from e

  def _bind(self, target, value, env):
    if isinstance(target, ast.Name):
      env[target.id] = value
    elif isinstance(target, (ast.Tuple, ast.List)) and isinstance(value, (tuple, list)) \
        and len(value) == len(target.elts):
      for t, v in zip(target.elts, value):
        self._bind(t, v, env)
    else:
      raise NotUnderstood(f"binding target `{src(target)}`")

  # -- calls ---------------------------------------------------------------------
  def _call(self, node, env, mod, cls):
    ev = lambda n: self.eval(n, env, mod, cls)
    if any(isinstance(a, ast.Starred) for a in node.args) or \
        any(k.arg is None for k in node.keywords):
      return self._fail(node, env, "star-args call")
    f = node.func
    d = dotted(f)
    # self.method(...) / cls-level helper
    if isinstance(f, ast.Attribute) and isinstance(f.value, ast.Name) \
        and f.value.id in ("self", "cls") and cls is not None and f.value.id not in \
        {k for k, v in env.items() if _known(v)}:
      meths = mod.methods(cls)
      args = [ev(a) for a in node.args]
      kws = {k.arg: ev(k.value) for k in node.keywords}
      if not any(_known(v) for v in args + list(kws.values())):
        return UNK
      if f.attr in meths:
        if not self.is_pure_method(mod, cls, f.attr):
          # reads object state: its value is run-time dependent.  One level is
          # inlined so that a refusal spelled inside it is still seen.
          if self.impure_depth >= 1:
            return UNK
          self.impure_depth += 1
          try:
            return self.call_function(meths[f.attr], [UNK] + args, kws, mod, cls)
          except NotModelled:
            return UNK
          finally:
            self.impure_depth -= 1
        recv = [] if any("staticmethod" in src(d)
                         for d in meths[f.attr].decorator_list) else [UNK]
        return self._pure_call(meths[f.attr], recv + args, kws, mod, cls)
      return self._fail(node, env, f"method {f.attr} not defined in {cls}")
    if isinstance(f, ast.Name) and f.id not in env:
      if f.id in mod.functions:
        args = [ev(a) for a in node.args]
        kws = {k.arg: ev(k.value) for k in node.keywords}
        if not any(_known(v) for v in args + list(kws.values())) and (args or kws):
          return UNK
        return self._pure_call(mod.functions[f.id], args, kws, mod, None)
      if f.id in mod.classes:
        return self._construct(mod, mod.classes[f.id], node, env, cls)
      if f.id in _BUILTINS and f.id not in mod.assigns:
        args = [ev(a) for a in node.args]
        if node.keywords:
          return self._fail(node, env, "keyword call of a builtin")
        if not all(_known(a) for a in args):
          return self._mixed(node, env, args)
        try:
          return _BUILTINS[f.id](*args)
        except Exception as e:  # pylint: disable=broad-except
          raise NotUnderstood(f"`{src(node)}`: {type(e).__name__}: {e}") from e
      return self._fail(node, env, f"call of {f.id}")
    if isinstance(f, ast.Attribute):
      # imported_module.function(...)
      if isinstance(f.value, ast.Name) and f.value.id not in env \
          and f.value.id not in mod.assigns:
        rel = self._module_of_alias(mod, f.value.id)
        if rel is not None:
          args = [ev(a) for a in node.args]
          kws = {k.arg: ev(k.value) for k in node.keywords}
          if not any(_known(v) for v in args + list(kws.values())) and (args or kws):
            return UNK
          m2 = get_module(self.ctx, rel)
          if f.attr in m2.functions:
            return self._pure_call(m2.functions[f.attr], args, kws, m2, None)
          return self._fail(node, env, f"call of {d}")
      base = ev(f.value)
      args = [ev(a) for a in node.args]
      if base is UNK:
        return UNK   # a method of a run-time object: run-time dependent
      ok = (isinstance(base, str) and f.attr in _STR_METHODS) or \
           (isinstance(base, dict) and f.attr in _DICT_METHODS) or \
           (isinstance(base, (set, frozenset)) and f.attr in _SET_METHODS)
      if not ok or node.keywords:
        return self._fail(node, env, f"method {f.attr} of {type(base).__name__}")
      if not all(_known(a) for a in args):
        return self._mixed(node, env, args)
      try:
        r = getattr(base, f.attr)(*args)
      except Exception as e:  # pylint: disable=broad-except
        raise NotUnderstood(f"`{src(node)}`: {type(e).__name__}: {e}") from e
      return list(r) if f.attr in ("keys", "values", "items") else r
    return self._fail(node, env, "call")

  def _construct(self, mod, cdef, node, env, cls):
    """Dataclass-style construction: fields = annotated class-level names."""
    deco = [src(x) for x in cdef.decorator_list]
    if not any("dataclass" in x for x in deco) or cdef.bases:
      return self._fail(node, env, f"construction of non-dataclass {cdef.name}")
    names, defaults = [], {}
    for st in cdef.body:
      if isinstance(st, ast.AnnAssign) and isinstance(st.target, ast.Name):
        names.append(st.target.id)
        if st.value is not None:
          defaults[st.target.id] = self.eval(st.value, {}, mod, None)
    fields = dict(defaults)
    if len(node.args) > len(names):
      raise NotUnderstood(f"{cdef.name}: too many positional arguments")
    for n, a in zip(names, node.args):
      fields[n] = self.eval(a, env, mod, cls)
    for k in node.keywords:
      if k.arg not in names:
        raise NotUnderstood(f"{cdef.name}: unknown field {k.arg}")
      fields[k.arg] = self.eval(k.value, env, mod, cls)
    missing = [n for n in names if n not in fields]
    if missing:
      raise NotUnderstood(f"{cdef.name}: fields {missing} not given")
    return Obj(cdef.name, fields, mod)

  # -- functions -------------------------------------------------------------------
  def is_pure_method(self, mod, cls, name, _seen=None):
    """True when the method uses `self` only to call other pure methods of the
    same class, i.e. its result is a function of its arguments."""
    if _seen is None:
      key = ("pure", mod.rel, cls, name)
      if key not in self._globals:
        self._globals[key] = self.is_pure_method(mod, cls, name, set())
      return self._globals[key]
    seen = _seen
    if name in seen:
      return True
    seen.add(name)
    meths = mod.methods(cls)
    fn = meths.get(name)
    if fn is None or not fn.args.args:
      return False
    if any("staticmethod" in src(d) for d in fn.decorator_list):
      return True
    me = fn.args.args[0].arg
    for n in ast.walk(fn):
      if isinstance(n, ast.Name) and n.id == me:
        par = mod.parent.get(n)
        call = mod.parent.get(par)
        if isinstance(par, ast.Attribute) and isinstance(par.ctx, ast.Load) \
            and par.attr not in meths and mod.class_attr(cls, par.attr) is not None \
            and not self._stored_elsewhere(mod, cls, par.attr):
          continue   # class-level constant
        if not (isinstance(par, ast.Attribute) and isinstance(call, ast.Call)
                and call.func is par and par.attr in meths
                and self.is_pure_method(mod, cls, par.attr, seen)):
          return False
    return True

  def bind(self, fn, args, kwargs, mod):
    a = fn.args
    if a.vararg or a.kwarg or a.posonlyargs:
      raise NotModelled(f"{fn.name}: star/positional-only parameters")
    params = [p.arg for p in a.args]
    env = {}
    if len(args) > len(params):
      raise NotUnderstood(f"{fn.name}: too many arguments")
    for p, v in zip(params, args):
      env[p] = v
    for k, v in kwargs.items():
      if k not in params + [p.arg for p in a.kwonlyargs] or k in env:
        raise NotUnderstood(f"{fn.name}: bad keyword {k}")
      env[k] = v
    for p, dflt in zip(reversed(a.args), reversed(a.defaults)):
      if p.arg not in env:
        env[p.arg] = self.eval(dflt, {}, mod, None)
    for p, dflt in zip(a.kwonlyargs, a.kw_defaults):
      if p.arg not in env and dflt is not None:
        env[p.arg] = self.eval(dflt, {}, mod, None)
    for p in params + [p.arg for p in a.kwonlyargs]:
      if p not in env:
        raise NotUnderstood(f"{fn.name}: parameter {p} not bound")
    return env

  def _pure_call(self, fn, args, kwargs, mod, cls):
    try:
      return self.call_function(fn, args, kwargs, mod, cls)
    except NotModelled as e:
      raise NotUnderstood(f"in pure helper {fn.name}: {e}") from e

  def call_function(self, fn, args, kwargs, mod, cls):
    env = self.bind(fn, args, kwargs, mod)
    self.depth += 1
    try:
      if self.depth > 60:
        raise NotModelled("call depth")
      r = self._exec(fn.body, env, mod, cls, fn)
    finally:
      self.depth -= 1
    if r is _FALLS:
      return None
    return r

  def _exec(self, body, env, mod, cls, fn):
    """Returns the returned value, or _FALLS when the block completes."""
    for st in body:
      if isinstance(st, ast.Expr):
        if isinstance(st.value, ast.Constant):
          continue
        self.eval(st.value, env, mod, cls)   # for NotUnderstood only
        continue
      if isinstance(st, ast.Pass):
        continue
      if isinstance(st, ast.Return):
        return None if st.value is None else self.eval(st.value, env, mod, cls)
      if isinstance(st, ast.Assign) and len(st.targets) == 1:
        v = self.eval(st.value, env, mod, cls)
        t = st.targets[0]
        if isinstance(t, ast.Name):
          env[t.id] = v
        elif isinstance(t, (ast.Tuple, ast.List)) and all(
            isinstance(e, ast.Name) for e in t.elts):
          if isinstance(v, (tuple, list)) and len(v) == len(t.elts):
            for e, x in zip(t.elts, v):
              env[e.id] = x
          elif v is UNK:
            for e in t.elts:
              env[e.id] = UNK
          else:
            raise NotModelled(f"tuple assignment `{src(st)[:60]}`")
        else:
          self._assign_other(st, env)
        continue
      if isinstance(st, ast.AnnAssign) and isinstance(st.target, ast.Name):
        if st.value is not None:
          env[st.target.id] = self.eval(st.value, env, mod, cls)
        continue
      if isinstance(st, ast.If):
        t = self.eval(st.test, env, mod, cls)
        if t is UNK:
          e1, e2 = dict(env), dict(env)
          r1 = self._exec(st.body, e1, mod, cls, fn)
          r2 = self._exec(st.orelse, e2, mod, cls, fn)
          if r1 is _FALLS and r2 is _FALLS:
            for k in set(e1) | set(e2):
              a, b = e1.get(k, UNK), e2.get(k, UNK)
              env[k] = a if (_known(a) and _known(b) and type(a) is type(b) and a == b) else UNK
            continue
          if r1 is not _FALLS and r2 is not _FALLS and _known(r1) and _known(r2) \
              and type(r1) is type(r2) and r1 == r2:
            return r1
          # the two arms disagree: the result depends on unknown state
          rest = body[body.index(st) + 1:]
          outs = []
          for r, e in ((r1, e1), (r2, e2)):
            outs.append(r if r is not _FALLS else self._exec(rest, e, mod, cls, fn))
          a, b = outs
          if a is not _FALLS and b is not _FALLS and _known(a) and _known(b) \
              and type(a) is type(b) and a == b:
            return a
          return UNK
        r = self._exec(st.body if t else st.orelse, env, mod, cls, fn)
        if r is not _FALLS:
          return r
        continue
      if isinstance(st, ast.Assert):
        continue
      raise NotModelled(f"{fn.name}: statement `{src(st)[:60]}` is not modelled")
    return _FALLS

  def _assign_other(self, st, env):
    if isinstance(st.targets[0], (ast.Tuple, ast.List)):
      raise NotModelled(f"tuple assignment `{src(st)[:60]}`")
    # attribute / subscript store: state the evaluator does not model
    for n in ast.walk(st.targets[0]):
      if isinstance(n, ast.Name) and n.id in env and n.id != "self":
        env[n.id] = UNK


class _CompUnknown(Exception):
  pass


class _Falls:
  def __repr__(self):
    return "<falls through>"


_FALLS = _Falls()


def possible_exits(ev, mod, cls, fn, env):
  """Statements through which `fn` can leave for the bindings `env` (Return /
  Raise nodes, or `fn` itself for falling off the end).  A test whose value is
  UNK contributes both arms.  Only `if` tests and the right-hand sides of
  assignments are evaluated; loops/try/with raise NotModelled."""
  exits = []

  def block(body, env):
    """True when control can fall out of the block."""
    for st in body:
      if isinstance(st, (ast.Return, ast.Raise)):
        exits.append(st)
        return False
      if isinstance(st, ast.If):
        t = ev.eval(st.test, env, mod, cls)
        if t is UNK:
          e1, e2 = dict(env), dict(env)
          f1, f2 = block(st.body, e1), block(st.orelse, e2)
          if not (f1 or f2):
            return False
          live = [e for f, e in ((f1, e1), (f2, e2)) if f]
          for k in set().union(*live):
            vals = [e.get(k, UNK) for e in live]
            same = all(v is not UNK and type(v) is type(vals[0]) and v == vals[0]
                       for v in vals)
            env[k] = vals[0] if same else UNK
        else:
          if not block(st.body if t else st.orelse, env):
            return False
        continue
      if isinstance(st, ast.Assign) and len(st.targets) == 1 \
          and isinstance(st.targets[0], ast.Name):
        env[st.targets[0].id] = ev.eval(st.value, env, mod, cls)
        continue
      if isinstance(st, (ast.Expr, ast.Pass, ast.Assert, ast.Assign, ast.AnnAssign,
                         ast.AugAssign, ast.FunctionDef, ast.ClassDef)):
        for n in ([st] if isinstance(st, (ast.FunctionDef, ast.ClassDef)) else ast.walk(st)):
          if isinstance(n, ast.Name) and isinstance(n.ctx, ast.Store):
            env[n.id] = UNK
          elif isinstance(n, (ast.FunctionDef, ast.ClassDef)):
            env[n.name] = UNK
        continue
      raise NotModelled(f"{fn.name}: `{type(st).__name__}` statement")
    return True

  if block(fn.body, dict(env)):
    exits.append(fn)
  return exits
