"""C14 extension (R14.20): constant folding rejects `[*x]` only for constants
CPython cannot iterate.

`constant_folding` turns `[*<constant>]` into a ConstantError ("Value after *
must be an iterable") for primitive constants; the error is reported for the
statement although CPython runs it.  The set of primitive constant types the
LIST_EXTEND arm treats as iterable must therefore contain every iterable type
LOAD_CONST can produce: str and bytes (reference: CPython's constant kinds
int, float, complex, bool, NoneType, Ellipsis, str, bytes).
"""
import ast

from sa.core import rule, AnalysisError
from sa.pyindex import get_module, dotted, src
from sa import flow

CF = "pytype/constant_folding.py"
# kinds of non-tuple constants a code object's co_consts can hold, and whether
# CPython can iterate them (host introspection, not pytype)
CONST_KINDS = {"int": 0, "float": 0.0, "complex": 0j, "bool": True, "NoneType": None,
               "ellipsis": ..., "str": "", "bytes": b""}


def _iterable(v):
  try:
    iter(v)
    return True
  except TypeError:
    return False


@rule("R14.20", "C14", floor=2)
def r14_20(ctx):
  """`Value after * must be an iterable` is raised only for non-iterables."""
  mod = get_module(ctx, CF)
  fn = None
  for n in ast.walk(mod.tree):
    if isinstance(n, ast.FunctionDef) and n.name == "visit_code":
      fn = n
  if fn is None:
    raise AnalysisError("constant_folding: visit_code not found")
  raises = [n for n in ast.walk(fn) if isinstance(n, ast.Raise) and n.exc is not None
            and "ConstantError" in src(n.exc)]
  target = None
  for r in raises:
    # the message is built from a local assigned just before
    g = flow.guards_txt(mod.parent, r)
    if any("LIST_EXTEND" in t and p for t, p in g):
      target = (r, g)
  if target is None:
    raise AnalysisError("constant_folding: the `*`-unpacking ConstantError was not found")
  r, g = target
  # primitive types excluded from the raise: `other_et == T` tests that are false on the path
  excluded = set()
  for t, p in g:
    try:
      e = ast.parse(t, mode="eval").body
    except SyntaxError:
      continue
    if isinstance(e, ast.Compare) and len(e.ops) == 1 and isinstance(e.ops[0], (ast.Eq, ast.Is)) \
        and not p and isinstance(e.comparators[0], ast.Name):
      excluded.add(e.comparators[0].id)
    if isinstance(e, ast.Compare) and len(e.ops) == 1 and isinstance(e.ops[0], ast.In) and not p:
      for x in ast.walk(e.comparators[0]):
        if isinstance(x, ast.Name):
          excluded.add(x.id)
  prim_guard = any("== 'prim'" in t and p for t, p in g)
  if not prim_guard:
    raise AnalysisError(f"the raise is not under the primitive-constant arm: {g}")
  for kind, sample in sorted(CONST_KINDS.items()):
    if not _iterable(sample):
      continue
    ctx.check(kind in excluded, f"list-unpack:{kind}-is-iterable", CF, r.lineno,
              f"`[*<{kind} constant>]` runs cleanly in CPython ({kind} is iterable) "
              "but constant folding raises ConstantError 'Value after * must be an "
              f"iterable' for every primitive constant except {sorted(excluded)}: "
              "clean code is reported as an error",
              {"accepted_as_iterable": sorted(excluded)})


VARIANTS = [
    {"name": "revert-D53-bytes-not-iterable", "rule": "R14.20", "file": CF, "expect": "fire",
     "old": "              elif other_et == bytes:\n                # Iterating over bytes yields ints.\n                other_et = {('prim', int)}\n                other_elts = tuple(\n                    _Constant(('prim', int), v, None, other.op)\n                    for v in other.value\n                )\n",
     "new": ""},
]
