"""C04 extension (R4.11): the error report keeps exactly the minimal tracebacks
of every error - decided by small-scope evaluation of the de-duplication.

`ErrorLog.unique_sorted_errors` groups the logged errors by their
traceback-free representation and, inside a group, lets an error whose
traceback is a tail of another's supersede it ("the same error, seen through a
longer call path").  C04: "reported errors are unique".  The obligation of
such a supersede loop: a new candidate is compared with EVERY entry kept so
far; every kept entry the candidate supersedes is dropped (the scan goes on
after the first one), the candidate is dropped iff some kept entry is a tail
of (or equal to) it, and it is added at most once, after the whole scan.
Consequently, for each group the reported tracebacks are exactly the minimal
elements (under "is a tail of") of the group's tracebacks, each once, whatever
the order in which the errors were logged.

The rule does not look at the text of the loop.  It evaluates the method with
rules/_minieval (the AST of the method, of the module-level helpers and of the
methods/properties of ErrorLog and Error it calls; nothing is imported from
/repo) on model error logs: every sequence of up to 3 errors with tracebacks
from {none, g, a<-g, b<-g, c<-a<-g, d}, every sequence of 4 errors with at
least 3 different tracebacks from {g, a<-g, b<-g, c<-a<-g}, and logs in which
two different errors interleave, and compares the result with the
specification above.  A cap on the
number of tracebacks kept per error (MAX_TRACEBACKS) is measured by probing
(k pairwise incomparable tracebacks) and exactness is required whenever no
prefix of the log has more minimal tracebacks than the cap; uniqueness (no two
reports of a group with comparable tracebacks, no error object twice, nothing
invented) is required always.
"""
import ast
import itertools

from sa.core import rule, AnalysisError
from sa.pyindex import get_module
from rules import _minieval as me

ERRORS = "pytype/errors/errors.py"
ENTRY = "ErrorLog.unique_sorted_errors"


class _Interp(me.Interp):
  """_minieval.Interp + lambdas, slice stores, properties of modelled classes."""

  def sub(self, fn):
    return _Interp(fn, self.globals, self.max_steps, self.resolver)

  def expr(self, e, env):
    if isinstance(e, ast.Lambda):
      a = e.args
      if a.vararg or a.kwarg or a.kwonlyargs or a.defaults:
        raise me.Outside("lambda signature")
      names = [p.arg for p in a.posonlyargs + a.args]

      def call(*args, _e=e, _names=names, _outer=env):
        if len(args) != len(_names):
          raise me.Raised("TypeError")
        frame = dict(_outer)
        frame.update(zip(_names, args))
        return self.expr(_e.body, frame)
      return call
    return super().expr(e, env)

  def assign(self, t, v, env):
    if isinstance(t, ast.Subscript) and isinstance(t.slice, ast.Slice):
      c = self.expr(t.value, env)
      if not isinstance(c, list):
        raise me.Outside("slice store into a value that is not a list")
      sl = slice(*(None if x is None else self.expr(x, env)
                   for x in (t.slice.lower, t.slice.upper, t.slice.step)))
      c[sl] = list(self.iterate(v))
      return
    super().assign(t, v, env)

  def getattr_(self, v, attr):
    if isinstance(v, me.Obj) and attr not in v.attrs and attr not in v.methods \
        and attr in v.cls_methods:
      fn = v.cls_methods[attr]
      decos = [me._dotted(d) for d in fn.decorator_list]  # pylint: disable=protected-access
      if decos == ["property"] or decos == ["functools.cached_property"]:
        first = (fn.args.posonlyargs + fn.args.args)[0].arg
        return self.sub(fn).call({first: v})
      if decos:
        raise me.Outside(f"method {attr} is decorated ({decos})")
    return super().getattr_(v, attr)


def _module_globals(mod):
  """Module-level functions as callables evaluated from their AST, module-level
  str/int constants by value."""
  g = {}
  for name, fn in mod.functions.items():
    def call(*a, _fn=fn, **kw):
      if _fn.decorator_list:
        raise me.Outside(f"call of decorated function {_fn.name}")
      params = [p.arg for p in _fn.args.posonlyargs + _fn.args.args]
      if len(a) > len(params):
        raise me.Outside(f"call of {_fn.name} with too many arguments")
      return _Interp(_fn, g, 20000).call({**dict(zip(params, a)), **kw})
    g[name] = call
  for name, v in mod.assigns.items():
    if isinstance(v, ast.Constant) and isinstance(v.value, (str, int)) \
        and name not in g:
      g[name] = v.value
  return g


# -- the model ---------------------------------------------------------------------

# frames, outermost first; the error is raised in the last one
_G = ("line 5, in g",)
_AG = ("line 7, in a",) + _G
_BG = ("line 9, in b",) + _G
_CAG = ("line 11, in c",) + _AG
_D = ("line 13, in d",)
_NONE = None
_UNIVERSE = [_NONE, _G, _AG, _BG, _CAG, _D]
_SHORT = {None: "-", _G: "g", _AG: "a<g", _BG: "b<g", _CAG: "c<a<g", _D: "d"}


def _tail(x, y):
  """frames x are a tail of (or equal to) frames y; no traceback = no frames."""
  x = x or ()
  y = y or ()
  return len(x) <= len(y) and tuple(y[len(y) - len(x):]) == tuple(x)


def _minimal(frames):
  """The minimal elements under `_tail` (as a set; None and () coincide)."""
  fs = {f or () for f in frames}
  return {f for f in fs if not any(o != f and _tail(o, f) for o in fs)}


class _World:
  def __init__(self, ctx):
    self.mod = mod = get_module(ctx, ERRORS)
    self.fn = mod.func(ENTRY)
    self.line = self.fn.lineno
    self.g = _module_globals(mod)
    marker = self.g.get("TRACEBACK_MARKER")
    if not isinstance(marker, str) or not marker:
      raise AnalysisError("errors.py: TRACEBACK_MARKER is not a module-level string constant "
                          "(the model builds traceback strings the way _make_traceback_str does)")
    self.marker = marker
    self.log_methods = mod.methods("ErrorLog")
    self.err_methods = mod.methods("Error")
    if "__eq__" in self.err_methods or "__hash__" in self.err_methods:
      raise AnalysisError("Error defines __eq__/__hash__: the model compares errors by identity")

  def tb(self, frames):
    if frames is None:
      return None
    return self.marker + "\n  " + "\n  ".join(frames)

  def error(self, frames, group=0):
    key = ("f.py:%d" % (10 + group), "message", None, "attribute-error")
    o = me.Obj(("Error",), {
        "_traceback": self.tb(frames), "_filename": "f.py", "_line": 10 + group,
        "_col": 0, "_message": "message", "_details": None,
        "_name": "attribute-error", "_methodname": None, "_severity": 2,
    }, methods={"get_unique_representation": lambda _k=key: _k},
        cls_methods={k: v for k, v in self.err_methods.items()
                     if k != "get_unique_representation"})
    o.frames = frames
    o.group = group
    return o

  def run(self, errors):
    log = me.Obj(("ErrorLog",), {"_errors": list(errors), "_src": None},
                 cls_methods=self.log_methods)
    first = (self.fn.args.posonlyargs + self.fn.args.args)[0].arg
    try:
      r = _Interp(self.fn, self.g, 50000).call({first: log})
    except me.Outside as e:
      raise AnalysisError(f"{ENTRY}: outside the evaluated fragment: {e}") from e
    except me.Diverged as e:
      raise AnalysisError(f"{ENTRY}: evaluation does not terminate on a log of "
                          f"{len(errors)} errors") from e
    except RecursionError as e:
      raise AnalysisError(f"{ENTRY}: evaluation recursed too deeply") from e
    if isinstance(r, tuple):
      r = list(r)
    if not isinstance(r, list):
      raise AnalysisError(f"{ENTRY}: the result is not a list ({type(r).__name__})")
    return r


def _show(seq):
  return "[" + ", ".join((f"{g}:" if g else "") + _SHORT.get(f, "/".join(f or ()))
                         for f, g in seq) + "]"


def _judge(world, seq, cap):
  """None if the report of the log `seq` ([(frames, group)]) meets the
  specification, else (kind, message)."""
  errs = [world.error(f, g) for f, g in seq]
  try:
    res = world.run(errs)
  except me.Raised as e:
    return "raises", f"raises {e.name}"
  ids = {id(e) for e in errs}
  for r in res:
    if not isinstance(r, me.Obj) or id(r) not in ids:
      return "invented", f"reports {r!r}, which is not one of the logged errors"
  if len({id(r) for r in res}) != len(res):
    return "twice", "reports the same error object twice"
  for grp in sorted({g for _, g in seq}):
    got = [r.frames for r in res if r.group == grp]
    for i, x in enumerate(got):
      for y in got[i + 1:]:
        if _tail(x, y) or _tail(y, x):
          return "duplicate", (
              f"reports the same error twice with nested tracebacks "
              f"({_SHORT.get(x, x)} and {_SHORT.get(y, y)}): every kept entry that the new "
              "error supersedes must be dropped, and the new error dropped iff a kept entry "
              "is a tail of it")
    inputs = [f for f, g in seq if g == grp]
    width = max(len(_minimal(inputs[:n])) for n in range(1, len(inputs) + 1))
    if width > cap:
      continue
    want = _minimal(inputs)
    have = {f or () for f in got}
    if have != want:
      sh = lambda s: sorted(_SHORT.get(f or None, "/".join(f)) for f in s)
      return "inexact", (
          f"reports tracebacks {sh(have)} for an error logged with "
          f"{[_SHORT.get(f, f) for f in inputs]}; the minimal ones are {sh(want)} "
          "(a superseded error is reported, or a representative is lost)")
  # the report follows the (filename, line) order of the groups
  groups = [r.group for r in res]
  if groups != sorted(groups):
    return "order", f"groups are reported in the order {groups}"
  return None


def _probe_cap(world):
  """How many pairwise incomparable tracebacks of one error are reported."""
  cap = 0
  for k in range(1, 7):
    errs = [world.error((f"line {20 + i}, in p{i}",)) for i in range(k)]
    try:
      res = world.run(errs)
    except me.Raised as e:
      raise AnalysisError(f"{ENTRY}: raises {e.name} on {k} unrelated tracebacks") from e
    cap = max(cap, len(res))
    if len(res) < k:
      break
  return cap


def _scenarios():
  out = {}
  for n in (1, 2, 3):
    out[f"log-of-{n}"] = [[(f, 0) for f in s] for s in itertools.product(_UNIVERSE, repeat=n)]
  out["log-of-4-shared-last-frame"] = [
      [(f, 0) for f in s] for s in itertools.product([_G, _AG, _BG, _CAG], repeat=4)
      if len(set(s)) >= 3]
  two = []
  for s in itertools.product([_G, _AG, _BG], repeat=3):
    two.append(list(zip(s, (1, 0, 1))))
    two.append([(s[0], 0), (s[1], 1), (s[2], 0), (s[0], 1), (_G, 0)])
  out["two-errors-interleaved"] = two
  return out


@rule("R4.11", "C04", floor=6)
def r4_11(ctx):
  """Per error the report keeps exactly the minimal tracebacks (small-scope evaluation)."""
  world = _World(ctx)
  cap = _probe_cap(world)
  ctx.check(cap >= 1, f"{ENTRY}:dedup:cap", ERRORS, world.line,
            "a single error with a traceback is not reported at all",
            {"tracebacks_kept_per_error": cap})
  if cap < 1:
    return
  for name, seqs in _scenarios().items():
    fails = []
    for seq in seqs:
      v = _judge(world, seq, cap)
      if v is not None:
        fails.append((len(seq), _show(seq), v))
    fails.sort(key=lambda f: (f[0], f[1]))
    construct = f"{ENTRY}:dedup:{name}"
    if fails:
      _, shown, (kind, msg) = fails[0]
      ctx.bad(construct, ERRORS, world.line,
              f"evaluated on the log {shown} (tracebacks innermost frame last, in log "
              f"order) the method {msg}",
              {"logs": len(seqs), "failing": len(fails), "first": shown, "kind": kind})
    else:
      ctx.ok(construct, ERRORS, world.line, {"logs": len(seqs), "cap": cap})


_LOOP_OLD = (
    "        elif traceback_cmp < 0:\n"
    "          # If the current traceback is shorter, use the current error instead\n"
    "          # of the previous one.\n"
    "          errors.remove(previous_error)\n")
# the whole supersede scan of unique_sorted_errors, as it is written today
_BLOCK_OLD = (
    "      errors = unique_errors[error_without_traceback]\n"
    "      for previous_error in list(errors):  # make a copy, since we modify errors\n"
    "        traceback_cmp = _compare_traceback_strings(\n"
    "            error.traceback, previous_error.traceback\n"
    "        )\n"
    "        if traceback_cmp is None:\n"
    "          # We have multiple bad call sites, e.g.,\n"
    "          #   def f(x):  x + 42\n"
    "          #   f(\"hello\")  # error\n"
    "          #   f(\"world\")  # same error, different backtrace\n"
    "          # so we'll report this error multiple times with different backtraces.\n"
    "          continue\n"
    "        elif traceback_cmp < 0:\n"
    "          # If the current traceback is shorter, use the current error instead\n"
    "          # of the previous one.\n"
    "          errors.remove(previous_error)\n"
    "        else:\n"
    "          # One of the previous errors has a shorter traceback than the current\n"
    "          # one, so the latter can be discarded.\n"
    "          break\n"
    "      else:\n"
    "        if len(errors) < MAX_TRACEBACKS:\n"
    "          errors.append(error)\n")

VARIANTS = [
    {"name": "seeded-C04-r4m2", "rule": "R4.11", "patch": "seeded/C04-r4m2/patch.diff",
     "expect": "fire"},
    # leaves the scan on the supersede arm (the candidate is added right there)
    {"name": "supersede-then-break", "rule": "R4.11", "file": ERRORS, "expect": "fire",
     "old": _LOOP_OLD,
     "new": _LOOP_OLD + "          errors.append(error)\n          break\n"},
    # the supersede arm returns from the scan through a helper's early return
    {"name": "replace-first-and-return", "rule": "R4.11", "file": ERRORS, "expect": "fire",
     "old": _BLOCK_OLD,
     "new": "      errors = unique_errors[error_without_traceback]\n"
            "      self._merge_error(errors, error)\n"
            "    return sum(unique_errors.values(), [])\n"
            "\n"
            "  def _merge_error(self, errors, error):\n"
            "    for i, previous_error in enumerate(errors):\n"
            "      c = _compare_traceback_strings(error.traceback, previous_error.traceback)\n"
            "      if c is None:\n"
            "        continue\n"
            "      if c < 0:\n"
            "        errors[i] = error\n"
            "      return\n"
            "    if len(errors) < MAX_TRACEBACKS:\n"
            "      errors.append(error)\n"
            "\n"
            "  def _unused_tail(self, unique_errors):\n"},
    # iterates over the list it removes from: the entry after a removed one is skipped
    {"name": "remove-while-iterating", "rule": "R4.11", "file": ERRORS, "expect": "fire",
     "old": "      for previous_error in list(errors):  # make a copy, since we modify errors\n",
     "new": "      for previous_error in errors:\n"},
    # comparison read the wrong way round: the longer traceback supersedes
    {"name": "compare-sign-flipped", "rule": "R4.11", "file": ERRORS, "expect": "fire",
     "old": "        elif traceback_cmp < 0:\n",
     "new": "        elif traceback_cmp > 0:\n"},
    # candidate added inside the scan: once per incomparable entry
    {"name": "append-inside-scan", "rule": "R4.11", "file": ERRORS, "expect": "fire",
     "old": "          # so we'll report this error multiple times with different backtraces.\n          continue\n",
     "new": "          # so we'll report this error multiple times with different backtraces.\n"
            "          if len(errors) < MAX_TRACEBACKS:\n            errors.append(error)\n          continue\n"},
    # equal tracebacks treated as incomparable: the same report twice
    {"name": "equal-tracebacks-kept", "rule": "R4.11", "file": ERRORS, "expect": "fire",
     "old": "        if traceback_cmp is None:\n",
     "new": "        if traceback_cmp is None or traceback_cmp == 0:\n"},
    # -- twins: the same de-duplication spelled differently --
    {"name": "twin-filter-comprehension", "rule": "R4.11", "file": ERRORS, "expect": "silent",
     "old": _BLOCK_OLD,
     "new": "      errors = unique_errors[error_without_traceback]\n"
            "      cmps = [\n"
            "          _compare_traceback_strings(error.traceback, p.traceback)\n"
            "          for p in errors\n"
            "      ]\n"
            "      if any(c is not None and c >= 0 for c in cmps):\n"
            "        continue\n"
            "      errors[:] = [p for p, c in zip(errors, cmps) if c is None]\n"
            "      if len(errors) < MAX_TRACEBACKS:\n"
            "        errors.append(error)\n"},
    {"name": "twin-flag-instead-of-for-else", "rule": "R4.11", "file": ERRORS, "expect": "silent",
     "old": _BLOCK_OLD,
     "new": "      kept = unique_errors[error_without_traceback]\n"
            "      superseded = False\n"
            "      for earlier in tuple(kept):\n"
            "        order = _compare_traceback_strings(error.traceback, earlier.traceback)\n"
            "        if order is None:\n"
            "          continue\n"
            "        if order >= 0:\n"
            "          superseded = True\n"
            "          break\n"
            "        kept.remove(earlier)\n"
            "      if not superseded and len(kept) < MAX_TRACEBACKS:\n"
            "        kept.append(error)\n"},
    {"name": "twin-while-index-scan", "rule": "R4.11", "file": ERRORS, "expect": "silent",
     "old": _BLOCK_OLD,
     "new": "      kept = unique_errors[error_without_traceback]\n"
            "      pos = 0\n"
            "      keep_new = True\n"
            "      while pos < len(kept):\n"
            "        order = _compare_traceback_strings(\n"
            "            error.traceback, kept[pos].traceback\n"
            "        )\n"
            "        if order is None:\n"
            "          pos += 1\n"
            "        elif order < 0:\n"
            "          del kept[pos]\n"
            "        else:\n"
            "          keep_new = False\n"
            "          break\n"
            "      if keep_new and len(kept) < MAX_TRACEBACKS:\n"
            "        kept.append(error)\n"},
    {"name": "twin-helper-extracted", "rule": "R4.11", "patch": "benign/C04-r1/patch.diff",
     "expect": "silent"},
    # a construct outside the evaluated fragment is refused, not guessed
    {"name": "outside-fragment-refused", "rule": "R4.11", "file": ERRORS, "expect": "error",
     "old": "      for previous_error in list(errors):  # make a copy, since we modify errors\n",
     "new": "      for previous_error in copy.copy(errors):\n"},
]
