"""Helpers shared by rules/c07.py and rules/c08.py (clang JSON AST).

* once-bound locals (reaching definitions for the trivial case): a local with
  an initialiser that is never assigned again is replaced by the term of its
  initialiser, so `const CFGNode* pos = state.pos(); f(pos)` and
  `f(state.pos())` render as the same term;
* inlining of file-local helpers: nodes of the helper's body are visited with
  the helper's parameters bound to the caller's argument terms;
* small predicates on statements (leaves the iteration, boolean literal
  returns) and on terms (call parts, disjuncts / conjuncts).
"""
from sa import cxx
from sa.cxx import term, uncast, inner, strip

ASSIGN_OPS = {"operator=", "operator+=", "operator-=", "operator|=", "operator&=",
              "operator++", "operator--", "operator<<=", "operator>>=",
              "operator*=", "operator/=", "operator^="}
LOCAL_FILES = ("pytype/typegraph/solver.cc", "pytype/typegraph/solver.h")


def line(n):
  return ((n.get("range") or {}).get("begin") or {}).get("line") or 0


def pos(n):
  b = (n.get("range") or {}).get("begin") or {}
  return (line(n), b.get("col", 0))


def stmts(n):
  if n is None:
    return []
  return inner(n) if n.get("kind") == "CompoundStmt" else [n]


def if_parts(s):
  """(init-or-None, var-decl-stmt-or-None, cond, then, else-or-None)."""
  parts = list(inner(s))
  init = parts.pop(0) if s.get("hasInit") else None
  var = parts.pop(0) if s.get("hasVar") else None
  cond, then = parts[0], parts[1]
  els = parts[2] if len(parts) > 2 else None
  return init, var, cond, then, els


def leaves(block):
  """The block always ends by leaving the enclosing iteration / function."""
  st = stmts(block)
  if not st:
    return False
  last = st[-1]
  k = last.get("kind")
  if k in ("ContinueStmt", "BreakStmt", "ReturnStmt"):
    return True
  if k == "CompoundStmt":
    return leaves(last)
  if k == "IfStmt":
    _, _, _, then, els = if_parts(last)
    return els is not None and leaves(then) and leaves(els)
  return False


def bool_literal(e):
  """True / False for a boolean literal expression, else None."""
  e = strip(e) if e is not None else None
  if e is not None and e.get("kind") == "CXXBoolLiteralExpr":
    return bool(e.get("value"))
  return None


def return_value(s):
  """Expression returned by a ReturnStmt (None for `return;`)."""
  kids = [c for c in inner(s) if c.get("kind")]
  return kids[0] if kids else None


def _decl_id(e):
  e = strip(e) if e is not None else None
  if e is not None and e.get("kind") == "DeclRefExpr":
    return (e.get("referencedDecl") or {}).get("id")
  return None


def written_vars(body):
  """ids of local variables / parameters that are (re)assigned or mutated by a
  member call somewhere in `body` (after their declaration)."""
  out = set()
  for n in cxx.walk(body):
    k = n.get("kind")
    kids = inner(n)
    if k in ("BinaryOperator", "CompoundAssignOperator") and kids:
      op = n.get("opcode", "")
      if op == "=" or (op.endswith("=") and op not in ("==", "!=", "<=", ">=")):
        out.add(_decl_id(kids[0]))
    elif k == "UnaryOperator" and n.get("opcode") in ("++", "--") and kids:
      out.add(_decl_id(kids[0]))
    elif k == "UnaryOperator" and n.get("opcode") == "&" and kids:
      # the address of a const object cannot be used to change it
      if not cxx.qual_type(strip(kids[0]) or {}).lstrip().startswith("const "):
        out.add(_decl_id(kids[0]))
    elif k == "CXXOperatorCallExpr" and len(kids) > 1:
      c = strip(kids[0])
      nm = (c.get("referencedDecl") or {}).get("name", "") if c else ""
      if nm in ASSIGN_OPS:
        out.add(_decl_id(kids[1]))
    elif k == "CXXMemberCallExpr" and kids:
      m = strip(kids[0])
      if m is not None and m.get("kind") == "MemberExpr" and \
          (m.get("name") in cxx.MUTATORS or m.get("name") == "operator[]") and inner(m):
        out.add(_decl_id(inner(m)[0]))
  out.discard(None)
  return out


def _range_for_decls(body):
  """ids of the implicit and loop variables declared by range-for headers."""
  out = set()
  for n in cxx.walk(body):
    if n.get("kind") == "CXXForRangeStmt":
      for c in inner(n)[:-1]:
        if c.get("kind") == "DeclStmt":
          for v in inner(c):
            if v.get("id"):
              out.add(v["id"])
  return out


def _simple_type(t):
  t = t.strip()
  if t.endswith("&") or t.endswith("*") or "iterator" in t:
    return True
  if t.startswith("const "):
    return True
  base = t.replace("unsigned ", "").replace("std::", "")
  return base in ("bool", "int", "long", "size_t", "char", "short", "auto")


def once_bound_env(ix, fn, env=None):
  """decl id -> term of the initialiser, for the once-bound locals of `fn`.

  A local qualifies when it has an initialiser, is not a range-for header
  variable, is a reference (an alias of the designated object), or is a
  const / pointer / iterator / scalar local that is never assigned, never
  incremented, never has its address taken and never is the object of a
  mutating member call - and whose initialiser reads no variable that is
  itself written in the function.  Initialisers are treated as pure
  expressions (the getters they call are const)."""
  env = dict(env or {})
  if fn.body is None:
    return env
  written = written_vars(fn.body)
  skip = _range_for_decls(fn.body)
  for n in cxx.walk(fn.body):
    if n.get("kind") != "VarDecl" or n.get("id") in skip or not n.get("init"):
      continue
    kids = [c for c in inner(n) if c.get("kind")]
    if not kids:
      continue
    ty = cxx.qual_type(n)
    is_ref = ty.rstrip().endswith("&")
    if not is_ref and (n["id"] in written or not _simple_type(ty)):
      continue
    t = term(ix, kids[-1], env)
    u = uncast(t)
    if not isinstance(u, tuple) or u[0] == "?":
      continue
    if _free_vars(t) & written:
      continue      # the initialiser reads something that changes later
    env[n["id"]] = t
  return env


def _free_vars(t):
  out = set()
  todo = [t]
  while todo:
    x = todo.pop()
    if isinstance(x, tuple):
      if len(x) == 3 and x[0] == "var":
        out.add(x[2])
      else:
        todo.extend(x)
  return out


def local_callee(ix, call, files=LOCAL_FILES):
  """Fn of a call that resolves to a function defined (with a body) in the
  solver's own files, else None."""
  if call.get("kind") not in ("CXXMemberCallExpr", "CallExpr"):
    return None
  key, fn, nm, obj = ix.callee(call)
  if fn is None or fn.body is None or fn.file not in files:
    return None
  if call.get("kind") == "CXXMemberCallExpr":
    o = strip(obj) if obj is not None else None
    if o is not None and o.get("kind") != "CXXThisExpr":
      return None      # a method of another object: not inlined
  return fn


def bind_params(ix, fn, call, env):
  args = inner(call)[1:]
  out = {}
  for p, a in zip(fn.params, args):
    if a.get("kind") == "CXXDefaultArgExpr":
      continue
    out[p["id"]] = term(ix, a, env)
  return out


def walk_inlined(ix, fn, env=None, depth=2, skip=(), _stack=()):
  """Yields (node, env, fn) for every node of fn's body and, at the position
  of a call of a file-local helper (not in `skip`), of the helper's body with
  its parameters bound to the argument terms (up to `depth` levels)."""
  env = once_bound_env(ix, fn, env)
  for n in cxx.walk(fn.body):
    yield n, env, fn
    if depth > 0:
      h = local_callee(ix, n)
      if h is not None and h.key not in skip and h.key != fn.key and h.key not in _stack:
        henv = dict(env)
        henv.update(bind_params(ix, h, n, env))
        yield from walk_inlined(ix, h, henv, depth - 1, skip, _stack + (fn.key,))


def call_graph(ix, files=LOCAL_FILES):
  """key -> set of callee keys, over the functions defined in `files`."""
  g = {}
  for f in ix.by_key.values():
    if f.file not in files or f.body is None:
      continue
    out = set()
    for n in cxx.walk(f.body):
      if n.get("kind") in ("CXXMemberCallExpr", "CallExpr"):
        key, callee, _, _ = ix.callee(n)
        if callee is not None:
          out.add(callee.key)
    g[f.key] = out
  return g


def reaching(ix, target_key, files=LOCAL_FILES):
  """Keys of the functions from which `target_key` can be reached (incl. itself)."""
  g = call_graph(ix, files)
  reach = {target_key}
  changed = True
  while changed:
    changed = False
    for k, outs in g.items():
      if k not in reach and outs & reach:
        reach.add(k)
        changed = True
  return reach


def call_parts(t):
  """(callee key/name, [argument terms]) of a call term, else (None, None)."""
  t = uncast(t)
  if not isinstance(t, tuple) or not t:
    return None, None
  if t[0] == "mcall":
    return t[1], [uncast(a) for a in t[3:]]
  if t[0] == "call":
    return t[1], [uncast(a) for a in t[2:]]
  return None, None


def flatten(t, op):
  """Operands of a left/right-nested `op` tree (`||` or `&&`)."""
  t = uncast(t)
  if isinstance(t, tuple) and t and t[0] == op:
    return flatten(t[1], op) + flatten(t[2], op)
  return [t]


def mentions(t, needle):
  return str(needle) in str(t)


def range_for(s):
  """(loop variable decl, term source node of the range, body)."""
  kids = inner(s)
  body = kids[-1]
  loopvar = inner(kids[-2])[0]
  rng_decl = None
  for c in kids[:-1]:
    if c.get("kind") == "DeclStmt" and inner(c) and \
        inner(c)[0].get("name", "").startswith("__range"):
      rng_decl = inner(c)[0]
  if rng_decl is None or not inner(rng_decl):
    return loopvar, None, body
  return loopvar, inner(rng_decl)[-1], body


def var_of(decl):
  return ("var", decl.get("name"), decl["id"])


def path_conditions(ix, fn, node, env):
  """[(condition term, polarity)] of the `if` statements of fn enclosing
  `node`: polarity True when node is in the then-branch."""
  path = []

  def find(n):
    if n is node:
      return True
    for c in inner(n):
      if c.get("kind") and find(c):
        path.append((n, c))
        return True
    return False
  if fn.body is None or not find(fn.body):
    return None
  out = []
  for parent, child in reversed(path):
    if parent.get("kind") != "IfStmt":
      continue
    _, _, cond, then, els = if_parts(parent)
    if child is then:
      out.append((uncast(term(ix, cond, env)), True))
    elif els is not None and child is els:
      out.append((uncast(term(ix, cond, env)), False))
  return out
