"""Helpers shared by rules/c07.py and rules/c08.py (clang JSON AST).

* once-bound locals (reaching definitions for the trivial case): a local with
  an initialiser that is never assigned again is replaced by the term of its
  initialiser, so `const CFGNode* pos = state.pos(); f(pos)` and
  `f(state.pos())` render as the same term;
* inlining of file-local helpers: nodes of the helper's body are visited with
  the helper's parameters bound to the caller's argument terms;
* small predicates on statements (leaves the iteration, boolean literal
  returns) and on terms (call parts, disjuncts / conjuncts).
"""
from sa import cxx
from sa.cxx import term, uncast, inner, strip

ASSIGN_OPS = {"operator=", "operator+=", "operator-=", "operator|=", "operator&=",
              "operator++", "operator--", "operator<<=", "operator>>=",
              "operator*=", "operator/=", "operator^="}
LOCAL_FILES = ("pytype/typegraph/solver.cc", "pytype/typegraph/solver.h")


def line(n):
  return ((n.get("range") or {}).get("begin") or {}).get("line") or 0


def pos(n):
  b = (n.get("range") or {}).get("begin") or {}
  return (line(n), b.get("col", 0))


def stmts(n):
  if n is None:
    return []
  return inner(n) if n.get("kind") == "CompoundStmt" else [n]


def if_parts(s):
  """(init-or-None, var-decl-stmt-or-None, cond, then, else-or-None)."""
  parts = list(inner(s))
  init = parts.pop(0) if s.get("hasInit") else None
  var = parts.pop(0) if s.get("hasVar") else None
  cond, then = parts[0], parts[1]
  els = parts[2] if len(parts) > 2 else None
  return init, var, cond, then, els


def leaves(block):
  """The block always ends by leaving the enclosing iteration / function."""
  st = stmts(block)
  if not st:
    return False
  last = st[-1]
  k = last.get("kind")
  if k in ("ContinueStmt", "BreakStmt", "ReturnStmt"):
    return True
  if k == "CompoundStmt":
    return leaves(last)
  if k == "IfStmt":
    _, _, _, then, els = if_parts(last)
    return els is not None and leaves(then) and leaves(els)
  return False


def bool_literal(e):
  """True / False for a boolean literal expression, else None."""
  e = strip(e) if e is not None else None
  if e is not None and e.get("kind") == "CXXBoolLiteralExpr":
    return bool(e.get("value"))
  return None


def return_value(s):
  """Expression returned by a ReturnStmt (None for `return;`)."""
  kids = [c for c in inner(s) if c.get("kind")]
  return kids[0] if kids else None


def _decl_id(e):
  e = strip(e) if e is not None else None
  if e is not None and e.get("kind") == "DeclRefExpr":
    return (e.get("referencedDecl") or {}).get("id")
  return None


def written_vars(body):
  """ids of local variables / parameters that are (re)assigned or mutated by a
  member call somewhere in `body` (after their declaration)."""
  out = set()
  for n in cxx.walk(body):
    k = n.get("kind")
    kids = inner(n)
    if k in ("BinaryOperator", "CompoundAssignOperator") and kids:
      op = n.get("opcode", "")
      if op == "=" or (op.endswith("=") and op not in ("==", "!=", "<=", ">=")):
        out.add(_decl_id(kids[0]))
    elif k == "UnaryOperator" and n.get("opcode") in ("++", "--") and kids:
      out.add(_decl_id(kids[0]))
    elif k == "UnaryOperator" and n.get("opcode") == "&" and kids:
      # the address of a const object cannot be used to change it
      if not cxx.qual_type(strip(kids[0]) or {}).lstrip().startswith("const "):
        out.add(_decl_id(kids[0]))
    elif k == "CXXOperatorCallExpr" and len(kids) > 1:
      c = strip(kids[0])
      nm = (c.get("referencedDecl") or {}).get("name", "") if c else ""
      if nm in ASSIGN_OPS:
        out.add(_decl_id(kids[1]))
    elif k == "CXXMemberCallExpr" and kids:
      m = strip(kids[0])
      if m is not None and m.get("kind") == "MemberExpr" and \
          (m.get("name") in cxx.MUTATORS or m.get("name") == "operator[]") and inner(m):
        out.add(_decl_id(inner(m)[0]))
  out.discard(None)
  return out


def _range_for_decls(body):
  """ids of the implicit and loop variables declared by range-for headers."""
  out = set()
  for n in cxx.walk(body):
    if n.get("kind") == "CXXForRangeStmt":
      for c in inner(n)[:-1]:
        if c.get("kind") == "DeclStmt":
          for v in inner(c):
            if v.get("id"):
              out.add(v["id"])
  return out


def _simple_type(t):
  t = t.strip()
  if t.endswith("&") or t.endswith("*") or "iterator" in t:
    return True
  if t.startswith("const "):
    return True
  base = t.replace("unsigned ", "").replace("std::", "")
  return base in ("bool", "int", "long", "size_t", "char", "short", "auto")


def once_bound_env(ix, fn, env=None):
  """decl id -> term of the initialiser, for the once-bound locals of `fn`.

  A local qualifies when it has an initialiser, is not a range-for header
  variable, is a reference (an alias of the designated object), or is a
  const / pointer / iterator / scalar local that is never assigned, never
  incremented, never has its address taken and never is the object of a
  mutating member call - and whose initialiser reads no variable that is
  itself written in the function.  Initialisers are treated as pure
  expressions (the getters they call are const)."""
  env = dict(env or {})
  if fn.body is None:
    return env
  written = written_vars(fn.body)
  skip = _range_for_decls(fn.body)
  for n in cxx.walk(fn.body):
    if n.get("kind") != "VarDecl" or n.get("id") in skip or not n.get("init"):
      continue
    kids = [c for c in inner(n) if c.get("kind")]
    if not kids:
      continue
    ty = cxx.qual_type(n)
    is_ref = ty.rstrip().endswith("&")
    if not is_ref and (n["id"] in written or not _simple_type(ty)):
      continue
    t = term(ix, kids[-1], env)
    u = uncast(t)
    if not isinstance(u, tuple) or u[0] == "?":
      continue
    if _free_vars(t) & written:
      continue      # the initialiser reads something that changes later
    env[n["id"]] = t
  return env


def _free_vars(t):
  out = set()
  todo = [t]
  while todo:
    x = todo.pop()
    if isinstance(x, tuple):
      if len(x) == 3 and x[0] == "var":
        out.add(x[2])
      else:
        todo.extend(x)
  return out


def local_callee(ix, call, files=LOCAL_FILES):
  """Fn of a call that resolves to a function defined (with a body) in the
  solver's own files, else None."""
  if call.get("kind") not in ("CXXMemberCallExpr", "CallExpr"):
    return None
  key, fn, nm, obj = ix.callee(call)
  if fn is None or fn.body is None or fn.file not in files:
    return None
  if call.get("kind") == "CXXMemberCallExpr":
    o = strip(obj) if obj is not None else None
    if o is not None and o.get("kind") != "CXXThisExpr":
      return None      # a method of another object: not inlined
  return fn


def bind_params(ix, fn, call, env):
  args = inner(call)[1:]
  out = {}
  for p, a in zip(fn.params, args):
    if a.get("kind") == "CXXDefaultArgExpr":
      continue
    out[p["id"]] = term(ix, a, env)
  return out


def walk_inlined(ix, fn, env=None, depth=2, skip=(), _stack=()):
  """Yields (node, env, fn) for every node of fn's body and, at the position
  of a call of a file-local helper (not in `skip`), of the helper's body with
  its parameters bound to the argument terms (up to `depth` levels)."""
  env = once_bound_env(ix, fn, env)
  for n in cxx.walk(fn.body):
    yield n, env, fn
    if depth > 0:
      h = local_callee(ix, n)
      if h is not None and h.key not in skip and h.key != fn.key and h.key not in _stack:
        henv = dict(env)
        henv.update(bind_params(ix, h, n, env))
        yield from walk_inlined(ix, h, henv, depth - 1, skip, _stack + (fn.key,))


def call_graph(ix, files=LOCAL_FILES):
  """key -> set of callee keys, over the functions defined in `files`."""
  g = {}
  for f in ix.by_key.values():
    if f.file not in files or f.body is None:
      continue
    out = set()
    for n in cxx.walk(f.body):
      if n.get("kind") in ("CXXMemberCallExpr", "CallExpr"):
        key, callee, _, _ = ix.callee(n)
        if callee is not None:
          out.add(callee.key)
    g[f.key] = out
  return g


def reaching(ix, target_key, files=LOCAL_FILES):
  """Keys of the functions from which `target_key` can be reached (incl. itself)."""
  g = call_graph(ix, files)
  reach = {target_key}
  changed = True
  while changed:
    changed = False
    for k, outs in g.items():
      if k not in reach and outs & reach:
        reach.add(k)
        changed = True
  return reach


def call_parts(t):
  """(callee key/name, [argument terms]) of a call term, else (None, None)."""
  t = uncast(t)
  if not isinstance(t, tuple) or not t:
    return None, None
  if t[0] == "mcall":
    return t[1], [uncast(a) for a in t[3:]]
  if t[0] == "call":
    return t[1], [uncast(a) for a in t[2:]]
  return None, None


def flatten(t, op):
  """Operands of a left/right-nested `op` tree (`||` or `&&`)."""
  t = uncast(t)
  if isinstance(t, tuple) and t and t[0] == op:
    return flatten(t[1], op) + flatten(t[2], op)
  return [t]


def mentions(t, needle):
  return str(needle) in str(t)


def range_for(s):
  """(loop variable decl, term source node of the range, body)."""
  kids = inner(s)
  body = kids[-1]
  loopvar = inner(kids[-2])[0]
  rng_decl = None
  for c in kids[:-1]:
    if c.get("kind") == "DeclStmt" and inner(c) and \
        inner(c)[0].get("name", "").startswith("__range"):
      rng_decl = inner(c)[0]
  if rng_decl is None or not inner(rng_decl):
    return loopvar, None, body
  return loopvar, inner(rng_decl)[-1], body


def var_of(decl):
  return ("var", decl.get("name"), decl["id"])


def path_conditions(ix, fn, node, env):
  """[(condition term, polarity)] of the `if` statements of fn enclosing
  `node`: polarity True when node is in the then-branch."""
  path = []

  def find(n):
    if n is node:
      return True
    for c in inner(n):
      if c.get("kind") and find(c):
        path.append((n, c))
        return True
    return False
  if fn.body is None or not find(fn.body):
    return None
  out = []
  for parent, child in reversed(path):
    if parent.get("kind") != "IfStmt":
      continue
    _, _, cond, then, els = if_parts(parent)
    if child is then:
      out.append((uncast(term(ix, cond, env)), True))
    elif els is not None and child is els:
      out.append((uncast(term(ix, cond, env)), False))
  return out


# -- path enumeration over the statement structure (R7.7, R9.4) ---------------------
#
# A function body is executed symbolically: `if` conditions are split into path
# alternatives (`&&`, `||`, `!`), a range-for binds its variable to "an element
# of C", break / continue / return end a path.  The facts known on a path are
# the (condition term, truth value) pairs of the branches taken.

def subterms(t):
  if isinstance(t, tuple):
    yield t
    for x in t:
      yield from subterms(x)


def subst(t, mapping):
  """Simultaneous substitution of ("this",) (key "this") and of
  ("var", name, id) leaves (key id)."""
  if not isinstance(t, tuple) or not t:
    return t
  if t == ("this",):
    return mapping.get("this", t)
  if t[0] == "var" and len(t) == 3:
    return mapping.get(t[2], t)
  return tuple(subst(x, mapping) for x in t)


def getter_field(ix, key):
  """"Rec::field" when `key` names a getter `T f() const { return field_; }`."""
  fn = ix.by_key.get(key) if isinstance(key, str) else None
  if fn is None or fn.body is None or fn.params:
    return None
  body = [s for s in inner(fn.body) if s.get("kind") != "NullStmt"]
  if len(body) != 1 or body[0].get("kind") != "ReturnStmt" or not inner(body[0]):
    return None
  t = uncast(term(ix, inner(body[0])[0]))
  if isinstance(t, tuple) and t[0] == "field" and t[2] == ("this",):
    return t[1]
  return None


def norm(ix, t, smart=False):
  """Casts stripped, `*p` / `&x` dropped (pointer and pointee designate the
  same object), const getters replaced by the field they return; with
  `smart`, `p.get()` / `p->` / `*p` of a smart pointer designate p."""
  t = uncast(t)
  if not isinstance(t, tuple) or not t:
    return t
  if t[0] in ("*", "&") and len(t) == 2:
    return norm(ix, t[1], smart)
  if smart and t[0] == "opcall" and t[1] in ("operator->", "operator*") and len(t) == 3:
    return norm(ix, t[2], smart)
  if smart and t[0] == "mcall" and t[1] == "get" and len(t) == 3:
    return norm(ix, t[2], smart)
  if t[0] == "mcall" and len(t) == 3:
    f = getter_field(ix, t[1])
    if f:
      return ("field", f, norm(ix, t[2], smart))
  return tuple(norm(ix, x, smart) if isinstance(x, tuple) else x for x in t)


def split(t, pol):
  """Path alternatives on which `t` has truth value `pol`: a list of fact
  lists [(term, truth value), ...]; `a != b` is recorded as `a == b` false."""
  t = uncast(t)
  if isinstance(t, tuple) and t:
    if t[0] == "!" and len(t) == 2:
      return split(t[1], not pol)
    if t[0] in ("&&", "||") and len(t) == 3:
      if (t[0] == "&&") == pol:      # both operands decide
        return [a + b for a in split(t[1], pol) for b in split(t[2], pol)]
      return split(t[1], pol) + [a + b for a in split(t[1], not pol)
                                 for b in split(t[2], pol)]
    if t[0] == "!=" and len(t) == 3:
      return [[(("==", t[1], t[2]), not pol)]]
    if t[0] == "opcall" and t[1] == "operator!=" and len(t) == 4:
      return [[(("opcall", "operator==", t[2], t[3]), not pol)]]
    if t[0] == "bool":
      return [[]] if t[1] == pol else []
  return [[(t, pol)]]


def show(t):
  """Readable rendering of a term (no decl ids: they differ from run to run)."""
  if not isinstance(t, tuple) or not t:
    return str(t)
  if t == ("this",):
    return "this"
  if t[0] == "var" and len(t) == 3:
    return str(t[1])
  if t[0] == "field" and len(t) == 3:
    return f"{show(t[2])}->{t[1].split('::')[-1]}"
  if t[0] == "int":
    return str(t[1])
  if t[0] == "bool":
    return "true" if t[1] else "false"
  if t[0] == "mcall" and len(t) >= 3:
    return (f"{show(t[2])}.{str(t[1]).split('(')[0].split('::')[-1]}"
            f"({', '.join(show(x) for x in t[3:])})")
  if t[0] in ("call", "opcall") and len(t) >= 2:
    return (f"{str(t[1]).split('(')[0].replace('?::', '')}"
            f"({', '.join(show(x) for x in t[2:])})")
  if t[0] == "index" and len(t) == 3:
    return f"{show(t[1])}[{show(t[2])}]"
  if len(t) == 3 and isinstance(t[0], str):
    return f"({show(t[1])} {t[0]} {show(t[2])})"
  if len(t) == 2 and isinstance(t[0], str):
    return f"{t[0]}{show(t[1])}"
  return "(" + " ".join(show(x) for x in t) + ")"


def show_facts(facts, elems=None):
  out = [f"{'' if pol else 'not '}{show(t)}" for t, pol in facts]
  if elems:
    used = {x[2]: x[1] for t, _ in facts for x in subterms(t)
            if x and x[0] == "var" and len(x) == 3 and x[2] in elems}
    out += [f"{nm} ranges over {show(elems[i])}" for i, nm in sorted(used.items())]
  return out


class Paths:
  """Symbolic execution of one function body.

  exits:  (kind "return"/"end", node, facts, closed, value term or None)
  visits: (call node, facts, closed) for every call node accepted by `watch`
  elems:  range-for variable id -> term of the container it ranges over
  `closes(event)` marks the call events after which a path counts as closed;
  `mapping` substitutes this / parameters (a helper seen from its caller)."""

  def __init__(self, ix, fn, closes=None, mapping=None, watch=None, smart=False):
    from sa.core import AnalysisError
    self._err = AnalysisError
    self.ix, self.fn = ix, fn
    self.closes = closes or (lambda ev: False)
    self.watch = watch
    self.smart = smart
    self.mapping = mapping or {}
    self.env = once_bound_env(ix, fn)
    self.written = written_vars(fn.body) if fn.body is not None else set()
    self.exits = []
    self.visits = []
    self.elems = {}
    out = self._block(stmts(fn.body), [((), False)], None)
    for facts, closed in out:
      self.exits.append(("end", fn.node, facts, closed, None))

  def t(self, e):
    return norm(self.ix, subst(term(self.ix, e, self.env), self.mapping), self.smart)

  def _closing(self, s):
    for ev in cxx.events(self.ix, s, {}):
      if ev.kind == "call" and not ev.cond and self.closes(ev):
        return True
    return False

  def _watch(self, s, states):
    if self.watch is None:
      return
    for n in cxx.walk(s):
      if n.get("kind") in ("CXXMemberCallExpr", "CallExpr", "CXXOperatorCallExpr") \
          and self.watch(n):
        for facts, closed in states:
          self.visits.append((n, facts, closed))

  def _block(self, sts, states, loop):
    for s in sts:
      if not states:
        break
      states = self._stmt(s, states, loop)
    return states

  def _stmt(self, s, states, loop):
    k = s.get("kind")
    q = self.fn.qual
    if k is None or k == "NullStmt":
      return states
    if k == "CompoundStmt":
      return self._block(inner(s), states, loop)
    if k == "ReturnStmt":
      v = return_value(s)
      vt = self.t(v) if v is not None else None
      closing = v is not None and self._closing(v)
      if v is not None:
        self._watch(v, states)
      for facts, closed in states:
        self.exits.append(("return", s, facts, closed or closing, vt))
      return []
    if k == "BreakStmt":
      if loop is None:
        raise self._err(f"{q}: break outside a loop")
      loop["breaks"].extend(states)
      return []
    if k == "ContinueStmt":
      return []
    if k == "IfStmt":
      init, var, cond, then, els = if_parts(s)
      if init is not None or var is not None:
        raise self._err(f"{q}: if-with-initialiser at line {line(s)} not modelled")
      closing = self._closing(cond)
      self._watch(cond, states)
      ct = self.t(cond)
      out = []
      for pol, branch in ((True, then), (False, els)):
        alts = split(ct, pol)
        sts = [(facts + tuple(a), closed or closing) for facts, closed in states for a in alts]
        out += self._block(stmts(branch), sts, loop) if branch is not None else sts
      return out
    if k in ("CXXForRangeStmt", "ForStmt", "WhileStmt", "DoStmt"):
      body = inner(s)[0] if k == "DoStmt" else inner(s)[-1]
      if k == "CXXForRangeStmt":
        lv, rng, _ = range_for(s)
        if rng is None:
          raise self._err(f"{q}: range-for without a range")
        self.elems[lv["id"]] = self.t(rng)
      if any(self._closing(c) for c in inner(s) if c.get("kind")):
        raise self._err(f"{q}: a closing call inside a loop (line {line(s)}); "
                        "idiom not understood")
      frame = {"breaks": []}
      self._block(stmts(body), list(states), frame)
      # zero iterations / all iterations completed: nothing learnt
      return list(states) + frame["breaks"]
    if k in ("SwitchStmt", "CXXTryStmt", "GotoStmt", "LabelStmt"):
      if any(x.get("kind") in ("ReturnStmt", "BreakStmt", "ContinueStmt", "GotoStmt")
             for x in cxx.walk(s)) or self._closing(s):
        raise self._err(f"{q}: {k} at line {line(s)} not modelled")
      self._watch(s, states)
      return states
    # declaration / expression statement
    self._watch(s, states)
    if self._closing(s):
      return [(facts, True) for facts, _ in states]
    return states


def opaque_fact(paths, fact):
  """Why the fact cannot be interpreted (a local assigned more than once, an
  expression clang's AST does not resolve), else None."""
  t, _ = fact
  for x in subterms(t):
    if not x:
      continue
    if x[0] == "var" and len(x) == 3 and x[2] in paths.written and x[2] not in paths.elems:
      return f"local `{x[1]}` is assigned more than once (a flag)"
    if x[0] == "?":
      return f"expression of kind {x[1]}"
    if x[0] == "call" and str(x[1]).startswith("?::") and \
        not str(x[1]).endswith(("::find", "::count")):
      return f"call of {x[1]}"
  return None
