"""Small-scope concrete evaluation of a pure, string/collection-manipulating
Python function taken from /repo *as an AST* (nothing is imported or run from
/repo; the host interpreter only supplies the semantics of str/list/dict
methods, slicing and arithmetic, which is exact).

Used by rules that state a relational specification of a helper ("the result
is the table entry of the longest matching prefix plus the whole remainder")
and decide it exhaustively on a small scope of inputs.  Everything outside
the fragment raises `Outside` (the rule turns that into an AnalysisError);
nothing is ever guessed.

Values: str, int, bool, None, tuple, list, dict, set, `Obj` (an opaque record
with attributes and optional methods supplied by the rule's world model) and
`Sym` (a dotted name the function mentions but the world does not define:
usable as a class in isinstance() and as an exception/record constructor).
"""
from __future__ import annotations

import ast


class Outside(Exception):
  """The function uses a construct outside the evaluated fragment."""


class Raised(Exception):
  """The evaluated function raised (an exception of class `name`)."""

  def __init__(self, name, args=()):
    super().__init__(name)
    self.name = name
    self.args_ = args


class Diverged(Exception):
  """Step budget exhausted: the function does not terminate on this input."""


class Sym:
  def __init__(self, name):
    self.name = name

  def __repr__(self):
    return f"Sym({self.name})"

  def __eq__(self, other):
    return isinstance(other, Sym) and other.name == self.name

  def __hash__(self):
    return hash(("Sym", self.name))


class Obj:
  """Opaque record.  `kinds`: dotted class names it is an instance of."""

  def __init__(self, kinds=(), attrs=None, methods=None, structural=False,
               cls_methods=None):
    self.kinds = tuple(kinds)
    self.attrs = dict(attrs or {})
    self.methods = dict(methods or {})
    # structural: equality/hash by class and attribute values (a frozen record
    # such as a msgspec Struct); otherwise identity
    self.structural = structural
    # name -> ast.FunctionDef: methods of the object's class that are
    # evaluated from their AST with `self` bound to this object
    self.cls_methods = dict(cls_methods or {})

  def __repr__(self):
    return f"Obj({'|'.join(self.kinds)}, {self.attrs})"

  def _key(self):
    return (self.kinds, tuple(sorted((k, _freeze(v)) for k, v in self.attrs.items())))

  def __eq__(self, other):
    if self is other:
      return True
    if not (isinstance(other, Obj) and self.structural and other.structural):
      return False
    return self._key() == other._key()

  def __ne__(self, other):
    return not self.__eq__(other)

  def __hash__(self):
    return hash(self._key()) if self.structural else id(self)


def _freeze(v):
  if isinstance(v, (list, tuple)):
    return tuple(_freeze(x) for x in v)
  if isinstance(v, dict):
    return tuple(sorted((k, _freeze(x)) for k, x in v.items()))
  if isinstance(v, (set, frozenset)):
    return frozenset(_freeze(x) for x in v)
  if isinstance(v, Obj):
    return v._key() if v.structural else id(v)
  return v


def replaceable(kinds, **attrs):
  """An Obj with a msgspec-style `.Replace(**changes)` method."""
  o = Obj(kinds, attrs)

  def _replace(**kw):
    unknown = set(kw) - set(o.attrs)
    if unknown:
      raise Raised("TypeError", (f"Replace: unknown fields {sorted(unknown)}",))
    n = replaceable(kinds, **{**o.attrs, **kw})
    n.attrs_replaced = dict(kw)
    return n
  o.methods["Replace"] = _replace
  return o


_STR_METHODS = {
    "split", "rsplit", "partition", "rpartition", "join", "startswith",
    "endswith", "strip", "lstrip", "rstrip", "removeprefix", "removesuffix",
    "replace", "lower", "upper", "find", "rfind", "index", "rindex", "count",
    "format", "isidentifier", "isdigit", "splitlines", "title", "capitalize"}
_METHODS = {
    str: _STR_METHODS,
    dict: {"get", "keys", "values", "items", "setdefault", "pop", "update", "copy"},
    list: {"append", "insert", "pop", "extend", "index", "count", "reverse",
           "copy", "sort", "remove"},
    tuple: {"index", "count"},
    set: {"add", "discard", "update", "copy", "union", "intersection",
          "difference", "remove"},
    frozenset: {"union", "intersection", "difference", "copy"},
}
_BUILTINS = {
    "len": len, "str": str, "dict": dict, "list": list, "tuple": tuple,
    "range": range, "reversed": reversed, "enumerate": enumerate, "bool": bool,
    "int": int, "min": min, "max": max, "sorted": sorted, "zip": zip,
    "any": any, "all": all, "set": set, "frozenset": frozenset, "sum": sum,
    "repr": repr, "iter": iter, "next": next, "abs": abs,
}
_HOST_ERRORS = (KeyError, IndexError, ValueError, TypeError, AttributeError,
                StopIteration, ZeroDivisionError)


class _Return(Exception):
  def __init__(self, value):
    super().__init__()
    self.value = value


class _Break(Exception):
  pass


class _Continue(Exception):
  pass


class Interp:
  """Evaluates one function definition on concrete arguments."""

  def __init__(self, fn, globals_=None, max_steps=20000, resolver=None):
    """`resolver(dotted_name, args, kwargs)` is asked first when the function
    calls a dotted name the world does not define (`mro.MergeSequences(..)`,
    `pytd.TemplateItem(..)`); it returns the result or NotImplemented (then
    the call builds an opaque structural record of that class)."""
    self.resolver = resolver
    if any(isinstance(n, (ast.Yield, ast.YieldFrom, ast.Await))
           for n in ast.walk(fn)):
      raise Outside(f"{fn.name} is a generator/coroutine")
    self.fn = fn
    self.globals = dict(globals_ or {})
    self.max_steps = max_steps
    self.steps = 0

  # -- entry ------------------------------------------------------------------
  def call(self, args):
    args = dict(args)
    a = self.fn.args
    env = {}
    params = a.posonlyargs + a.args
    defaults = [None] * (len(params) - len(a.defaults)) + list(a.defaults)
    for p, d in zip(params, defaults):
      if p.arg in args:
        env[p.arg] = args.pop(p.arg)
      elif d is not None:
        env[p.arg] = self.expr(d, {})
      else:
        raise Outside(f"no value for parameter {p.arg}")
    for p, d in zip(a.kwonlyargs, a.kw_defaults):
      if p.arg in args:
        env[p.arg] = args.pop(p.arg)
      elif d is not None:
        env[p.arg] = self.expr(d, {})
      else:
        raise Outside(f"no value for parameter {p.arg}")
    if args or a.vararg or a.kwarg:
      raise Outside("argument mapping not understood")
    self.steps = 0
    try:
      self.block(self.fn.body, env)
    except _Return as r:
      return r.value
    return None

  def tick(self):
    self.steps += 1
    if self.steps > self.max_steps:
      raise Diverged()

  # -- statements ---------------------------------------------------------------
  def block(self, stmts, env):
    for s in stmts:
      self.stmt(s, env)

  def stmt(self, s, env):
    self.tick()
    if isinstance(s, ast.Expr):
      if not isinstance(s.value, ast.Constant):
        self.expr(s.value, env)
    elif isinstance(s, ast.Assign):
      v = self.expr(s.value, env)
      for t in s.targets:
        self.assign(t, v, env)
    elif isinstance(s, ast.AnnAssign):
      if s.value is not None:
        self.assign(s.target, self.expr(s.value, env), env)
    elif isinstance(s, ast.AugAssign):
      cur = self.expr(_as_load(s.target), env)
      v = self.binop(s.op, cur, self.expr(s.value, env))
      self.assign(s.target, v, env)
    elif isinstance(s, ast.Return):
      raise _Return(None if s.value is None else self.expr(s.value, env))
    elif isinstance(s, ast.If):
      self.block(s.body if self.truth(self.expr(s.test, env)) else s.orelse, env)
    elif isinstance(s, ast.While):
      broke = False
      while self.truth(self.expr(s.test, env)):
        self.tick()
        try:
          self.block(s.body, env)
        except _Break:
          broke = True
          break
        except _Continue:
          continue
      if not broke:
        self.block(s.orelse, env)
    elif isinstance(s, ast.For):
      broke = False
      for item in self.iterate(self.expr(s.iter, env)):
        self.tick()
        self.assign(s.target, item, env)
        try:
          self.block(s.body, env)
        except _Break:
          broke = True
          break
        except _Continue:
          continue
      if not broke:
        self.block(s.orelse, env)
    elif isinstance(s, ast.Break):
      raise _Break()
    elif isinstance(s, ast.Continue):
      raise _Continue()
    elif isinstance(s, ast.Pass):
      pass
    elif isinstance(s, ast.Raise):
      if s.exc is None:
        raise Outside("bare raise")
      e = self.expr(s.exc, env)
      if isinstance(e, Sym):
        raise Raised(e.name.rsplit(".", 1)[-1])
      if isinstance(e, Obj) and e.kinds:
        raise Raised(e.kinds[0].rsplit(".", 1)[-1], e.attrs.get("args", ()))
      raise Outside(f"raise of {e!r}")
    elif isinstance(s, ast.Assert):
      if not self.truth(self.expr(s.test, env)):
        raise Raised("AssertionError")
    elif isinstance(s, ast.Try):
      self.try_(s, env)
    elif isinstance(s, ast.Delete):
      for t in s.targets:
        if isinstance(t, ast.Subscript):
          c = self.expr(t.value, env)
          k = self.expr(t.slice, env)
          try:
            del c[k]
          except _HOST_ERRORS as e:
            raise Raised(type(e).__name__) from e
        elif isinstance(t, ast.Name):
          env.pop(t.id, None)
        else:
          raise Outside("del target")
    else:
      raise Outside(f"statement {type(s).__name__}")

  def try_(self, s, env):
    try:
      try:
        self.block(s.body, env)
      except Raised as r:
        for h in s.handlers:
          names = []
          if h.type is None:
            names = None
          else:
            ts = h.type.elts if isinstance(h.type, ast.Tuple) else [h.type]
            for t in ts:
              d = _dotted(t)
              if d is None:
                raise Outside("except clause")
              names.append(d.rsplit(".", 1)[-1])
          if names is None or r.name in names or "Exception" in names or \
              (r.name in ("KeyError", "IndexError") and "LookupError" in names):
            if h.name:
              env[h.name] = Obj((r.name,), {"args": r.args_})
            self.block(h.body, env)
            break
        else:
          raise
      else:
        self.block(s.orelse, env)
    finally:
      self.block(s.finalbody, env)

  def assign(self, t, v, env):
    if isinstance(t, ast.Name):
      env[t.id] = v
    elif isinstance(t, (ast.Tuple, ast.List)):
      if any(isinstance(e, ast.Starred) for e in t.elts):
        raise Outside("starred unpacking")
      vals = list(self.iterate(v))
      if len(vals) != len(t.elts):
        raise Raised("ValueError", ("unpack",))
      for e, x in zip(t.elts, vals):
        self.assign(e, x, env)
    elif isinstance(t, ast.Subscript):
      c = self.expr(t.value, env)
      if not isinstance(c, (dict, list)):
        raise Outside("subscript store into a non-local container")
      try:
        c[self.expr(t.slice, env)] = v
      except _HOST_ERRORS as e:
        raise Raised(type(e).__name__) from e
    elif isinstance(t, ast.Attribute):
      o = self.expr(t.value, env)
      if not isinstance(o, Obj) or o.structural:
        raise Outside("attribute store on a value that is not a mutable record")
      o.attrs[t.attr] = v
    else:
      raise Outside(f"assignment target {type(t).__name__}")

  def iterate(self, v):
    if isinstance(v, (str, tuple, list, dict, set, frozenset, range)) or \
        type(v).__name__ in ("reversed", "enumerate", "zip", "dict_keys",
                             "dict_values", "dict_items", "list_iterator",
                             "list_reverseiterator", "generator", "range_iterator",
                             "tuple_iterator", "str_ascii_iterator", "map"):
      return v
    raise Outside(f"iteration over {type(v).__name__}")

  @staticmethod
  def truth(v):
    if isinstance(v, (Obj, Sym)):
      return True
    return bool(v)

  # -- expressions --------------------------------------------------------------
  def expr(self, e, env):
    self.tick()
    if isinstance(e, ast.Constant):
      return e.value
    if isinstance(e, ast.Name):
      if e.id in env:
        return env[e.id]
      if e.id in self.globals:
        return self.globals[e.id]
      if e.id in _BUILTINS:
        return _BUILTINS[e.id]
      if e.id == "isinstance":
        return self._isinstance
      if e.id == "getattr":
        return self._getattr3
      return Sym(e.id)
    if isinstance(e, ast.Attribute):
      v = self.expr(e.value, env)
      return self.getattr_(v, e.attr)
    if isinstance(e, ast.Call):
      f = self.expr(e.func, env)
      if any(isinstance(a, ast.Starred) for a in e.args) or \
          any(k.arg is None for k in e.keywords):
        raise Outside("star arguments")
      args = [self.expr(a, env) for a in e.args]
      kw = {k.arg: self.expr(k.value, env) for k in e.keywords}
      if isinstance(f, Sym):
        if self.resolver is not None:
          try:
            r = self.resolver(f.name, args, kw)
          except _HOST_ERRORS as ex:
            raise Raised(type(ex).__name__, ex.args) from ex
          if r is not NotImplemented:
            return r
        return Obj((f.name,), {"args": tuple(args), **kw}, structural=True)
      if not callable(f):
        raise Outside(f"call of {f!r}")
      try:
        return f(*args, **kw)
      except _HOST_ERRORS as ex:
        raise Raised(type(ex).__name__, ex.args) from ex
    if isinstance(e, ast.Subscript):
      v = self.expr(e.value, env)
      if isinstance(v, (Obj, Sym)):
        raise Outside("subscript of an opaque value")
      if isinstance(e.slice, ast.Slice):
        sl = slice(*(None if x is None else self.expr(x, env)
                     for x in (e.slice.lower, e.slice.upper, e.slice.step)))
        try:
          return v[sl]
        except _HOST_ERRORS as ex:
          raise Raised(type(ex).__name__) from ex
      k = self.expr(e.slice, env)
      try:
        return v[k]
      except _HOST_ERRORS as ex:
        raise Raised(type(ex).__name__) from ex
    if isinstance(e, ast.Compare):
      left = self.expr(e.left, env)
      for op, rn in zip(e.ops, e.comparators):
        right = self.expr(rn, env)
        if not self.compare(op, left, right):
          return False
        left = right
      return True
    if isinstance(e, ast.BoolOp):
      v = None
      for x in e.values:
        v = self.expr(x, env)
        if isinstance(e.op, ast.And) and not self.truth(v):
          return v
        if isinstance(e.op, ast.Or) and self.truth(v):
          return v
      return v
    if isinstance(e, ast.UnaryOp):
      v = self.expr(e.operand, env)
      if isinstance(e.op, ast.Not):
        return not self.truth(v)
      if isinstance(e.op, ast.USub) and isinstance(v, int):
        return -v
      if isinstance(e.op, ast.UAdd) and isinstance(v, int):
        return v
      raise Outside("unary operator")
    if isinstance(e, ast.BinOp):
      return self.binop(e.op, self.expr(e.left, env), self.expr(e.right, env))
    if isinstance(e, ast.IfExp):
      return self.expr(e.body if self.truth(self.expr(e.test, env)) else e.orelse, env)
    if isinstance(e, ast.JoinedStr):
      out = ""
      for v in e.values:
        if isinstance(v, ast.Constant):
          out += str(v.value)
        elif isinstance(v, ast.FormattedValue) and v.format_spec is None:
          x = self.expr(v.value, env)
          if isinstance(x, (Obj, Sym)):
            raise Outside("formatting an opaque value")
          out += repr(x) if v.conversion == ord("r") else str(x)
        else:
          raise Outside("f-string format spec")
      return out
    if isinstance(e, ast.NamedExpr):
      v = self.expr(e.value, env)
      self.assign(e.target, v, env)
      return v
    if isinstance(e, ast.Tuple):
      return tuple(self._elts(e.elts, env))
    if isinstance(e, ast.List):
      return list(self._elts(e.elts, env))
    if isinstance(e, ast.Set):
      return set(self._elts(e.elts, env))
    if isinstance(e, ast.Dict):
      out = {}
      for k, v in zip(e.keys, e.values):
        if k is None:
          out.update(self.expr(v, env))
        else:
          out[self.expr(k, env)] = self.expr(v, env)
      return out
    if isinstance(e, (ast.ListComp, ast.SetComp, ast.GeneratorExp)):
      items = list(self._comp(e.generators, env, lambda en: self.expr(e.elt, en)))
      return set(items) if isinstance(e, ast.SetComp) else items
    if isinstance(e, ast.DictComp):
      return dict(self._comp(
          e.generators, env,
          lambda en: (self.expr(e.key, en), self.expr(e.value, en))))
    raise Outside(f"expression {type(e).__name__}")

  def _elts(self, elts, env):
    for x in elts:
      if isinstance(x, ast.Starred):
        yield from self.iterate(self.expr(x.value, env))
      else:
        yield self.expr(x, env)

  def _comp(self, gens, env, leaf):
    def rec(i, en):
      if i == len(gens):
        yield leaf(en)
        return
      g = gens[i]
      if g.is_async:
        raise Outside("async comprehension")
      for item in self.iterate(self.expr(g.iter, en)):
        self.tick()
        en2 = dict(en)
        self.assign(g.target, item, en2)
        if all(self.truth(self.expr(c, en2)) for c in g.ifs):
          yield from rec(i + 1, en2)
    return rec(0, dict(env))

  def getattr_(self, v, attr):
    if isinstance(v, Obj):
      if attr in v.attrs:
        return v.attrs[attr]
      if attr in v.methods:
        return v.methods[attr]
      if attr in v.cls_methods:
        fn = v.cls_methods[attr]
        first = (fn.args.posonlyargs + fn.args.args)[0].arg
        names = [p.arg for p in (fn.args.posonlyargs + fn.args.args)[1:]]

        def bound(*a, **kw):
          if len(a) > len(names):
            raise Outside(f"call of {attr} with too many arguments")
          return self.sub(fn).call({first: v, **dict(zip(names, a)), **kw})
        return bound
      raise Outside(f"attribute {attr!r} of {v!r} is not modelled")
    if isinstance(v, Sym):
      return Sym(f"{v.name}.{attr}")
    for ty, names in _METHODS.items():
      if isinstance(v, ty) and not isinstance(v, bool):
        if attr in names:
          return getattr(v, attr)
        raise Outside(f"{ty.__name__}.{attr} is outside the fragment")
    raise Outside(f"attribute {attr!r} of {type(v).__name__}")

  def _getattr3(self, v, attr, *default):
    try:
      return self.getattr_(v, attr)
    except Outside:
      if default and isinstance(v, Obj):
        return default[0]   # the world does not give the object that attribute
      raise

  def sub(self, fn):
    """An evaluator for another function sharing this one's world."""
    it = Interp(fn, self.globals, self.max_steps, self.resolver)
    return it

  @staticmethod
  def _isinstance(v, cls):
    classes = cls if isinstance(cls, tuple) else (cls,)
    host = {"str": str, "int": int, "tuple": tuple, "list": list, "dict": dict,
            "bool": bool, "set": set, "frozenset": frozenset}
    for c in classes:
      if isinstance(c, Sym):
        if isinstance(v, Obj) and any(
            k == c.name or k.rsplit(".", 1)[-1] == c.name.rsplit(".", 1)[-1]
            for k in v.kinds):
          return True
      elif isinstance(c, type):
        if isinstance(v, c):
          return True
      else:
        raise Outside("isinstance against a non-class")
    del host
    return False

  def compare(self, op, a, b):
    try:
      if isinstance(op, ast.Eq):
        return a == b
      if isinstance(op, ast.NotEq):
        return a != b
      if isinstance(op, ast.Is):
        return a is b
      if isinstance(op, ast.IsNot):
        return a is not b
      if isinstance(op, (ast.In, ast.NotIn)):
        if isinstance(b, (Obj, Sym)):
          raise Outside("membership in an opaque value")
        r = a in b
        return r if isinstance(op, ast.In) else not r
      if isinstance(op, ast.Lt):
        return a < b
      if isinstance(op, ast.LtE):
        return a <= b
      if isinstance(op, ast.Gt):
        return a > b
      if isinstance(op, ast.GtE):
        return a >= b
    except _HOST_ERRORS as ex:
      raise Raised(type(ex).__name__) from ex
    raise Outside("comparison operator")

  def binop(self, op, a, b):
    if isinstance(a, (Obj, Sym)) or isinstance(b, (Obj, Sym)):
      raise Outside("arithmetic on an opaque value")
    try:
      if isinstance(op, ast.Add):
        return a + b
      if isinstance(op, ast.Sub):
        return a - b
      if isinstance(op, ast.Mult):
        return a * b
      if isinstance(op, ast.Mod):
        return a % b
      if isinstance(op, ast.FloorDiv):
        return a // b
      if isinstance(op, ast.BitOr):
        return a | b
      if isinstance(op, ast.BitAnd):
        return a & b
    except _HOST_ERRORS as ex:
      raise Raised(type(ex).__name__) from ex
    raise Outside("binary operator")


def _dotted(node):
  parts = []
  while isinstance(node, ast.Attribute):
    parts.append(node.attr)
    node = node.value
  if isinstance(node, ast.Name):
    parts.append(node.id)
    return ".".join(reversed(parts))
  return None


def _as_load(t):
  import copy
  t2 = copy.deepcopy(t)
  for n in ast.walk(t2):
    if hasattr(n, "ctx"):
      n.ctx = ast.Load()
  return t2


def strings_in(v, seen=None):
  """All strings reachable in a result value (tuples, lists, dict values,
  Obj attributes)."""
  seen = seen if seen is not None else set()
  if id(v) in seen:
    return []
  seen.add(id(v))
  if isinstance(v, str):
    return [v]
  if isinstance(v, (tuple, list, set, frozenset)):
    return [s for x in v for s in strings_in(x, seen)]
  if isinstance(v, dict):
    return [s for x in v.values() for s in strings_in(x, seen)]
  if isinstance(v, Obj):
    return [s for x in v.attrs.values() for s in strings_in(x, seen)]
  return []
