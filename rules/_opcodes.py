"""Shared reader for pytype/pyc/opcodes.py (used by C15 and C16).

Nothing from /repo is imported: the opcode-class table, the flag constants and
the flag helper classmethods are read from the AST.  `for_python_version`
overrides are *interpreted* for each supported version (the only idiom
understood is `if version <cmp> (3, N): class X(..): ...; return X` followed
by `return cls`; anything else raises AnalysisError).
"""
from __future__ import annotations

import ast
import dataclasses

from sa.core import AnalysisError
from sa.pyindex import get_module, dotted, src, fold, Unfoldable

_CMP = {ast.Lt: lambda a, b: a < b, ast.LtE: lambda a, b: a <= b,
        ast.Gt: lambda a, b: a > b, ast.GtE: lambda a, b: a >= b,
        ast.Eq: lambda a, b: a == b, ast.NotEq: lambda a, b: a != b}


def eval_test(e, env):
  """Evaluates a version test (comparisons of foldables, and/or/not)."""
  if isinstance(e, ast.Compare):
    vals = [fold(e.left, env=env)] + [fold(c, env=env) for c in e.comparators]
    for op, a, b in zip(e.ops, vals, vals[1:]):
      if type(op) not in _CMP:
        raise Unfoldable(type(op).__name__)
      try:
        if not _CMP[type(op)](a, b):
          return False
      except TypeError as err:
        raise Unfoldable(str(err)) from err
    return True
  if isinstance(e, ast.BoolOp):
    vals = [eval_test(v, env) for v in e.values]
    return all(vals) if isinstance(e.op, ast.And) else any(vals)
  if isinstance(e, ast.UnaryOp) and isinstance(e.op, ast.Not):
    return not eval_test(e.operand, env)
  raise Unfoldable(type(e).__name__)


OPCODES = "pytype/pyc/opcodes.py"
VM = "pytype/vm.py"
VERSIONS = ((3, 8), (3, 9), (3, 10), (3, 11), (3, 12))
ROOT = "Opcode"
ARG_ROOT = "OpcodeWithArg"


@dataclasses.dataclass
class OpClass:
  name: str            # run-time __name__ (what `op.name` returns)
  flags: int
  with_arg_base: bool  # OpcodeWithArg in the base chain (has arg/argval slots)
  line: int
  versioned: bool = False

  def has(self, bit):
    return bool(self.flags & bit)


class OpcodeTable:
  """Flag constants, classes (per version) and flag helpers of opcodes.py."""

  def __init__(self, ctx):
    self.mod = mod = get_module(ctx, OPCODES)
    # -- flag constants: ALLCAPS module-level ints defined before class Opcode
    root = mod.cls(ROOT)
    self.flag_lines = {}
    self.consts = {}
    for st in mod.tree.body:
      if st is root:
        break
      if isinstance(st, ast.Assign) and len(st.targets) == 1 and \
          isinstance(st.targets[0], ast.Name) and st.targets[0].id.isupper():
        try:
          v = fold(st.value, mod=mod)
        except Unfoldable:
          continue
        if isinstance(v, int) and not isinstance(v, bool):
          self.consts[st.targets[0].id] = v
          self.flag_lines[st.targets[0].id] = st.lineno
    if len(self.consts) < 10:
      raise AnalysisError(
          f"{OPCODES}: expected the flag constants before class {ROOT}, "
          f"found {sorted(self.consts)}")
    # -- classes
    self.class_nodes = {}
    for st in mod.tree.body:
      if isinstance(st, ast.ClassDef):
        self.class_nodes[st.name] = st
    self._chain_cache = {}
    self.opcode_classes = [n for n in self.class_nodes
                           if n not in (ROOT, ARG_ROOT) and self._is_opcode(n)]
    if len(self.opcode_classes) < 150:
      raise AnalysisError(f"{OPCODES}: only {len(self.opcode_classes)} opcode "
                          "classes found; the class table has changed shape")
    self._resolved = {}

  # -- hierarchy ---------------------------------------------------------------
  def _bases(self, node, scope):
    out = []
    for b in node.bases:
      d = dotted(b)
      if d is None:
        raise AnalysisError(f"{OPCODES}: class {node.name} has a computed base")
      out.append(d)
    return out

  def chain(self, name, local=None):
    """Linearised list of class nodes from `name` up (single inheritance)."""
    local = local or {}
    out = []
    seen = set()
    todo = [name]
    while todo:
      n = todo.pop(0)
      if n in seen:
        continue
      seen.add(n)
      node = local.get(n) or self.class_nodes.get(n)
      if node is None:
        continue  # object / external
      out.append(node)
      todo.extend(self._bases(node, local))
    return out

  def _is_opcode(self, name):
    return any(n.name == ROOT for n in self.chain(name))

  def _flags_of(self, node, local=None):
    """_FLAGS as class-attribute lookup would find it."""
    local = dict(local or {})
    local[node.name] = node
    for c in self.chain(node.name, local):
      val = None
      for st in c.body:
        if isinstance(st, ast.Assign) and any(
            isinstance(t, ast.Name) and t.id == "_FLAGS" for t in st.targets):
          val = st.value
        elif isinstance(st, ast.AnnAssign) and isinstance(st.target, ast.Name) \
            and st.target.id == "_FLAGS" and st.value is not None:
          val = st.value
      if val is not None:
        try:
          v = fold(val, env=self.consts, mod=self.mod)
        except Unfoldable as e:
          raise AnalysisError(
              f"{OPCODES}: {node.name}._FLAGS = {src(val)} is not a foldable "
              f"flag expression ({e})") from e
        if not isinstance(v, int) or isinstance(v, bool):
          raise AnalysisError(f"{OPCODES}: {node.name}._FLAGS is not an int")
        return v
    raise AnalysisError(f"{OPCODES}: no _FLAGS found for {node.name}")

  def _mk(self, node, local=None, versioned=False):
    local2 = dict(local or {})
    local2[node.name] = node
    chain = self.chain(node.name, local2)
    if not any(c.name == ROOT for c in chain):
      raise AnalysisError(f"{OPCODES}: {node.name} does not derive from {ROOT}")
    return OpClass(node.name, self._flags_of(node, local),
                   any(c.name == ARG_ROOT for c in chain), node.lineno,
                   versioned)

  # -- for_python_version ----------------------------------------------------
  def _fpv(self, node):
    for st in node.body:
      if isinstance(st, (ast.FunctionDef, ast.AsyncFunctionDef)) and \
          st.name == "for_python_version":
        return st
    return None

  def resolve(self, name, version) -> OpClass:
    """The class `globals()[name].for_python_version(version)` returns."""
    key = (name, version)
    if key in self._resolved:
      return self._resolved[key]
    if name not in self.class_nodes or not self._is_opcode(name):
      raise KeyError(name)
    node = self.class_nodes[name]
    fn = None
    for c in self.chain(name):
      fn = self._fpv(c)
      if fn is not None:
        owner = c
        break
    if fn is None:
      raise AnalysisError(f"{OPCODES}: no for_python_version found for {name}")
    if owner.name == ROOT:
      self._check_identity_fpv(fn)
      res = self._mk(node)
    else:
      res = self._interp_fpv(node, fn, version)
    self._resolved[key] = res
    return res

  def _check_identity_fpv(self, fn):
    body = [s for s in fn.body if not (isinstance(s, ast.Expr) and
                                       isinstance(s.value, ast.Constant))]
    ok = len(body) == 1 and isinstance(body[0], ast.Return) and \
        isinstance(body[0].value, ast.Name) and \
        body[0].value.id == fn.args.args[0].arg
    if not ok:
      raise AnalysisError(
          f"{OPCODES}: {ROOT}.for_python_version is not `return cls`")

  def _interp_fpv(self, node, fn, version):
    args = [a.arg for a in fn.args.args]
    if len(args) != 2:
      raise AnalysisError(f"{OPCODES}: {node.name}.for_python_version has an "
                          "unexpected signature")
    clsname, vername = args
    local = {}

    def run(stmts):
      for st in stmts:
        if isinstance(st, ast.Expr) and isinstance(st.value, ast.Constant):
          continue
        if isinstance(st, ast.ClassDef):
          local[st.name] = st
          continue
        if isinstance(st, ast.If):
          try:
            t = eval_test(st.test, {vername: version})
          except Unfoldable as e:
            raise AnalysisError(
                f"{OPCODES}: {node.name}.for_python_version: test "
                f"`{src(st.test)}` is not a version comparison") from e
          r = run(st.body if t else st.orelse)
          if r is not None:
            return r
          continue
        if isinstance(st, ast.Return) and isinstance(st.value, ast.Name):
          if st.value.id == clsname:
            return self._mk(node, versioned=True)
          if st.value.id in local:
            return self._mk(local[st.value.id], local, versioned=True)
        raise AnalysisError(
            f"{OPCODES}: {node.name}.for_python_version: statement "
            f"`{src(st)[:60]}` is outside the understood idiom")
      return None

    res = run(fn.body)
    if res is None:
      raise AnalysisError(f"{OPCODES}: {node.name}.for_python_version may "
                          f"return None for {version}")
    return res

  # -- flag helpers ------------------------------------------------------------
  def helpers(self):
    """name -> (callable(flags)->bool, def node) for Opcode's flag classmethods."""
    out = {}
    root = self.mod.cls(ROOT)
    defs = {st.name: st for st in root.body
            if isinstance(st, (ast.FunctionDef, ast.AsyncFunctionDef))}

    def compile_helper(name, stack=()):
      if name in stack:
        raise AnalysisError(f"{OPCODES}: flag helper {name} is recursive")
      fn = defs.get(name)
      if fn is None:
        raise AnalysisError(f"{OPCODES}: {ROOT}.{name} not found")
      if not any(dotted(d) == "classmethod" for d in fn.decorator_list):
        raise AnalysisError(f"{OPCODES}: {ROOT}.{name} is not a classmethod")
      body = [s for s in fn.body if not (isinstance(s, ast.Expr) and
                                         isinstance(s.value, ast.Constant))]
      if len(body) != 1 or not isinstance(body[0], ast.Return) or \
          body[0].value is None:
        raise AnalysisError(
            f"{OPCODES}: {ROOT}.{name} is not a single `return <expr>`")
      cls = fn.args.args[0].arg
      return comp(body[0].value, cls, stack + (name,), name)

    def comp(e, cls, stack, owner):
      if isinstance(e, ast.Constant) and isinstance(e.value, (int, bool)):
        v = e.value
        return lambda f: v
      if isinstance(e, ast.Name):
        if e.id in self.consts:
          v = self.consts[e.id]
          return lambda f: v
        raise AnalysisError(f"{OPCODES}: {ROOT}.{owner}: unknown name {e.id}")
      if isinstance(e, ast.Attribute) and dotted(e) == f"{cls}._FLAGS":
        return lambda f: f
      if isinstance(e, ast.Call) and dotted(e.func) == "bool" and \
          len(e.args) == 1 and not e.keywords:
        a = comp(e.args[0], cls, stack, owner)
        return lambda f: bool(a(f))
      if isinstance(e, ast.Call) and isinstance(e.func, ast.Attribute) and \
          dotted(e.func.value) == cls and not e.args and not e.keywords:
        h = compile_helper(e.func.attr, stack)
        return h
      if isinstance(e, ast.UnaryOp) and isinstance(e.op, ast.Not):
        a = comp(e.operand, cls, stack, owner)
        return lambda f: not a(f)
      if isinstance(e, ast.UnaryOp) and isinstance(e.op, ast.Invert):
        a = comp(e.operand, cls, stack, owner)
        return lambda f: ~a(f)
      if isinstance(e, ast.BinOp) and isinstance(
          e.op, (ast.BitAnd, ast.BitOr, ast.BitXor)):
        a = comp(e.left, cls, stack, owner)
        b = comp(e.right, cls, stack, owner)
        if isinstance(e.op, ast.BitAnd):
          return lambda f: a(f) & b(f)
        if isinstance(e.op, ast.BitOr):
          return lambda f: a(f) | b(f)
        return lambda f: a(f) ^ b(f)
      if isinstance(e, ast.BoolOp):
        parts = [comp(v, cls, stack, owner) for v in e.values]
        if isinstance(e.op, ast.And):
          def f_and(f, parts=parts):
            r = True
            for p in parts:
              r = p(f)
              if not r:
                return r
            return r
          return f_and
        def f_or(f, parts=parts):
          r = False
          for p in parts:
            r = p(f)
            if r:
              return r
          return r
        return f_or
      if isinstance(e, ast.Compare) and len(e.ops) == 1 and isinstance(
          e.ops[0], (ast.Eq, ast.NotEq)):
        a = comp(e.left, cls, stack, owner)
        b = comp(e.comparators[0], cls, stack, owner)
        if isinstance(e.ops[0], ast.Eq):
          return lambda f: a(f) == b(f)
        return lambda f: a(f) != b(f)
      raise AnalysisError(
          f"{OPCODES}: {ROOT}.{owner}: expression `{src(e)}` is outside the "
          "understood flag-test idiom")

    for name, fn in defs.items():
      if not any(dotted(d) == "classmethod" for d in fn.decorator_list):
        continue
      if name == "for_python_version":
        continue
      out[name] = (compile_helper(name), fn)
    return out

  # -- derived facts -----------------------------------------------------------
  def bit(self, name):
    if name not in self.consts:
      raise AnalysisError(f"{OPCODES}: flag constant {name} not found")
    return self.consts[name]

  def known_jump(self, oc: OpClass):
    return bool(oc.flags & (self.bit("HAS_JREL") | self.bit("HAS_JABS")))


def opcode_table(ctx) -> OpcodeTable:
  return ctx.memo(("opcode_table",), lambda: OpcodeTable(ctx))


# -- VirtualMachine handlers -----------------------------------------------------

def dispatch_prefix(ctx):
  """The handler-name prefix used by VirtualMachine.run_instruction.

  Understood shape: `getattr(self, f"<prefix>{op.name}"[, default])` where
  `op` is run_instruction's opcode parameter.
  """
  mod = get_module(ctx, VM)
  fn = mod.func("VirtualMachine.run_instruction")
  params = [a.arg for a in fn.args.args]
  found = []
  for n in ast.walk(fn):
    if isinstance(n, ast.Call) and dotted(n.func) == "getattr" and \
        len(n.args) >= 2 and dotted(n.args[0]) == params[0] and \
        isinstance(n.args[1], ast.JoinedStr):
      js = n.args[1]
      if len(js.values) == 2 and isinstance(js.values[0], ast.Constant) and \
          isinstance(js.values[1], ast.FormattedValue) and \
          dotted(js.values[1].value) in {f"{p}.name" for p in params[1:]}:
        found.append(js.values[0].value)
  if len(found) != 1:
    raise AnalysisError(
        f"{VM}: run_instruction's dispatch `getattr(self, f\"byte_{{op.name}}\")` "
        f"not found (matches: {found})")
  return found[0]


def vm_class_chain(ctx, root="VirtualMachine"):
  """Class nodes that contribute methods to `root`, resolved inside vm.py.

  Bases that are not defined in vm.py and are not `object`/Generic-like are
  returned in `external` (a handler might live there: the caller decides).
  """
  mod = get_module(ctx, VM)
  out, external, seen = [], [], set()
  todo = [root]
  while todo:
    n = todo.pop(0)
    if n in seen:
      continue
    seen.add(n)
    node = mod.classes.get(n)
    if node is None:
      if n != root and n not in ("object",):
        external.append(n)
      continue
    out.append(node)
    for b in node.bases:
      d = dotted(b)
      if d is None:
        raise AnalysisError(f"{VM}: class {n} has a computed base")
      todo.append(d)
  if not out:
    raise AnalysisError(f"anchor class {root} not found in {VM}")
  return out, external


def vm_methods(ctx):
  """name -> def node, as attribute lookup on a VirtualMachine instance sees it."""
  def build():
    chain, external = vm_class_chain(ctx)
    methods = {}
    for node in reversed(chain):  # most-derived last: overrides win
      for st in node.body:
        if isinstance(st, (ast.FunctionDef, ast.AsyncFunctionDef)):
          methods[st.name] = st
        elif isinstance(st, ast.Assign) and len(st.targets) == 1 and \
            isinstance(st.targets[0], ast.Name) and \
            isinstance(st.value, ast.Name):
          # alias: byte_X = byte_Y
          methods[st.targets[0].id] = ("alias", st.value.id, st)
    # resolve aliases
    for k, v in list(methods.items()):
      hops = 0
      while isinstance(v, tuple):
        v = methods.get(v[1])
        hops += 1
        if hops > 5:
          v = None
      if v is None:
        del methods[k]
      else:
        methods[k] = v
    return methods, external
  return ctx.memo(("vm_methods",), build)


# -- isinstance guards ------------------------------------------------------------

_MODFILES = {
    "pytype.pyc.opcodes": OPCODES,
    "pytype.blocks.blocks": "pytype/blocks/blocks.py",
    "pytype.blocks.process_blocks": "pytype/blocks/process_blocks.py",
    "pytype.vm_utils": "pytype/vm_utils.py",
}


def class_names(ctx, mod, expr, depth=0):
  """Opcode class names denoted by the 2nd argument of an isinstance call.

  Understands `opcodes.X`, `X` (inside opcodes.py), tuples of those, and names /
  `module.NAME` bound at module level to such tuples.  None = not understood.
  """
  if depth > 4:
    return None
  if isinstance(expr, ast.Tuple):
    out = set()
    for e in expr.elts:
      r = class_names(ctx, mod, e, depth + 1)
      if r is None:
        return None
      out |= r
    return out
  d = dotted(expr)
  if d is None:
    return None
  parts = d.split(".")
  if len(parts) == 1:
    if mod.rel == OPCODES and parts[0] in mod.classes:
      return {parts[0]}
    if parts[0] in mod.assigns:
      return class_names(ctx, mod, mod.assigns[parts[0]], depth + 1)
    tgt = mod.imports.get(parts[0], "")
    if tgt.startswith("pytype.pyc.opcodes."):
      return {tgt.rsplit(".", 1)[1]}
    return None
  if len(parts) == 2:
    target = mod.imports.get(parts[0])
    rel = _MODFILES.get(target)
    if rel is None:
      return None
    other = get_module(ctx, rel)
    if rel == OPCODES:
      return {parts[1]} if parts[1] in other.classes else None
    if parts[1] in other.assigns:
      return class_names(ctx, other, other.assigns[parts[1]], depth + 1)
  return None


def _conjuncts(test, polarity):
  """Atomic facts (expr, polarity) implied by `test` having truth `polarity`."""
  if isinstance(test, ast.BoolOp):
    if isinstance(test.op, ast.And) and polarity:
      for v in test.values:
        yield from _conjuncts(v, True)
      return
    if isinstance(test.op, ast.Or) and not polarity:
      for v in test.values:
        yield from _conjuncts(v, False)
      return
  if isinstance(test, ast.UnaryOp) and isinstance(test.op, ast.Not):
    yield from _conjuncts(test.operand, not polarity)
    return
  yield test, polarity


def isinstance_guard(ctx, mod, node, varname, stop):
  """Classes `varname` is known to be an instance of at `node` (None: no guard).

  Facts come from enclosing `if isinstance(var, C)` arms, earlier early exits
  (`if not isinstance(var, C): return/continue`), `assert isinstance(..)` and the
  left operands of an enclosing `and` / the test of an enclosing `x if t else y`.
  Several guards intersect.
  """
  from sa import flow as _flow
  facts = []
  cur = node
  while cur in mod.parent and not isinstance(cur, ast.stmt):
    par = mod.parent[cur]
    if isinstance(par, ast.BoolOp) and cur in par.values:
      idx = par.values.index(cur)
      pol = isinstance(par.op, ast.And)
      for v in par.values[:idx]:
        facts.extend(_conjuncts(v, pol))
    elif isinstance(par, ast.IfExp):
      if cur is par.body:
        facts.extend(_conjuncts(par.test, True))
      elif cur is par.orelse:
        facts.extend(_conjuncts(par.test, False))
    elif isinstance(par, (ast.ListComp, ast.SetComp, ast.GeneratorExp,
                          ast.DictComp)):
      for g in par.generators:
        for c in g.ifs:
          if cur is not c:
            facts.extend(_conjuncts(c, True))
    cur = par
  if isinstance(cur, ast.stmt):
    for t, pol in _flow.guards(mod.parent, cur, stop=stop):
      facts.extend(_conjuncts(t, pol))
  result = None
  for e, pol in facts:
    if pol and isinstance(e, ast.Call) and dotted(e.func) == "isinstance" and \
        len(e.args) == 2 and isinstance(e.args[0], ast.Name) and \
        e.args[0].id == varname:
      names = class_names(ctx, mod, e.args[1])
      if names is None:
        continue
      result = names if result is None else (result & names)
  return result


def module_of(ctx, fn_node, candidates):
  for rel in candidates:
    mod = get_module(ctx, rel)
    if fn_node in mod.parent or fn_node in mod.tree.body:
      return mod
  return None


def arg_reads(ctx, fn, methods=None, depth=2):
  """Reads of `<op>.arg` / `<op>.argval` in a handler `fn(self, state, op)`.

  Follows `self.helper(.., op, ..)` calls into methods of the same class and
  `vm_utils.helper(.., op, ..)` calls into pytype/vm_utils.py (up to `depth`
  levels), mapping the opcode parameter positionally / by keyword.
  Returns a list of (path, guard) where path is "arg" / "helper:argval" and
  guard is None or the set of opcode class names an enclosing isinstance test
  restricts the read to.
  """
  out = []
  params = [a.arg for a in fn.args.args]
  if len(params) < 3:
    return []
  vm = get_module(ctx, VM)
  ext = {}
  for alias, target in vm.imports.items():
    if target == "pytype.vm_utils":
      ext[alias] = get_module(ctx, "pytype/vm_utils.py")

  def resolve(call, selfname, mod):
    f = call.func
    if isinstance(f, ast.Attribute) and isinstance(f.value, ast.Name):
      if selfname is not None and f.value.id == selfname and mod is vm:
        callee = (methods or {}).get(f.attr)
        if callee is not None:
          return callee, 1, [a.arg for a in callee.args.args][0], vm
      elif mod is vm and f.value.id in ext:
        callee = ext[f.value.id].functions.get(f.attr)
        if callee is not None:
          return callee, 0, None, ext[f.value.id]
    elif isinstance(f, ast.Name) and mod is not vm and f.id in mod.functions:
      return mod.functions[f.id], 0, None, mod
    return None

  _arg_reads(ctx, vm, fn, params[0], params[2], resolve, depth, out, "", {fn},
             None)
  return out


def _meet(a, b):
  if a is None:
    return b
  if b is None:
    return a
  return a & b


def _arg_reads(ctx, mod, fn, selfname, opname, resolve, depth, out, via, seen,
               outer_guard):
  rebound = any(isinstance(n, ast.Name) and n.id == opname and
                isinstance(n.ctx, ast.Store) for n in ast.walk(fn))
  if rebound:
    return  # `op` is reassigned: reads no longer refer to the dispatched opcode
  for n in ast.walk(fn):
    if isinstance(n, ast.Attribute) and n.attr in ("arg", "argval") and \
        isinstance(n.value, ast.Name) and n.value.id == opname and \
        isinstance(n.ctx, ast.Load):
      g = _meet(outer_guard, isinstance_guard(ctx, mod, n, opname, fn))
      out.append((via + n.attr, g))
    elif isinstance(n, ast.Call) and depth > 0:
      # (byte_X -> byte_Y delegation passes the *same* op object, so the
      # callee's reads count for the delegating opcode too)
      r = resolve(n, selfname, mod)
      if r is None or r[0] in seen:
        continue
      callee, off, cself, cmod = r
      cparams = [a.arg for a in callee.args.args]
      hits = []
      for i, a in enumerate(n.args):
        if isinstance(a, ast.Starred):
          break
        if isinstance(a, ast.Name) and a.id == opname and i + off < len(cparams):
          hits.append(cparams[i + off])
      for k in n.keywords:
        if isinstance(k.value, ast.Name) and k.value.id == opname and \
            k.arg in cparams:
          hits.append(k.arg)
      if hits:
        g = _meet(outer_guard, isinstance_guard(ctx, mod, n, opname, fn))
        for pname in hits:
          _arg_reads(ctx, cmod, callee, cself, pname, resolve, depth - 1, out,
                     via + callee.name + ":", seen | {callee}, g)
