"""C04 extension (R4.7): the typegraph never lets pointer order reach a result.

Addresses of CFGNode/Binding/Variable/State objects differ from run to run.
(a) every ordered container keyed by such pointers must order them by id
    (`pointer_less<T>`), never by address (std::less on raw pointers);
(b) every iteration over an *unordered* container keyed by such pointers -
    a range-for, a std algorithm (any_of / all_of / none_of / count_if /
    find_if) given its begin(), a range insert, or any other begin() - must be
    order-insensitive.  This is decided from the effects of what runs per
    element, wherever the loop sits (a loop moved into a helper function is
    the same site): inserts into an id-ordered std::set/map and stores of a
    constant into a flag are order-free, provided the body does not read what
    it accumulates and does not combine an accumulation with an early exit;
    calls are followed and must be free of effects (no field write, no
    non-const reference/pointer parameter, transitively); a predicate handed to
    a short-circuiting algorithm must have no effect at all, and find_if's
    result may only be compared with end().  Whatever is left over must be a
    triaged combination keyed by (container, residual effects).
Listed exception (a hazard, not a finding): `Origin::source_sets` is
`std::set<SourceSet>`: the outer set compares SourceSets lexicographically
with SourceSet's own id comparator, so it is id-ordered as well.
"""
import re

from sa.core import rule, AnalysisError
from sa import cxx
from rules._util_c09c04 import walk_sem, lambda_bodies

GRAPH = ("CFGNode", "Binding", "Variable", "State", "Origin", "Program")
DECL_KINDS = ("FieldDecl", "VarDecl", "ParmVarDecl", "TypedefDecl", "TypeAliasDecl")


def _types(n):
  t = n.get("type") or {}
  return [v for v in (t.get("desugaredQualType"), t.get("qualType")) if v]


def _split_args(s):
  """Top-level template arguments of the first `<...>` in s."""
  i = s.find("<")
  if i < 0:
    return []
  depth, cur, out = 0, "", []
  for ch in s[i:]:
    if ch == "<":
      depth += 1
      if depth == 1:
        continue
    elif ch == ">":
      depth -= 1
      if depth == 0:
        out.append(cur.strip())
        break
    if ch == "," and depth == 1:
      out.append(cur.strip())
      cur = ""
    else:
      cur += ch
  return out


def _ptr_to_graph(arg):
  m = re.match(r"(?:const\s+)?(?:devtools_python_typegraph::)?(?:internal::)?(\w+)\s*\*", arg)
  return m.group(1) if m and m.group(1) in GRAPH else None


def _ordered_containers(ty):
  """(kind, key type, comparator) for each std::set/std::map occurrence in ty."""
  out = []
  for m in re.finditer(r"std::(set|map|multiset|multimap)<", ty):
    args = _split_args(ty[m.start():])
    kind = m.group(1)
    if not args:
      continue
    key = args[0]
    cmp_idx = 1 if kind in ("set", "multiset") else 2
    comp = args[cmp_idx] if len(args) > cmp_idx else None
    out.append((kind, key, comp))
  return out


@rule("R4.7a", "C04", floor=6)
def r4_7a(ctx):
  """Ordered containers keyed by graph pointers compare by id."""
  seen = {}
  for tu in cxx.TUS:
    for o in cxx.dump_tu(ctx, tu):
      for n in cxx.walk(o):
        if n.get("kind") not in DECL_KINDS:
          continue
        name = n.get("name", "")
        if name.startswith("__"):
          continue
        tys = _types(n)
        if not tys:
          continue
        ty = max(tys, key=len)     # the desugared spelling shows default arguments
        for kind, key, comp in _ordered_containers(ty):
          g = _ptr_to_graph(key)
          if g is None:
            continue
          ok = comp is not None and "pointer_less<" in comp
          k = f"{n.get('kind')}:{name}:std::{kind}<{g}*>"
          if k in seen:
            continue
          seen[k] = True
          ctx.check(ok, k, f"pytype/typegraph/{tu}", (n.get("loc") or {}).get("line") or 0,
                    f"`{name}` is a std::{kind} keyed by {g}* with comparator "
                    f"{comp or 'std::less (the default)'}: it orders by address, "
                    "so iteration order - and whatever is derived from it - "
                    "changes from run to run", {"type": ty[:160]})


# -- R4.7b: iteration over unordered containers keyed by graph pointers -------------
#
# A site is decided automatically from the effects of what is executed per
# element; only effects that are not provably order-free need a triage entry,
# and the entry is keyed by the container and those effects - not by the name
# of the function the loop happens to sit in.

ARITH = {"bool", "int", "unsigned int", "long", "unsigned long", "std::size_t",
         "size_t", "char", "short", "long long", "unsigned long long", "float",
         "double"}
# algorithms whose *result* does not depend on the visiting order when the
# predicate has no effect of its own (they may stop early, so a predicate with
# any effect makes the set of effects performed order-dependent)
ALGO_PREDICATE = {"any_of", "all_of", "none_of", "count_if", "find_if",
                  "find_if_not"}
ALGO_ELEMENT_RESULT = {"find_if", "find_if_not"}   # returns a position
IMPURE_STD = {"swap", "sort", "stable_sort", "iter_swap", "push_heap",
              "pop_heap", "reverse", "rotate", "shuffle"}

# effects that are not provably order-free, triaged by reading:
# (container, sorted tuple of residual effects) -> reason
_TRIAGED_EFFECTS = {
    ("unique_finish_nodes", ("call:internal::PathFinder::FindNodeBackwards",)):
        "per finish node one FindNodeBackwards query whose only effect is to "
        "fill the path cache, keyed by (start, finish, blocked): the answers "
        "and the final cache content do not depend on the query order; the "
        "body otherwise only inserts into new_positions, a CFGNodeSet ordered "
        "by id",
}


def _unordered_graph_container(ty):
  """Graph class G when `ty` is an unordered container keyed by G*, else None."""
  if "unordered_" not in ty:
    return None
  if re.search(r">::(mapped_type|value_type|key_type)\b", ty):
    return None     # an element of the container, not the container itself
  head = ty[:ty.find("unordered_")]
  if "<" in head:
    return None     # nested inside another template: not the iterated object
  args = _split_args(ty[ty.find("unordered_"):])
  if not args:
    return None
  return _ptr_to_graph(args[0])


def _id_ordered_set(ty):
  """`ty` is a std::set/std::map that orders its keys by value or by id."""
  cs = _ordered_containers(ty)
  if not cs or not re.match(r"\s*(const\s+)?std::(set|map|multiset|multimap)<", ty):
    return False
  kind, key, comp = cs[0]
  if "*" in key:
    return comp is not None and "pointer_less<" in comp
  return True


def _name_of(e):
  e = cxx.strip(e)
  if e is None:
    return None
  if e.get("kind") == "MemberExpr":
    return e.get("name")
  if e.get("kind") == "DeclRefExpr":
    return (e.get("referencedDecl") or {}).get("name")
  return None


def _lvalue_root(ix, e):
  """(root, indirect): root = ("var", id, name, type) | ("field", name) |
  ("this",) | None; indirect = the location is reached through a pointer,
  iterator or smart pointer (so it is not storage of the root itself)."""
  ind = False
  for _ in range(60):
    e = cxx.strip(e)
    if e is None:
      return None, ind
    k = e.get("kind")
    kids = cxx.inner(e)
    if k == "MemberExpr":
      base = kids[0] if kids else None
      sb = cxx.strip(base) if base is not None else None
      if sb is None or sb.get("kind") == "CXXThisExpr":
        return ("field", e.get("name")), ind
      if e.get("isArrow"):
        ind = True
      e = base
      continue
    if k == "ArraySubscriptExpr":
      if _types(cxx.strip(kids[0]) or {}) and "*" in _types(cxx.strip(kids[0]))[0]:
        ind = True
      e = kids[0]
      continue
    if k == "UnaryOperator" and e.get("opcode") in ("*", "&"):
      if e.get("opcode") == "*":
        ind = True
      e = kids[0]
      continue
    if k == "CXXOperatorCallExpr":
      nm = ix.callee(e)[2]
      if nm in ("operator*", "operator->") and len(kids) > 1:
        ind = True
        e = kids[1]
        continue
      if nm == "operator[]" and len(kids) > 1:
        e = kids[1]
        continue
      return None, ind
    if k == "CXXMemberCallExpr":
      key, f, nm, obj = ix.callee(e)
      if f is None and nm in cxx.VIEWS and obj is not None:
        if nm not in ("at", "back", "front", "value", "top"):
          ind = True
        m = cxx.strip(kids[0])
        if m is not None and m.get("isArrow"):
          ind = True
        e = obj
        continue
      return None, ind
    if k == "DeclRefExpr":
      rd = e.get("referencedDecl") or {}
      ty = (rd.get("type") or {}).get("qualType", "")
      return ("var", rd.get("id"), rd.get("name"), ty), ind
    if k == "CXXThisExpr":
      return ("this",), ind
    return None, ind
  return None, ind


class _Purity:
  """`fn has no effect outside its own locals` (never guesses yes)."""

  def __init__(self, ix):
    self.ix = ix
    self.memo = {}

  def pure(self, fn, depth=0):
    if fn.key in self.memo:
      return self.memo[fn.key]
    if fn.body is None or depth > 4:
      return False
    self.memo[fn.key] = False      # recursion: not pure until shown
    ok = True
    for p in fn.params:
      ty = max(_types(p), key=len) if _types(p) else ""
      if ("&" in ty or "*" in ty) and not ty.lstrip().startswith("const "):
        ok = False
    if ok:
      for n in cxx.walk(fn.body):
        if n.get("kind") == "LambdaExpr":
          ok = False
          break
      for ev in cxx.events(self.ix, fn.body, {}) if ok else ():
        if ev.kind in ("write", "addr"):
          ok = False
          break
        if ev.kind == "call":
          if ev.fn is not None:
            if not self.pure(ev.fn, depth + 1):
              ok = False
              break
          elif (ev.extra or {}).get("name") in IMPURE_STD:
            ok = False
            break
    self.memo[fn.key] = ok
    return ok


def _const_literal(e):
  e = cxx.strip(e)
  return e is not None and e.get("kind") in (
      "CXXBoolLiteralExpr", "IntegerLiteral", "CXXNullPtrLiteralExpr",
      "FloatingLiteral", "CharacterLiteral")


def _body_effects(ix, purity, roots, is_predicate):
  """Effects of executing `roots` (statements) once per element.

  -> (free, residual, exits): free = order-free effects (commutative inserts
  into id-ordered sets, idempotent constant flags), residual = every other
  effect, exits = early exits of the iteration (break / return)."""
  local_ids = set()
  for r in roots:
    for n in walk_sem(r):
      if n.get("kind") in ("VarDecl", "ParmVarDecl", "BindingDecl", "DecompositionDecl"):
        local_ids.add(n.get("id"))
  free, residual, exits = [], [], []
  written = {}          # decl id / field name -> effect nodes that use it

  def is_local(root, ind):
    if root is None or ind:
      return False
    if root[0] != "var" or root[1] not in local_ids:
      return False
    ty = root[3] or ""
    return not ty.rstrip().endswith("&")

  def rname(root):
    if root is None:
      return "?"
    return root[2] if root[0] == "var" else (root[1] if root[0] == "field" else "this")

  def note_written(root, user):
    if root is not None and root[0] in ("var", "field"):
      written.setdefault((root[0], root[1]), []).append(user)

  def scan(n, nested_loop, in_lambda):
    if not n:
      return
    k = n.get("kind")
    kids = cxx.inner(n)
    if k == "LambdaExpr":
      for _, b in lambda_bodies(n):
        scan(b, True, True)
      return
    if k in ("ForStmt", "WhileStmt", "DoStmt", "CXXForRangeStmt", "SwitchStmt"):
      for c in kids:
        scan(c, True, in_lambda)
      return
    if k == "ReturnStmt":
      if not in_lambda:
        if kids and not _const_literal(kids[0]):
          residual.append("return-value")
        else:
          exits.append("return")
      elif is_predicate and not nested_loop:
        pass       # the predicate's result
      for c in kids:
        scan(c, nested_loop, in_lambda)
      return
    if k == "BreakStmt":
      if not nested_loop:
        exits.append("break")
      return
    if k == "GotoStmt":
      residual.append("goto")
      return
    if k == "CXXDeleteExpr":
      residual.append("delete")
    if k in ("BinaryOperator", "CompoundAssignOperator") and \
        n.get("opcode", "").endswith("=") and n.get("opcode") not in ("==", "!=", "<=", ">="):
      root, ind = _lvalue_root(ix, kids[0])
      if not is_local(root, ind):
        ty = canon = (root[3] if root and root[0] == "var" else "") or ""
        plain = root is not None and root[0] == "var" and not ind and \
            ty.replace("const ", "").strip() in ARITH
        if n.get("opcode") == "=" and plain and _const_literal(kids[1]):
          free.append(f"flag:{rname(root)}")
          note_written(root, kids[0])
        else:
          residual.append(f"write:{rname(root)}")
    elif k == "UnaryOperator" and n.get("opcode") in ("++", "--"):
      root, ind = _lvalue_root(ix, kids[0])
      if not is_local(root, ind):
        residual.append(f"write:{rname(root)}")
    elif k == "CXXMemberCallExpr":
      key, f, nm, obj = ix.callee(n)
      if f is not None:
        if not purity.pure(f):
          residual.append(f"call:{key.split('(')[0]}")
      elif nm in cxx.MUTATORS and obj is not None:
        root, ind = _lvalue_root(ix, obj)
        m = cxx.strip(kids[0])
        if m is not None and m.get("isArrow"):
          ind = True
        if not is_local(root, ind):
          tys = _types(cxx.strip(obj) or {})
          oty = max(tys, key=len) if tys else ""
          if nm in ("insert", "emplace") and _id_ordered_set(oty) and not ind \
              and root is not None and root[0] in ("var", "field"):
            free.append(f"insert:{rname(root)}")
            note_written(root, obj)
          else:
            residual.append(f"mutate:{rname(root)}.{nm}")
    elif k == "CXXOperatorCallExpr":
      key, f, nm, obj = ix.callee(n)
      if f is not None:
        if not purity.pure(f):
          residual.append(f"call:{key.split('(')[0]}")
      elif nm in ("operator=", "operator+=", "operator-=", "operator|=",
                  "operator&=", "operator++", "operator--") and len(kids) > 1:
        root, ind = _lvalue_root(ix, kids[1])
        if not is_local(root, ind):
          residual.append(f"write:{rname(root)}")
      elif nm == "operator[]" and len(kids) > 1:
        tys = _types(cxx.strip(kids[1]) or {})
        oty = max(tys, key=len) if tys else ""
        if "map<" in oty and not oty.lstrip().startswith("const "):
          root, ind = _lvalue_root(ix, kids[1])
          if not is_local(root, ind):
            residual.append(f"mutate:{rname(root)}.operator[]")
    elif k == "CallExpr":
      key, f, nm, obj = ix.callee(n)
      if f is not None:
        if not purity.pure(f):
          residual.append(f"call:{key.split('(')[0]}")
      elif nm in IMPURE_STD:
        residual.append(f"call:std::{nm}")
      elif key is None:
        residual.append("call:?")
    for c in kids:
      scan(c, nested_loop, in_lambda)

  for r in roots:
    scan(r, False, is_predicate)
  # an accumulator that the body also reads makes each step depend on the
  # steps before it
  users = {}
  for r in roots:
    for n in walk_sem(r):
      if n.get("kind") == "DeclRefExpr":
        users.setdefault(("var", (n.get("referencedDecl") or {}).get("id")), []).append(n)
      elif n.get("kind") == "MemberExpr" and cxx.inner(n) and \
          (cxx.strip(cxx.inner(n)[0]) or {}).get("kind") == "CXXThisExpr":
        users.setdefault(("field", n.get("name")), []).append(n)
  for key, effect_nodes in written.items():
    eff = {id(cxx.strip(x)) for x in effect_nodes}
    extra = [u for u in users.get(key, []) if id(u) not in eff]
    if extra:
      residual.append(f"reads-own-accumulator:{_name_of(effect_nodes[0])}")
  return sorted(set(free)), sorted(set(residual)), sorted(set(exits))


def _predicate_roots(ix, fn, arg, local_vars):
  """Bodies executed when the callable `arg` is invoked; None if unknown."""
  a = cxx.strip(arg)
  seen = 0
  while a is not None and a.get("kind") == "CXXConstructExpr" and cxx.inner(a) and seen < 5:
    a = cxx.strip(cxx.inner(a)[0])
    seen += 1
  if a is None:
    return None
  if a.get("kind") == "LambdaExpr":
    return [b for _, b in lambda_bodies(a)]
  if a.get("kind") == "DeclRefExpr":
    rd = a.get("referencedDecl") or {}
    v = local_vars.get(rd.get("id"))
    if v is not None:
      kids = [c for c in cxx.inner(v) if c.get("kind")]
      if kids:
        return _predicate_roots(ix, fn, kids[-1], {})
      return None
    key = ix.canon.get(rd.get("id"))
    f = ix.by_key.get(key)
    if f is not None and f.body is not None:
      return [f.body]
  return None


def _container_name(ix, e):
  t = cxx.uncast(cxx.term(ix, e)) if e is not None else None
  if isinstance(t, tuple):
    if t[0] == "field":
      return t[1].split("::")[-1]
    if t[0] == "var":
      return t[1]
  return None


def _iteration_sites(ix, fn):
  """(kind, container name, graph class, type, roots, is_predicate, extra, node)."""
  local_vars = {}
  parents = {}
  for n in walk_sem(fn.body):
    if n.get("kind") == "VarDecl":
      local_vars[n.get("id")] = n
    for c in cxx.inner(n):
      if c:
        parents[id(c)] = n
  for n in walk_sem(fn.body):
    k = n.get("kind")
    if k == "CXXForRangeStmt":
      rng = None
      for c in cxx.inner(n)[:-1]:
        if c.get("kind") == "DeclStmt" and cxx.inner(c) and \
            cxx.inner(c)[0].get("name", "").startswith("__range"):
          rng = cxx.inner(c)[0]
      if rng is None:
        continue
      tys = _types(rng)
      ty = max(tys, key=len) if tys else ""
      g = _unordered_graph_container(ty)
      if g is None:
        continue
      cname = _container_name(ix, cxx.inner(rng)[-1]) if cxx.inner(rng) else None
      yield ("for", cname, g, ty, [cxx.inner(n)[-1]], False, [], n)
    elif k == "CXXMemberCallExpr":
      key, f, nm, obj = ix.callee(n)
      if f is not None or nm not in ("begin", "cbegin", "rbegin") or obj is None:
        continue
      so = cxx.strip(obj) or {}
      tys = _types(so)
      ty = max(tys, key=len) if tys else ""
      g = _unordered_graph_container(ty)
      if g is None:
        continue
      if (so.get("referencedDecl") or {}).get("name", "").startswith("__range"):
        continue      # the implicit begin() of a range-for (handled above)
      cname = _container_name(ix, obj)
      # what consumes the iterator?
      up = parents.get(id(n))
      while up is not None and up.get("kind") in cxx.TRANSPARENT + ("CXXConstructExpr",):
        up = parents.get(id(up))
      if up is not None and up.get("kind") == "CallExpr":
        ckey, cf, cnm, _ = ix.callee(up)
        args = cxx.inner(up)[1:]
        if cf is None and cnm in ALGO_PREDICATE and len(args) == 3:
          roots = _predicate_roots(ix, fn, args[2], local_vars)
          extra = []
          if roots is None:
            roots, extra = [], ["predicate-unknown"]
          if cnm in ALGO_ELEMENT_RESULT:
            # the position found depends on the order unless it is only
            # compared with end()
            pu = parents.get(id(up))
            while pu is not None and pu.get("kind") in cxx.TRANSPARENT + ("CXXConstructExpr",):
              pu = parents.get(id(pu))
            cmp_end = pu is not None and pu.get("kind") == "CXXOperatorCallExpr" and \
                ix.callee(pu)[2] in ("operator==", "operator!=")
            if not cmp_end:
              extra.append("element-result")
          yield (cnm, cname, g, ty, roots, True, extra, up)
          continue
      if up is not None and up.get("kind") == "CXXMemberCallExpr":
        ckey, cf, cnm, cobj = ix.callee(up)
        if cf is None and cnm == "insert" and cobj is not None:
          tys2 = _types(cxx.strip(cobj) or {})
          oty = max(tys2, key=len) if tys2 else ""
          if _id_ordered_set(oty):
            yield ("range-insert", cname, g, ty, [], False, [], up)
            continue
      yield ("begin()", cname, g, ty, [], False, ["iterator-walk"], n)


@rule("R4.7b", "C04", floor=3)
def r4_7b(ctx):
  """Iteration over an unordered pointer-keyed container is order-insensitive."""
  ix = cxx.get_index(ctx)
  purity = ctx.memo(("c04-purity",), lambda: _Purity(ix))
  for fn in sorted(ix.by_key.values(), key=lambda f: f.key):
    if fn.body is None or fn.file.endswith(("_test.cc", "cfg.cc")):
      continue
    for kind, cname, g, ty, roots, is_pred, extra, node in _iteration_sites(ix, fn):
      free, residual, exits = _body_effects(ix, purity, roots, is_pred)
      residual = sorted(set(residual) | set(extra))
      if is_pred and kind != "count_if" and free:
        # the algorithm may stop early: even an order-free effect is then
        # performed for an order-dependent subset of the elements
        residual = sorted(set(residual) | {f"effect-in-short-circuit-predicate:{x}" for x in free})
      if exits and any(x.startswith("insert:") for x in free):
        residual = sorted(set(residual) | {"early-exit-after-accumulation"})
      line = ((node.get("range") or {}).get("begin") or {}).get("line") or fn.line
      triage = _TRIAGED_EFFECTS.get((cname, tuple(residual)))
      via = "for-over" if kind == "for" else f"{kind}-over"
      ctx.check(not residual or triage is not None, f"{fn.qual}:{via}:{cname}", fn.file, line,
                f"{fn.qual} iterates `{cname}`, an unordered container keyed by "
                f"{g}* (hash of an address): the visiting "
                f"order differs from run to run and what is done per element "
                f"is not provably order-free (effects {residual}; order-free: "
                f"{free}; exits {exits}) nor a triaged combination",
                {"container": ty[:120], "via": kind, "order_free_effects": free,
                 "early_exits": exits, "residual_effects": residual,
                 "reason": triage or "decided from the effects of the body"})


def _tg(n):
  return f"pytype/typegraph/{n}"


_PRUNE_FLAG_LOOP = (
    "    bool any_visible = false;\n"
    "    for (const auto& kvpair : cfg_node_to_bindings_) {\n"
    "      if (program_->is_reachable(kvpair.first, viewpoint)) {\n"
    "        any_visible = true;\n"
    "        break;\n"
    "      }\n"
    "    }\n")

VARIANTS = [
    {"name": "cfgnodeset-default-comparator", "rule": "R4.7a", "file": _tg("typegraph.h"), "expect": "fire",
     "old": "typedef std::set<const CFGNode*, pointer_less<CFGNode>> CFGNodeSet;",
     "new": "typedef std::set<const CFGNode*> CFGNodeSet;"},
    {"name": "new-unordered-walk-into-vector", "rule": "R4.7b", "file": _tg("typegraph.cc"), "expect": "fire",
     "old": "  std::vector<DataType*> data;\n  data.reserve(bindings_.size());\n  for (const auto& a : bindings_) {\n    data.push_back(a->data().get());\n  }\n  return data;",
     "new": "  std::vector<DataType*> data;\n  data.reserve(bindings_.size());\n  for (const auto& kv : cfg_node_to_bindings_) {\n    for (auto* b : kv.second) data.push_back(b->data().get());\n  }\n  return data;"},
    {"name": "twin-benign-C09-r2-prune-any_of", "rule": "R4.7b", "patch": "benign/C09-r2/patch.diff", "expect": "silent"},
    {"name": "twin-benign-C07-r3-loop-moved-into-helper", "rule": "R4.7b", "patch": "benign/C07-r3/patch.diff", "expect": "silent"},
    {"name": "twin-prune-existence-test-as-any_of", "rule": "R4.7b", "expect": "silent",
     "edits": [(_tg("typegraph.cc"), "#include <cstddef>\n", "#include <algorithm>\n#include <cstddef>\n"),
               (_tg("typegraph.cc"), _PRUNE_FLAG_LOOP,
                "    const bool any_visible = std::any_of(\n"
                "        cfg_node_to_bindings_.begin(), cfg_node_to_bindings_.end(),\n"
                "        [this, viewpoint](const auto& kvpair) {\n"
                "          return program_->is_reachable(kvpair.first, viewpoint);\n"
                "        });\n")]},
    {"name": "any_of-predicate-with-effect", "rule": "R4.7b", "expect": "fire",
     "edits": [(_tg("typegraph.cc"), "#include <cstddef>\n", "#include <algorithm>\n#include <cstddef>\n"),
               (_tg("typegraph.cc"), _PRUNE_FLAG_LOOP,
                "    const bool any_visible = std::any_of(\n"
                "        cfg_node_to_bindings_.begin(), cfg_node_to_bindings_.end(),\n"
                "        [this, viewpoint, &result](const auto& kvpair) {\n"
                "          result.push_back(*kvpair.second.begin());\n"
                "          return program_->is_reachable(kvpair.first, viewpoint);\n"
                "        });\n")]},
    {"name": "find_if-element-used", "rule": "R4.7b", "expect": "fire",
     "edits": [(_tg("typegraph.cc"), "#include <cstddef>\n", "#include <algorithm>\n#include <cstddef>\n"),
               (_tg("typegraph.cc"), _PRUNE_FLAG_LOOP,
                "    auto hit = std::find_if(\n"
                "        cfg_node_to_bindings_.begin(), cfg_node_to_bindings_.end(),\n"
                "        [this, viewpoint](const auto& kvpair) {\n"
                "          return program_->is_reachable(kvpair.first, viewpoint);\n"
                "        });\n"
                "    const bool any_visible = hit != cfg_node_to_bindings_.end();\n"
                "    if (any_visible) result.push_back(*hit->second.begin());\n")]},
    {"name": "twin-find_if-compared-with-end", "rule": "R4.7b", "expect": "silent",
     "edits": [(_tg("typegraph.cc"), "#include <cstddef>\n", "#include <algorithm>\n#include <cstddef>\n"),
               (_tg("typegraph.cc"), _PRUNE_FLAG_LOOP,
                "    const bool any_visible = std::find_if(\n"
                "        cfg_node_to_bindings_.begin(), cfg_node_to_bindings_.end(),\n"
                "        [this, viewpoint](const auto& kvpair) {\n"
                "          return program_->is_reachable(kvpair.first, viewpoint);\n"
                "        }) != cfg_node_to_bindings_.end();\n")]},
    {"name": "existence-loop-remembers-the-element", "rule": "R4.7b", "file": _tg("typegraph.cc"), "expect": "fire",
     "old": _PRUNE_FLAG_LOOP,
     "new": _PRUNE_FLAG_LOOP.replace("    bool any_visible = false;\n", "    bool any_visible = false;\n    const CFGNode* first_visible = nullptr;\n")
                            .replace("        any_visible = true;\n", "        any_visible = true;\n        first_visible = kvpair.first;\n")},
    {"name": "accumulating-loop-stops-early", "rule": "R4.7b", "file": _tg("solver.cc"), "expect": "fire",
     "old": "        new_positions.insert(where);\n", "new": "        new_positions.insert(where);\n        if (new_positions.size() >= 2) break;\n"},
    {"name": "explicit-iterator-walk", "rule": "R4.7b", "file": _tg("typegraph.cc"), "expect": "fire",
     "old": "  std::vector<DataType*> data;\n  data.reserve(bindings_.size());\n  for (const auto& a : bindings_) {\n    data.push_back(a->data().get());\n  }\n  return data;",
     "new": "  std::vector<DataType*> data;\n  data.reserve(bindings_.size());\n  for (auto it = cfg_node_to_bindings_.begin(); it != cfg_node_to_bindings_.end(); ++it) {\n    for (auto* b : it->second) data.push_back(b->data().get());\n  }\n  return data;"},
]
