"""C04 extension (R4.7): the typegraph never lets pointer order reach a result.

Addresses of CFGNode/Binding/Variable/State objects differ from run to run.
(a) every ordered container keyed by such pointers must order them by id
    (`pointer_less<T>`), never by address (std::less on raw pointers);
(b) every range-for over an *unordered* container keyed by such pointers must
    be order-insensitive (its body only fills id-ordered sets, or looks for
    any/none and breaks) - triaged sites are frozen by function and container.
Listed exception (a hazard, not a finding): `Origin::source_sets` is
`std::set<SourceSet>`: the outer set compares SourceSets lexicographically
with SourceSet's own id comparator, so it is id-ordered as well.
"""
import re

from sa.core import rule, AnalysisError
from sa import cxx

GRAPH = ("CFGNode", "Binding", "Variable", "State", "Origin", "Program")
DECL_KINDS = ("FieldDecl", "VarDecl", "ParmVarDecl", "TypedefDecl", "TypeAliasDecl")


def _types(n):
  t = n.get("type") or {}
  return [v for v in (t.get("desugaredQualType"), t.get("qualType")) if v]


def _split_args(s):
  """Top-level template arguments of the first `<...>` in s."""
  i = s.find("<")
  if i < 0:
    return []
  depth, cur, out = 0, "", []
  for ch in s[i:]:
    if ch == "<":
      depth += 1
      if depth == 1:
        continue
    elif ch == ">":
      depth -= 1
      if depth == 0:
        out.append(cur.strip())
        break
    if ch == "," and depth == 1:
      out.append(cur.strip())
      cur = ""
    else:
      cur += ch
  return out


def _ptr_to_graph(arg):
  m = re.match(r"(?:const\s+)?(?:devtools_python_typegraph::)?(?:internal::)?(\w+)\s*\*", arg)
  return m.group(1) if m and m.group(1) in GRAPH else None


def _ordered_containers(ty):
  """(kind, key type, comparator) for each std::set/std::map occurrence in ty."""
  out = []
  for m in re.finditer(r"std::(set|map|multiset|multimap)<", ty):
    args = _split_args(ty[m.start():])
    kind = m.group(1)
    if not args:
      continue
    key = args[0]
    cmp_idx = 1 if kind in ("set", "multiset") else 2
    comp = args[cmp_idx] if len(args) > cmp_idx else None
    out.append((kind, key, comp))
  return out


@rule("R4.7a", "C04", floor=6)
def r4_7a(ctx):
  """Ordered containers keyed by graph pointers compare by id."""
  seen = {}
  for tu in cxx.TUS:
    for o in cxx.dump_tu(ctx, tu):
      for n in cxx.walk(o):
        if n.get("kind") not in DECL_KINDS:
          continue
        name = n.get("name", "")
        if name.startswith("__"):
          continue
        tys = _types(n)
        if not tys:
          continue
        ty = max(tys, key=len)     # the desugared spelling shows default arguments
        for kind, key, comp in _ordered_containers(ty):
          g = _ptr_to_graph(key)
          if g is None:
            continue
          ok = comp is not None and "pointer_less<" in comp
          k = f"{n.get('kind')}:{name}:std::{kind}<{g}*>"
          if k in seen:
            continue
          seen[k] = True
          ctx.check(ok, k, f"pytype/typegraph/{tu}", (n.get("loc") or {}).get("line") or 0,
                    f"`{name}` is a std::{kind} keyed by {g}* with comparator "
                    f"{comp or 'std::less (the default)'}: it orders by address, "
                    "so iteration order - and whatever is derived from it - "
                    "changes from run to run", {"type": ty[:160]})


# range-for loops over unordered containers keyed by graph pointers, triaged by reading
_UNORDERED_LOOPS_OK = {
    ("Solver::FindSolution", "unique_finish_nodes"):
        "body only inserts into new_positions, a CFGNodeSet ordered by id",
    ("Variable::nodes", "cfg_node_to_bindings_"):
        "body only inserts the keys into a CFGNodeSet ordered by id",
    ("Variable::Prune", "cfg_node_to_bindings_"):
        "existence test: sets a flag and breaks",
}


@rule("R4.7b", "C04", floor=3)
def r4_7b(ctx):
  """Range-for over an unordered pointer-keyed container is order-insensitive."""
  ix = cxx.get_index(ctx)
  for fn in sorted(ix.by_key.values(), key=lambda f: f.key):
    if fn.body is None or fn.file.endswith(("_test.cc", "cfg.cc")):
      continue
    for lp in cxx.walk(fn.body):
      if lp.get("kind") != "CXXForRangeStmt":
        continue
      rng = None
      for c in cxx.inner(lp)[:-1]:
        if c.get("kind") == "DeclStmt" and cxx.inner(c) and \
            cxx.inner(c)[0].get("name", "").startswith("__range"):
          rng = cxx.inner(c)[0]
      if rng is None:
        continue
      tys = _types(rng)
      ty = max(tys, key=len) if tys else ""
      if "unordered_" not in ty:
        continue
      if re.search(r">::(mapped_type|value_type|key_type)\b", ty):
        continue   # an element of the container, not the container itself
      args = _split_args(ty[ty.find("unordered_"):])
      if not args or _ptr_to_graph(args[0]) is None:
        continue
      src_term = cxx.uncast(cxx.term(ix, cxx.inner(rng)[-1])) if cxx.inner(rng) else None
      cname = None
      if isinstance(src_term, tuple):
        cname = src_term[1].split("::")[-1] if src_term[0] == "field" else \
            (src_term[1] if src_term[0] == "var" else None)
      key = (fn.qual, cname)
      line = ((lp.get("range") or {}).get("begin") or {}).get("line") or fn.line
      ctx.check(key in _UNORDERED_LOOPS_OK, f"{fn.qual}:for-over:{cname}", fn.file, line,
                f"{fn.qual} iterates `{cname}`, an unordered container keyed by "
                f"{_ptr_to_graph(args[0])}* (hash of an address): the visiting "
                "order differs from run to run and this loop is not in the "
                "triaged order-insensitive table",
                {"container": ty[:120], "reason": _UNORDERED_LOOPS_OK.get(key)})


def _tg(n):
  return f"pytype/typegraph/{n}"


VARIANTS = [
    {"name": "cfgnodeset-default-comparator", "rule": "R4.7a", "file": _tg("typegraph.h"), "expect": "fire",
     "old": "typedef std::set<const CFGNode*, pointer_less<CFGNode>> CFGNodeSet;",
     "new": "typedef std::set<const CFGNode*> CFGNodeSet;"},
    {"name": "new-unordered-walk-into-vector", "rule": "R4.7b", "file": _tg("typegraph.cc"), "expect": "fire",
     "old": "  std::vector<DataType*> data;\n  data.reserve(bindings_.size());\n  for (const auto& a : bindings_) {\n    data.push_back(a->data().get());\n  }\n  return data;",
     "new": "  std::vector<DataType*> data;\n  data.reserve(bindings_.size());\n  for (const auto& kv : cfg_node_to_bindings_) {\n    for (auto* b : kv.second) data.push_back(b->data().get());\n  }\n  return data;"},
]
