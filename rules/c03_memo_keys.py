"""C03 extension R3.22: a memo on the directive path is keyed by everything the cached value contains.

The directive comments of a file reach the Director as `_StructuredComment`
records that *contain their line number*; C03 lives on that number being the
line the comment is written on.  A cache of parsed comments (or of anything
else computed on the way from the source text to the line sets) that outlives
one call hands the record of the first occurrence to every later lookup with
the same key: if the key does not contain every input the cached computation
reads, a textually identical directive on another line (or in the next file
analysed by the same process) is registered under the wrong line and the
disable on the reported line silences nothing.

Decided, for every function of directors/parser.py and directors/directors.py:
a *memo* is a container that outlives the call (a module-level name, a class
attribute, a mutable default) which the same function both looks up
(`M.get(k)`, `M[k]`, `k in M`) and fills (`M[k] = v`, `M.setdefault(k, v)`).
For every fill, every parameter of the function that the stored value is
computed from (once-bound locals inlined; an argument of a module-level callee
counts only if the callee reads the parameter it is bound to) must occur in
the key expression.  `functools.cache/lru_cache` key on all arguments by
construction; on a generator function they hand out one exhausted iterator
(violation).
"""
import ast

from sa.core import rule, AnalysisError
from sa.pyindex import get_module, dotted, src, walk_no_nested
from sa import flow

PAR = "pytype/directors/parser.py"
DIR = "pytype/directors/directors.py"
_WRAP = ("tuple", "list", "iter", "frozenset", "sorted")


def _params(fn):
  a = fn.args
  return [x.arg for x in a.posonlyargs + a.args + a.kwonlyargs] + [x.arg for x in (a.vararg, a.kwarg) if x]


def _functions(mod):
  """(qualified name, def, class or None) of every function of the module, nested ones included."""
  out = []

  def rec(body, prefix, cls):
    for st in body:
      if isinstance(st, (ast.FunctionDef, ast.AsyncFunctionDef)):
        out.append((prefix + st.name, st, cls))
        rec(st.body, prefix + st.name + ".", cls)
      elif isinstance(st, ast.ClassDef):
        rec(st.body, prefix + st.name + ".", st)
      elif isinstance(st, (ast.If, ast.Try, ast.With, ast.For, ast.While)):
        for f in ("body", "orelse", "finalbody"):
          rec(getattr(st, f, []) or [], prefix, cls)
  rec(mod.tree.body, "", None)
  return out


def _long_lived(mod, fn, cls, node):
  """Is the container expression `node` state that outlives a call of fn?  -> description or None."""
  d = dotted(node)
  if d is None:
    return None
  head = d.split(".")[0]
  local = {n.id for n in walk_no_nested(fn) if isinstance(n, ast.Name) and not isinstance(n.ctx, ast.Load)}
  local |= set(_params(fn))
  if "." not in d:
    if d in local:
      # a mutable default argument is shared by all calls
      a = fn.args
      pos = a.posonlyargs + a.args
      defaults = dict(zip([p.arg for p in pos[len(pos) - len(a.defaults):]], a.defaults))
      defaults.update({p.arg: v for p, v in zip(a.kwonlyargs, a.kw_defaults) if v is not None})
      v = defaults.get(d)
      if v is not None and isinstance(v, (ast.Dict, ast.List, ast.Set, ast.Call)):
        return f"mutable default `{d}`"
      return None
    if d in mod.assigns or any(isinstance(n, ast.Global) and d in n.names for n in walk_no_nested(fn)):
      return f"module-level `{d}`"
    return None
  if head in ("cls",) or (cls is not None and head == cls.name) or (
      head == "self" and d.split(".")[1] == "__class__"):
    return f"class attribute `{d}`"
  if head not in local and head in mod.classes:
    return f"class attribute `{d}`"
  return None


def memo_sites(mod, fn, cls):
  """Fills and lookups of long-lived containers in fn: {container text: {"what", "fills": [(node, key, value)], "reads": [...]}}."""
  out = {}

  def slot(node):
    what = _long_lived(mod, fn, cls, node)
    if what is None:
      return None
    return out.setdefault(src(node), {"what": what, "fills": [], "reads": []})
  for n in walk_no_nested(fn):
    if isinstance(n, ast.Subscript) and not isinstance(n.slice, ast.Slice):
      s = slot(n.value)
      if s is None:
        continue
      if isinstance(n.ctx, ast.Store):
        st = mod.enclosing_stmt(n)
        if isinstance(st, ast.Assign) and n in st.targets:
          s["fills"].append((n, n.slice, st.value))
        elif isinstance(st, ast.AugAssign) or isinstance(st, ast.AnnAssign):
          s["fills"].append((n, n.slice, st.value))
        else:
          raise AnalysisError(f"{fn.name}: store into {src(n.value)} has a shape that is not understood")
      elif isinstance(n.ctx, ast.Load):
        s["reads"].append((n, n.slice))
    elif isinstance(n, ast.Call) and isinstance(n.func, ast.Attribute) and n.func.attr in ("get", "setdefault", "pop") \
        and n.args:
      s = slot(n.func.value)
      if s is None:
        continue
      if n.func.attr == "setdefault" and len(n.args) == 2:
        s["fills"].append((n, n.args[0], n.args[1]))
      s["reads"].append((n, n.args[0]))
    elif isinstance(n, ast.Compare) and len(n.ops) == 1 and isinstance(n.ops[0], (ast.In, ast.NotIn)):
      s = slot(n.comparators[0])
      if s is not None:
        s["reads"].append((n, n.left))
  return {k: v for k, v in out.items() if v["fills"] and v["reads"]}


def _inline(fn, node, depth=0):
  """`node` with locals of fn that are bound exactly once (plain assignment, possibly chained) replaced by their value."""
  binds = {}
  for st in walk_no_nested(fn):
    if isinstance(st, ast.Assign):
      for t in st.targets:
        if isinstance(t, ast.Name):
          binds.setdefault(t.id, []).append(st.value)
  stores = {}
  for n in walk_no_nested(fn):
    if isinstance(n, ast.Name) and not isinstance(n.ctx, ast.Load):
      stores[n.id] = stores.get(n.id, 0) + 1
  once = {k: v[0] for k, v in binds.items() if len(v) == 1 and stores.get(k) == 1 and k not in _params(fn)}

  class T(ast.NodeTransformer):
    def visit_Name(self, n):
      if isinstance(n.ctx, ast.Load) and n.id in once:
        return ast.parse(src(once[n.id]), mode="eval").body
      return n
  import copy
  cur = copy.deepcopy(node)
  for _ in range(5):
    new = T().visit(copy.deepcopy(cur))
    if src(new) == src(cur):
      break
    cur = new
  multi = {n.id for n in ast.walk(cur) if isinstance(n, ast.Name) and n.id in stores and n.id not in once
           and n.id not in _params(fn)}
  return cur, multi


def _value_deps(mod, fn, value):
  """Parameters of fn the stored value is computed from (arguments a module-level callee never reads are dropped)."""
  value, multi = _inline(fn, value)
  if multi:
    raise AnalysisError(f"{fn.name}: the cached value is computed from {sorted(multi)}, bound more than once")
  params = set(_params(fn)) - {"self", "cls"}
  deps, ignored = set(), set()

  def walk(e):
    if isinstance(e, ast.Call) and dotted(e.func) in mod.functions and not any(
        isinstance(a, ast.Starred) for a in e.args) and all(k.arg for k in e.keywords):
      g = mod.functions[dotted(e.func)]
      names = [p.arg for p in g.args.posonlyargs + g.args.args]
      bound = list(zip(names, e.args)) + [(k.arg, k.value) for k in e.keywords]
      if len(e.args) <= len(names) and not g.args.vararg and not g.args.kwarg:
        for p, a in bound:
          read = any(isinstance(n, ast.Name) and n.id == p and isinstance(n.ctx, ast.Load) for n in ast.walk(g))
          if read:
            walk(a)
          else:
            ignored.update(n.id for n in ast.walk(a) if isinstance(n, ast.Name) and n.id in params)
        return
    if isinstance(e, ast.Name):
      if e.id in params:
        deps.add(e.id)
      return
    if isinstance(e, (ast.Lambda, ast.GeneratorExp, ast.ListComp, ast.SetComp, ast.DictComp)):
      for n in ast.walk(e):
        if isinstance(n, ast.Name) and n.id in params:
          deps.add(n.id)
      return
    for c in ast.iter_child_nodes(e):
      walk(c)
  walk(value)
  return deps, ignored - deps


def _key_deps(fn, key):
  key, multi = _inline(fn, key)
  if multi:
    raise AnalysisError(f"{fn.name}: the memo key is computed from {sorted(multi)}, bound more than once")
  return {n.id for n in ast.walk(key) if isinstance(n, ast.Name)} & (set(_params(fn)) - {"self", "cls"}), src(key)


_CACHE_DECOS = ("functools.cache", "functools.lru_cache", "cache", "lru_cache", "functools.cached_property",
                "utils.memoize", "memoize")


@rule("R3.22", "C03", floor=1)
def r3_22(ctx):
  """Memos on the way from the source text to the line sets are keyed by every input of the cached value."""
  n_fn = n_memo = 0
  for rel in (PAR, DIR):
    mod = get_module(ctx, rel)
    for qual, fn, cls in _functions(mod):
      n_fn += 1
      for d in fn.decorator_list:
        name = dotted(d.func if isinstance(d, ast.Call) else d) or ""
        if name in _CACHE_DECOS:
          n_memo += 1
          gen = any(isinstance(n, (ast.Yield, ast.YieldFrom)) for n in walk_no_nested(fn))
          ctx.check(not gen, f"{qual}:@{name.rsplit('.', 1)[-1]}", rel, fn.lineno,
                    f"{qual} is a generator function under @{name}: every caller after the first receives the "
                    "same, already exhausted iterator - the directives of a repeated comment are lost",
                    {"decorator": name, "generator": gen})
      for cont, m in sorted(memo_sites(mod, fn, cls).items()):
        for node, key, value in m["fills"]:
          n_memo += 1
          vdeps, ignored = _value_deps(mod, fn, value)
          kdeps, ktxt = _key_deps(fn, key)
          # every lookup must use the key of the fill
          rkeys = sorted({_key_deps(fn, k)[1] for _, k in m["reads"]})
          missing = sorted(vdeps - kdeps)
          facts = {"container": cont, "lifetime": m["what"], "key": ktxt, "value": src(_inline(fn, value)[0])[:120],
                   "value_reads": sorted(vdeps), "arguments_the_callee_ignores": sorted(ignored), "lookup_keys": rkeys}
          if rkeys != [ktxt]:
            raise AnalysisError(f"{qual}: {cont} is looked up with {rkeys} and filled under {ktxt}")
          ctx.check(not missing, f"{qual}:memo-key@{cont}", rel, node.lineno,
                    f"{cont} ({m['what']}) caches `{facts['value']}` under the key `{ktxt}`, but the value is "
                    f"computed from {missing} as well: a later call that differs only in {missing} is served the "
                    "record of the first one (for a parsed directive comment: the line number of the first "
                    "textually identical comment, so the directive is registered on the wrong line)", facts)
  ctx.ok("directive-path:memos", PAR, 0, {"functions": n_fn, "memos": n_memo})


_PC = "def _process_comment(line, lineno, col):\n  \"\"\"Process a single comment.\"\"\"\n"
_MEMO = "_SEEN = {}\n\n\n"


def _wrap(key, fill="  out = _SEEN.get(key)\n  if out is None:\n    out = _SEEN[key] = tuple(_parse_one(line, lineno, col))\n"
          "  return out\n"):
  return (PAR, _PC, _MEMO + "def _process_comment(line, lineno, col):\n  key = " + key + "\n" + fill +
          "\n\ndef _parse_one(line, lineno, col):\n  \"\"\"Process a single comment.\"\"\"\n")


VARIANTS = [
    {"name": "seeded-C03-r3m1", "rule": "R3.22", "patch": "seeded/C03-r3m1/patch.diff", "expect": "fire"},
    {"name": "memo-keyed-by-comment-text-only", "rule": "R3.22", "edits": [_wrap("line[col:]")], "expect": "fire"},
    {"name": "memo-keyed-by-line-and-row-not-column", "rule": "R3.22", "expect": "fire",
     "edits": [(PAR, _PC, _MEMO + "def _process_comment(line, lineno, col):\n"
                "  if (lineno, line) not in _SEEN:\n    _SEEN[lineno, line] = list(_parse_one(line, lineno, col))\n"
                "  return _SEEN[lineno, line]\n\n\ndef _parse_one(line, lineno, col):\n"
                "  \"\"\"Process a single comment.\"\"\"\n")]},
    {"name": "lru-cache-on-the-generator", "rule": "R3.22", "file": PAR, "old": _PC,
     "new": "@functools.lru_cache(maxsize=None)\n" + _PC, "expect": "fire"},
    {"name": "line-ranges-memoised-per-class-by-start-line", "rule": "R3.22", "file": PAR,
     "old": "  def _process_structured_comments(self, line_range, cls=LineRange):\n",
     "new": "  _ranges = {}\n\n  def _range_for(self, start, end, kind):\n"
            "    if start not in _ParseVisitor._ranges:\n      _ParseVisitor._ranges[start] = kind(start, end)\n"
            "    return _ParseVisitor._ranges[start]\n\n"
            "  def _process_structured_comments(self, line_range, cls=LineRange):\n", "expect": "fire"},
    {"name": "twin-memo-keyed-by-all-arguments", "rule": "R3.22", "edits": [_wrap("(line, lineno, col)")],
     "expect": "silent"},
    {"name": "twin-memo-keyed-by-all-arguments-in-lookup-try", "rule": "R3.22", "expect": "silent",
     "edits": [(PAR, _PC, _MEMO + "def _process_comment(line, lineno, col):\n"
                "  if (lineno, col, line) in _SEEN:\n    return _SEEN[lineno, col, line]\n"
                "  found = list(_parse_one(line, lineno, col))\n  _SEEN[lineno, col, line] = found\n  return found\n"
                "\n\ndef _parse_one(line, lineno, col):\n  \"\"\"Process a single comment.\"\"\"\n")]},
    {"name": "twin-delegation-without-memo", "rule": "R3.22", "expect": "silent",
     "edits": [(PAR, _PC, "def _process_comment(line, lineno, col):\n  return _parse_one(line, lineno, col)\n\n\n"
                "def _parse_one(line, lineno, col):\n  \"\"\"Process a single comment.\"\"\"\n")]},
]
