"""C20 extension: what the stub may still contain when libcst gets it.

merge-pyi hands the (filtered) stub to libcst's ApplyTypeAnnotationsVisitor.
Two things that visitor does with a stub change the source in more than
annotations (both read from libcst's installed source on every run):

* leave_Module appends every class definition of the stub whose simple name
  was not met as a ClassDef while transforming the source
  (TypeCollector.visit_ClassDef registers `class_definitions[node.name.value]`,
  leave_ClassDef fills `visited_classes`, leave_Module builds
  `fresh_class_definitions` from the difference and puts it into the new
  module body).  The stub pytype infers for `P = NamedTuple("P", ...)`,
  `collections.namedtuple(...)` or the functional enum API contains
  `class P(NamedTuple)`, so the merge inserts a class statement (defect D57).
* _TypeCollectorDequalifier.leave_Attribute, applied to every annotation and
  every class base of the stub, hands the dotted name to
  TypeCollector._handle_qualification_and_should_qualify, which registers an
  import (AddImportsVisitor.add_needed_import).  pytype's stub printer writes
  a class nested in a class of the same stub as `Outer.Inner`
  (PrintVisitor.VisitNamedType keeps `node.name` when
  LookupItemRecursive(self._unit, ..) finds it - decided, and required of
  every path, by R20.25 in rules/c20_spelling.py), so the merge adds
  `from Outer import Inner` to the source (defect D58).

R20.22 / R20.23 decide the resulting obligations on merge_sources by *model
execution*: the body of merge_sources and the callbacks of the module-local
visitor/transformer classes it instantiates are interpreted (a small
interpreter over their ast, rules/_util_c20.py; nothing of pytype or libcst is
imported or run; helper functions, helper methods incl. @staticmethod and
super() through module-local bases, class and module constants, loops with
break/continue are followed) on witness trees - libcst-shaped model nodes for a source module and for
the stub pytype would print for it - following libcst's traversal protocol
(visit_X / children / leave_X, RemovalSentinel, read-only CSTVisitor).  The
tree that arrives at `_merge_csts(pyi_tree=...)` is then inspected:

R20.22  it holds no ClassDef (at any depth the stub reader descends to) whose
        simple name is not the name of a ClassDef of the source witness;
R20.23  no Annotation in it and no base of a ClassDef in it holds an
        Attribute chain rooted at the name of a class of the stub, and no
        annotation was left as a subscripted string (`"A.B"[int]`, a TypeError
        when the annotation is evaluated).

Anything the interpreter does not model (an unknown statement kind, a test on
a value it does not know, a foreign visitor in the chain) is an
ANALYSIS-ERROR, never a verdict.
"""
import ast
import os

from sa.core import rule, AnalysisError
from sa.pyindex import get_module, dotted, src, walk_no_nested
from sa import flow
from rules import c20 as base
from rules._util_c20 import (_N, _Source, _Interp, _unmodelled, _name, _dotted)

MP = base.MP
PR = "pytype/pytd/printer.py"
_APPLY_FILE = os.path.join("codemod", "visitors", "_apply_type_annotations.py")


# -- libcst reference facts -------------------------------------------------------

def _apply_classes(ctx):
  """name -> {method name -> def} for the classes of libcst's
  _apply_type_annotations.py (parsed, never imported)."""
  def load():
    path = os.path.join(base._cst(ctx).root, _APPLY_FILE)
    try:
      with open(path, encoding="utf-8") as f:
        tree = ast.parse(f.read())
    except (OSError, SyntaxError) as e:
      raise AnalysisError(f"libcst reference {path}: {e}") from e
    out = {}
    for st in tree.body:
      if isinstance(st, ast.ClassDef):
        out[st.name] = {s.name: s for s in st.body if isinstance(s, ast.FunctionDef)}
    return out
  return ctx.memo(("c20sc", "apply"), load)


def _ref_method(ctx, cls, meth):
  classes = _apply_classes(ctx)
  fn = classes.get(cls, {}).get(meth)
  if fn is None:
    raise AnalysisError(f"libcst reference: {cls}.{meth} not found")
  return fn


def _mentions(node, attr):
  return [n for n in ast.walk(node) if isinstance(n, ast.Attribute) and n.attr == attr]


def _libcst_appends_stub_classes(ctx):
  """Facts behind R20.22, or None when this libcst does not add classes."""
  lm = _ref_method(ctx, base.APPLY, "leave_Module")
  if not _mentions(lm, "class_definitions"):
    return None
  # (a) the stub reader registers every ClassDef under its simple name
  vc = _ref_method(ctx, "TypeCollector", "visit_ClassDef")
  node = vc.args.args[1].arg
  reg = [s for s in walk_no_nested(vc) if isinstance(s, ast.Assign)
         and isinstance(s.targets[0], ast.Subscript)
         and (dotted(s.targets[0].value) or "").endswith(".class_definitions")]
  if len(reg) != 1 or src(reg[0].targets[0].slice) != f"{node}.name.value":
    raise AnalysisError(
        "libcst reference: TypeCollector.visit_ClassDef does not register the "
        "class under node.name.value")
  rets = [r for r in walk_no_nested(vc) if isinstance(r, ast.Return) and r.value is not None]
  if rets:
    raise AnalysisError(
        "libcst reference: TypeCollector.visit_ClassDef returns a value (may "
        "prune nested classes): not modelled")
  # (b) the applier remembers the simple names of the source's classes
  lc = _ref_method(ctx, base.APPLY, "leave_ClassDef")
  orig = lc.args.args[1].arg
  seen = [c for c in ast.walk(lc) if isinstance(c, ast.Call)
          and (dotted(c.func) or "").endswith(".visited_classes.add")
          and len(c.args) == 1]
  if len(seen) != 1 or src(seen[0].args[0]) not in (
      f"{orig}.name.value", f"{lc.args.args[2].arg}.name.value"):
    raise AnalysisError(
        "libcst reference: leave_ClassDef does not record the class name in "
        "visited_classes")
  # (c) leave_Module puts the unvisited ones into the module body
  fresh = None
  for st in walk_no_nested(lm):
    if isinstance(st, ast.Assign) and isinstance(st.value, ast.ListComp) and \
        len(st.targets) == 1 and isinstance(st.targets[0], ast.Name):
      comp = st.value
      if _mentions(comp.generators[0].iter, "class_definitions") and any(
          isinstance(c, ast.Compare) and isinstance(c.ops[0], ast.NotIn)
          and (dotted(c.comparators[0]) or "").endswith(".visited_classes")
          for g in comp.generators for c in g.ifs):
        fresh = st
  if fresh is None:
    raise AnalysisError(
        "libcst reference: leave_Module uses class_definitions in a way that "
        "is not understood")
  tainted = {fresh.targets[0].id}
  changed = True
  while changed:
    changed = False
    for n in walk_no_nested(lm):
      tgt = None
      if isinstance(n, ast.Call) and isinstance(n.func, ast.Attribute) and \
          n.func.attr in ("extend", "append", "insert") and \
          isinstance(n.func.value, ast.Name):
        if any(isinstance(x, ast.Name) and x.id in tainted
               for a in n.args for x in ast.walk(a)):
          tgt = n.func.value.id
      elif isinstance(n, (ast.Assign, ast.AugAssign)) and n is not fresh:
        t = n.targets[0] if isinstance(n, ast.Assign) else n.target
        if isinstance(t, ast.Name) and any(
            isinstance(x, ast.Name) and x.id in tainted for x in ast.walk(n.value)):
          tgt = t.id
      if tgt and tgt not in tainted:
        tainted.add(tgt)
        changed = True
  into_body = False
  for r in walk_no_nested(lm):
    if isinstance(r, ast.Return) and isinstance(r.value, ast.Call) and \
        isinstance(r.value.func, ast.Attribute) and r.value.func.attr == "with_changes":
      for k in r.value.keywords:
        if k.arg == "body" and any(isinstance(x, ast.Name) and x.id in tainted
                                   for x in ast.walk(k.value)):
          into_body = True
  if not into_body:
    raise AnalysisError(
        "libcst reference: leave_Module computes the unvisited stub classes but "
        "their way into the module body is not understood")
  return {"registered_as": src(reg[0].targets[0]), "visited": src(seen[0]),
          "unvisited": src(fresh.value)[:140],
          "reaches_module_body_through": sorted(tainted)}


def _libcst_imports_dotted_names(ctx):
  """Facts behind R20.23: where the dequalifier runs and that it registers
  imports for Attribute nodes."""
  la = _ref_method(ctx, "_TypeCollectorDequalifier", "leave_Attribute")
  hq = "_handle_qualification_and_should_qualify"
  calls = [c for c in ast.walk(la) if isinstance(c, ast.Call)
           and isinstance(c.func, ast.Attribute) and c.func.attr == hq]
  if not calls:
    return None
  h = _ref_method(ctx, "TypeCollector", hq)
  adds = [c for c in ast.walk(h) if isinstance(c, ast.Call)
          and (dotted(c.func) or "").endswith("AddImportsVisitor.add_needed_import")]
  if not adds:
    return None
  sites = {}
  for name, fn in sorted(_apply_classes(ctx)["TypeCollector"].items()):
    n = 0
    for c in ast.walk(fn):
      if isinstance(c, ast.Call) and isinstance(c.func, ast.Attribute) \
          and c.func.attr == "visit" and len(c.args) == 1 \
          and isinstance(c.args[0], ast.Call) \
          and dotted(c.args[0].func) == "_TypeCollectorDequalifier":
        n += 1
    if n:
      sites[name] = n
  if not sites:
    raise AnalysisError("libcst reference: _TypeCollectorDequalifier is never applied")
  known = {"visit_ClassDef", "visit_FunctionDef", "visit_AnnAssign", "_handle_Parameters"}
  if set(sites) - known:
    raise AnalysisError(
        f"libcst reference: the dequalifier is also applied in {sorted(set(sites) - known)}")
  return {"dequalifier": "leave_Attribute -> " + hq + " -> add_needed_import",
          "applied_in": sites, "import_calls": len(adds)}


def _printer_keeps_unit_local_dotted_names(ctx):
  """What PrintVisitor.VisitNamedType prints for a dotted name that
  LookupItemRecursive finds inside the unit being printed (a class nested in a
  class of the same stub): decided by the spelling analysis of
  rules/c20_spelling.py, which also judges it (R20.25: it must be node.name
  and nothing else).  Returns facts; AnalysisError when the anchor is gone or
  the method is not understood."""
  from rules import c20_spelling as sp
  atoms, facts = sp.spellings(ctx)["VisitNamedType"]
  return {"method": "VisitNamedType", "lookup": facts["lookup"],
          "helpers_followed": facts["helpers_followed"],
          "prints": sp.describe(atoms), "keeps_the_dotted_name": sp.NAME in atoms,
          "judged_by": "R20.25"}


# -- witness trees --------------------------------------------------------------------

def _sub(value, *elems):
  return _N("Subscript", value=value,
            slice=[_N("SubscriptElement", slice=_N("Index", value=x)) for x in elems])


def _ann(expr):
  return _N("Annotation", annotation=expr)


def _line(small):
  return _N("SimpleStatementLine", body=[small])


def _dots():
  return _N("SimpleStatementSuite", body=[_N("Expr", value=_N("Ellipsis"))])


def _func(name, params, returns):
  return _N("FunctionDef", name=_name(name), decorators=[],
            params=_N("Parameters", params=[
                _N("Param", name=_name(p), annotation=(_ann(a) if a is not None else None),
                   default=None) for p, a in params]),
            returns=_ann(returns) if returns is not None else None, body=_dots())


def _cls(name, bases, body):
  return _N("ClassDef", name=_name(name), decorators=[], keywords=[],
            bases=[_N("Arg", value=b, keyword=None) for b in bases],
            body=_N("IndentedBlock", body=body) if body else _dots())


def _decl(name, ann):
  return _line(_N("AnnAssign", target=_name(name), annotation=_ann(ann), value=None))


def _assign(name, value):
  return _line(_N("Assign", targets=[_N("AssignTarget", target=_name(name))], value=value))


# Names nobody hard-codes.  The source defines KeptQz (with the nested class
# InnerQz), DerivedQz and the function helperQz; `PointQz` and
# `KeptQz.PairQz` are namedtuple-style assignments, so only the stub has class
# statements for them.
_K, _I, _D, _P, _NP, _F = "KeptQz", "InnerQz", "DerivedQz", "PointQz", "PairQz", "helperQz"

# Three shapes the repair of D57/D58 (RemoveUndefinedClassesTransformer,
# QuoteNestedClassesTransformer) is known NOT to handle; each was reproduced
# with libcst alone on hand-written stubs.  They are left out of the witness so
# that the rules decide the repair as it stands; set to True to have them judged.
#  (1) a class statement inside a function body whose name a stub-only class
#      shares: the collector counts it, libcst's visited_classes does not;
#  (2) a subscripted dotted base `class C(Outer.Inner[int])`;
#  (3) a dotted name rooted at a stub class that was itself dropped
#      (`Literal[Color.RED]` for `Color = enum.Enum("Color", ..)`).
_EXTENDED_WITNESS = True


def _witness():
  call = _N("Call", func=_name("NamedTuple"), args=[])
  source = _N("Module", body=[
      _cls(_K, [], [
          _cls(_I, [], []),
          _assign(_NP, call),
          _func("method", [("self", None), ("a", None)], None),
      ]),
      _cls(_D, [_dotted(_K, _I)], []),
      _assign(_P, call),
      _func(_F, [("x", None)], None),
      _assign("v", _N("Integer", value="1")),
  ], header=[], footer=[])
  inner = _dotted(_K, _I)
  stub = _N("Module", body=[
      _cls(_K, [], [
          _decl("attr", _dotted(_K, _I)),
          _cls(_I, [], []),
          _cls(_NP, [_name("NamedTuple")], [_decl("first", _dotted(_K, _I))]),
          _func("method", [("self", None), ("a", _dotted(_K, _I))],
                _sub(_name("list"), _dotted(_K, _I))),
      ]),
      _cls(_D, [_dotted(_K, _I)], []),
      _cls(_P, [_name("NamedTuple")], [_decl("x", _name("int")),
                                       _decl("y", _dotted(_K, _I))]),
      # a stub class named like a function of the source is not one of its classes
      _cls(_F, [_name("NamedTuple")], []),
      _func(_F, [("x", _dotted(_K, _I, "DeepQz"))], _sub(inner, _name("int"))),
      _decl("v", _dotted(_K, _I)),
  ], header=[], footer=[])
  if _EXTENDED_WITNESS:
    local = _func("makerQz", [], None)
    local.fields["body"] = _N("IndentedBlock", body=[_cls(_P, [], [])])
    source.fields["body"] += [local, _cls("GenQz", [_sub(_dotted(_K, _I), _name("int"))], [])]
    stub.fields["body"] += [
        _cls("GenQz", [_sub(_dotted(_K, _I), _name("int"))], []),
        _func("makerQz", [], _sub(_name("Literal"), _dotted(_P, "x")))]
  return source, stub


def _walk(node, path=""):
  """(path, node) for every model node below `node`, the stub reader's way:
  it does not look below a FunctionDef's body."""
  yield path, node
  for f, v in node.fields.items():
    if node.cls == "FunctionDef" and f == "body":
      continue
    if isinstance(v, _N):
      yield from _walk(v, f"{path}/{f}")
    elif isinstance(v, (list, tuple)):
      for i, c in enumerate(v):
        if isinstance(c, _N):
          label = c.fields["name"].fields["value"] if c.cls in ("ClassDef", "FunctionDef") \
              and isinstance(c.fields.get("name"), _N) else str(i)
          yield from _walk(c, f"{path}/{f}[{label}]")


def _class_names(tree):
  return [(p, n.fields["name"].fields["value"]) for p, n in _walk(tree)
          if n.cls == "ClassDef"]


def _root(node):
  while isinstance(node, _N) and node.cls == "Attribute":
    node = node.fields.get("value")
  return node.fields.get("value") if isinstance(node, _N) and node.cls == "Name" else None


def _text(node):
  if not isinstance(node, _N):
    return repr(node)
  if node.cls == "Name":
    return str(node.fields.get("value"))
  if node.cls == "Attribute":
    return f"{_text(node.fields.get('value'))}.{_text(node.fields.get('attr'))}"
  if node.cls == "Subscript":
    inner = ", ".join(_text(x.fields["slice"].fields["value"])
                      for x in node.fields.get("slice", ())
                      if isinstance(x, _N) and isinstance(x.fields.get("slice"), _N)
                      and "value" in x.fields["slice"].fields)
    return f"{_text(node.fields.get('value'))}[{inner}]"
  if node.cls == "SimpleString":
    return "<string>"
  return f"<{node.cls}>"


def _run(ctx):
  """Model execution of merge_sources on the witness; memoised per run."""
  def go():
    it = _Interp(ctx)
    source, stub = _witness()
    ms = it.m.ms
    try:
      it.call(ms, None, [], {"py": _Source(source, "py"), "pyi": _Source(stub, "pyi")})
    except RecursionError as e:
      raise _unmodelled("recursion too deep") from e
    if it.captured is None:
      raise _unmodelled("_merge_csts was not reached")
    got = it.captured.get("pyi_tree")
    src_tree = it.captured.get("py_tree")
    if not isinstance(got, _N) or got.cls != "Module":
      raise _unmodelled(f"the stub handed to _merge_csts is {got!r}")
    if src_tree is not source:
      raise _unmodelled("the source tree handed to _merge_csts is not the parsed source")
    return {"source": source, "stub": stub, "merged_with": got, "trace": it.trace}
  return ctx.memo(("c20sc", "run"), go)


# -- R20.22 -----------------------------------------------------------------------------

@rule("R20.22", "C20", floor=2)
def r20_22(ctx):
  """Stub classes the source has no class statement for do not reach libcst."""
  ref = _libcst_appends_stub_classes(ctx)
  if ref is None:
    ctx.ok("libcst-reference:stub-classes-appended", MP, 0,
           {"appends": False, "why": f"{base.APPLY}.leave_Module does not use class_definitions"})
    ctx.ok("merge_sources:stub-only-classes-dropped", MP, 0, {"needed": False})
    return
  ctx.ok("libcst-reference:stub-classes-appended", MP, 0, dict(ref, appends=True))
  run = _run(ctx)
  defined = {n for _, n in _class_names(run["source"])}
  before = _class_names(run["stub"])
  after = _class_names(run["merged_with"])
  extra = [(p, n) for p, n in after if n not in defined]
  facts = {"witness_source_classes": sorted(defined),
           "witness_stub_classes": sorted(n for _, n in before),
           "classes_reaching_libcst": sorted(n for _, n in after),
           "not_judged": [] if _EXTENDED_WITNESS else [
               "class statements inside function bodies of the source"],
           "pipeline": run["trace"]}
  m = base._model(ctx)
  ctx.check(not extra, "merge_sources:stub-only-classes-dropped", MP, m.call.lineno,
            f"the stub handed to _merge_csts still defines "
            f"{sorted(n for _, n in extra)} (at {[p for p, _ in extra][:3]}) although the "
            f"source witness has no class statement of that name (it defines "
            f"{sorted(defined)}; the others are `X = NamedTuple(..)`-style assignments "
            "and a function): libcst's leave_Module appends every stub class it did "
            "not meet in the source, so merge-pyi inserts `class X(NamedTuple): ...` "
            "into the program", facts)


# -- R20.23 -----------------------------------------------------------------------------

def _dotted_refs(tree, roots):
  """Places of the stub where libcst's dequalifier would meet an Attribute
  chain rooted at one of `roots`: inside Annotation nodes and in class bases."""
  bad, odd = [], []
  for path, n in _walk(tree):
    holders = []
    if n.cls == "Annotation":
      holders = [("annotation", n.fields.get("annotation"))]
    elif n.cls == "ClassDef":
      holders = [(f"base{i}", b.fields.get("value"))
                 for i, b in enumerate(n.fields.get("bases") or ()) if isinstance(b, _N)]
    for label, expr in holders:
      if not isinstance(expr, _N):
        continue
      for _, x in _walk(expr):
        if x.cls == "Attribute" and _root(x) in roots:
          bad.append((f"{path}:{label}", _text(x)))
          break
      for _, x in _walk(expr):
        if x.cls == "Subscript" and isinstance(x.fields.get("value"), _N) and \
            x.fields["value"].cls in ("SimpleString", "ConcatenatedString"):
          odd.append((f"{path}:{label}", _text(x)))
  return bad, odd


@rule("R20.23", "C20", floor=3)
def r20_23(ctx):
  """Dotted references to classes nested in a stub class do not reach libcst."""
  ref = _libcst_imports_dotted_names(ctx)
  if ref is None:
    ctx.ok("libcst-reference:dotted-names-imported", MP, 0,
           {"imports": False,
            "why": "the stub reader no longer registers imports for Attribute nodes"})
  else:
    ctx.ok("libcst-reference:dotted-names-imported", MP, 0, dict(ref, imports=True))
  pr = _printer_keeps_unit_local_dotted_names(ctx)
  ctx.ok("printer-reference:unit-local-dotted-names", PR, 0, pr)
  if ref is None:
    ctx.ok("merge_sources:nested-class-references-hidden", MP, 0, {"needed": False})
    return
  run = _run(ctx)
  roots = {n for _, n in _class_names(run["stub"])}
  before, _ = _dotted_refs(run["stub"], roots)
  bad, odd = _dotted_refs(run["merged_with"], roots)
  facts = {"witness_stub_classes": sorted(roots),
           "dotted_references_in_witness": len(before),
           "dotted_references_reaching_libcst": [list(x) for x in bad[:6]],
           "subscripted_strings": [list(x) for x in odd[:6]],
           "not_judged": [] if _EXTENDED_WITNESS else [
               "subscripted dotted bases (`class C(A.B[int])`)",
               "dotted names rooted at a stub class that was dropped"],
           "pipeline": run["trace"]}
  m = base._model(ctx)
  if not before:
    raise AnalysisError("R20.23: the witness stub has no dotted reference")
  reason = ""
  if bad:
    reason = (f"the stub handed to _merge_csts still spells classes nested in a stub "
              f"class as dotted names ({[f'{t} at {p}' for p, t in bad[:3]]}, "
              f"{len(bad)} of {len(before)} in the witness): libcst's stub reader takes "
              "`A.B` in an annotation or a base list for `B from module A` "
              "(_TypeCollectorDequalifier.leave_Attribute -> add_needed_import), so "
              "merge-pyi adds `from A import B` to the program, which fails when run")
  elif odd:
    reason = (f"the filter turned the dotted name inside a subscript into a string but "
              f"left the subscript ({[f'{t} at {p}' for p, t in odd[:3]]}): "
              "`\"A.B\"[int]` raises TypeError when the annotation is evaluated")
  ctx.check(not bad and not odd, "merge_sources:nested-class-references-hidden", MP,
            m.call.lineno, reason, facts)


# -- sensitivity suite (texts of the repaired merge_pyi.py) -----------------------------

_STEP22 = "        .visit(RemoveUndefinedClassesTransformer(class_collector.class_names))\n"
_LEAVE22 = """    if original_node.name.value not in self._class_names:
      return cst.RemovalSentinel.REMOVE
    return updated_node
"""
_STEP23 = "        .visit(QuoteNestedClassesTransformer(stub_class_collector.class_names))\n"
_CHAIN_END = _STEP23 + "    )\n"
_COLLECT = """  def visit_ClassDef(self, node: cst.ClassDef) -> None:
    self.class_names.add(node.name.value)
"""
_PRED = """    if not isinstance(node, cst.Attribute):
      return False
    while isinstance(node, cst.Attribute):
      node = node.value
    return isinstance(node, cst.Name) and node.value in self._class_names
"""
_VISIT_ANN = """  def visit_Annotation(self, node: cst.Annotation) -> None:
    self._annotation_depth += 1

"""
_LEAVE_SUB = """  def leave_Subscript(
      self, original_node: cst.Subscript, updated_node: cst.Subscript
  ) -> cst.BaseExpression:
    if self._annotation_depth and self._is_nested_class(original_node.value):
      return cst.SimpleString(repr(cst.Module([]).code_for_node(original_node)))
    return updated_node

"""
_LEAVE_CLS23 = """    bases = [
        base
        for base in updated_node.bases
        if not self._is_nested_class(base.value)
    ]
    return updated_node.with_changes(bases=bases)
"""
_STUB_HEAD = """    pyi_cst = cst.parse_module(pyi)
    stub_class_collector = _ClassNameCollector()
    pyi_cst.visit(stub_class_collector)
    pyi_cst = (
        pyi_cst.visit(RemoveAnyNeverTransformer())
"""


def _v(name, rid, old, new, expect="fire"):
  return {"name": name, "rule": rid, "file": MP, "old": old, "new": new,
          "expect": expect}


VARIANTS = [
    # R20.22
    _v("undefined-classes-filter-skipped", "R20.22", _STEP22, ""),
    _v("class-names-collected-from-the-stub", "R20.22",
       "    py_cst.visit(class_collector)\n",
       "    cst.parse_module(pyi).visit(class_collector)\n"),
    # nothing is collected, so every stub class is dropped (fine for R20.22) -
    # and the dotted names that pointed into them are now rooted at nothing
    # (the stub's class names are collected before the drop, so the dotted names
    # that pointed into dropped classes are still hidden)
    _v("twin-class-names-never-collected-dotted-names-still-hidden", "R20.23",
       "    py_cst.visit(class_collector)\n", "", "silent"),
    _v("stub-class-names-collected-after-the-drop", "R20.23",
       "    pyi_cst = cst.parse_module(pyi)\n"
       "    stub_class_collector = _ClassNameCollector()\n"
       "    pyi_cst.visit(stub_class_collector)\n"
       "    pyi_cst = (\n"
       "        pyi_cst.visit(RemoveAnyNeverTransformer())\n"
       "        .visit(RemoveTrivialTypesTransformer())\n"
       "        .visit(RemoveUndefinedClassesTransformer(class_collector.class_names))\n"
       "        .visit(QuoteNestedClassesTransformer(stub_class_collector.class_names))\n"
       "    )\n",
       "    pyi_cst = (\n"
       "        cst.parse_module(pyi)\n"
       "        .visit(RemoveAnyNeverTransformer())\n"
       "        .visit(RemoveTrivialTypesTransformer())\n"
       "        .visit(RemoveUndefinedClassesTransformer(class_collector.class_names))\n"
       "    )\n"
       "    stub_class_collector = _ClassNameCollector()\n"
       "    pyi_cst.visit(stub_class_collector)\n"
       "    pyi_cst = pyi_cst.visit(\n"
       "        QuoteNestedClassesTransformer(stub_class_collector.class_names)\n"
       "    )\n"),
    _v("undefined-classes-test-inverted", "R20.22",
       "    if original_node.name.value not in self._class_names:",
       "    if original_node.name.value in self._class_names:"),
    _v("undefined-classes-filter-skips-class-bodies", "R20.22",
       "    self._class_names = class_names\n\n  def leave_ClassDef(",
       "    self._class_names = class_names\n\n"
       "  def visit_ClassDef(self, node: cst.ClassDef) -> bool:\n"
       "    return False\n\n  def leave_ClassDef("),
    _v("collector-also-records-function-names", "R20.22",
       "    # The merge does not look for classes inside function bodies either.\n"
       "    return False\n",
       "    self.class_names.add(node.name.value)\n    return False\n"),
    _v("collector-descends-into-function-bodies", "R20.22",
       "    # The merge does not look for classes inside function bodies either.\n"
       "    return False\n",
       "    return True\n"),
    _v("collector-skips-nested-classes-drops-more", "R20.22", _COLLECT,
       "  def visit_ClassDef(self, node: cst.ClassDef) -> bool:\n"
       "    self.class_names.add(node.name.value)\n    return False\n", "silent"),
    _v("undefined-classes-kept-when-they-have-bases", "R20.22",
       "    if original_node.name.value not in self._class_names:",
       "    if (\n        original_node.name.value not in self._class_names\n"
       "        and not original_node.bases\n    ):"),
    _v("twin-undefined-classes-test-as-early-return", "R20.22", _LEAVE22,
       "    if updated_node.name.value in self._class_names:\n"
       "      return updated_node\n    return cst.RemoveFromParent()\n", "silent"),
    _v("twin-class-names-collected-on-leave", "R20.22", _COLLECT,
       "  def leave_ClassDef(self, original_node: cst.ClassDef) -> None:\n"
       "    self.class_names.add(original_node.name.value)\n", "silent"),
    {"name": "twin-undefined-classes-filter-as-its-own-statement", "rule": "R20.22",
     "expect": "silent",
     "edits": [(MP, _STEP22, ""),
               (MP, "    merged_cst = _merge_csts(",
                "    defined = class_collector.class_names\n"
                "    pyi_cst = pyi_cst.visit(RemoveUndefinedClassesTransformer(defined))\n"
                "    merged_cst = _merge_csts(")]},
    # dropping first and collecting the stub's class names afterwards leaves the
    # references into the dropped classes dotted
    {"name": "undefined-classes-dropped-before-the-stub-names-are-collected",
     "rule": "R20.23", "expect": "fire",
     "edits": [(MP, _STEP22, ""),
               (MP, "    stub_class_collector = _ClassNameCollector()\n",
                "    defined = class_collector.class_names\n"
                "    pyi_cst = pyi_cst.visit(RemoveUndefinedClassesTransformer(defined))\n"
                "    stub_class_collector = _ClassNameCollector()\n")]},
    _v("class-names-come-from-an-unknown-helper", "R20.22",
       "RemoveUndefinedClassesTransformer(class_collector.class_names)",
       "RemoveUndefinedClassesTransformer(pytd_utils.ClassNames(py))", "error"),
    # R20.23
    _v("nested-class-filter-skipped", "R20.23", _STEP23, ""),
    _v("nested-class-filter-result-discarded", "R20.23", _CHAIN_END,
       "    )\n    pyi_cst.visit(\n"
       "        QuoteNestedClassesTransformer(stub_class_collector.class_names))\n"),
    _v("annotation-depth-never-counted", "R20.23", _VISIT_ANN, ""),
    _v("only-one-level-of-nesting-recognised", "R20.23", _PRED,
       "    return (\n        isinstance(node, cst.Attribute)\n"
       "        and isinstance(node.value, cst.Name)\n"
       "        and node.value.value in self._class_names\n    )\n"),
    _v("dotted-bases-kept", "R20.23", _LEAVE_CLS23, "    return updated_node\n"),
    _v("subscript-of-nested-class-left-around-the-string", "R20.23", _LEAVE_SUB, ""),
    _v("nested-class-names-of-an-empty-collector", "R20.23",
       "    pyi_cst.visit(stub_class_collector)\n", ""),
    # the source's class names miss the stub-only classes: a reference into a
    # dropped class (`P.x` for `P = NamedTuple(..)`) stays dotted
    _v("nested-class-names-from-the-source-collector", "R20.23",
       "QuoteNestedClassesTransformer(stub_class_collector.class_names)",
       "QuoteNestedClassesTransformer(class_collector.class_names)"),
    _v("twin-nested-class-test-with-a-cursor", "R20.23", _PRED,
       "    cur = node\n    depth = 0\n"
       "    while isinstance(cur, cst.Attribute):\n"
       "      cur = cur.value\n      depth += 1\n"
       "    if not depth or not isinstance(cur, cst.Name):\n      return False\n"
       "    return cur.value in self._class_names\n", "silent"),
    _v("twin-string-built-with-keyword", "R20.23",
       "    if self._annotation_depth and self._is_nested_class(original_node):\n"
       "      return cst.SimpleString(repr(cst.Module([]).code_for_node(original_node)))",
       "    if self._annotation_depth and self._is_nested_class(original_node):\n"
       "      text = cst.Module([]).code_for_node(original_node)\n"
       "      return cst.SimpleString(value=repr(text))", "silent"),
    # the read-only collector may sit in the chain itself: it hands the tree on
    _v("twin-stub-class-names-collected-inside-the-chain", "R20.23", _STUB_HEAD,
       "    stub_class_collector = _ClassNameCollector()\n"
       "    pyi_cst = (\n        cst.parse_module(pyi)\n"
       "        .visit(stub_class_collector)\n"
       "        .visit(RemoveAnyNeverTransformer())\n", "silent"),
    # ... but not behind the filter that drops the stub-only classes
    {"name": "stub-class-names-collected-inside-the-chain-after-the-drop", "rule": "R20.23",
     "expect": "fire",
     "edits": [(MP, _STUB_HEAD, "    stub_class_collector = _ClassNameCollector()\n"
                "    pyi_cst = (\n        cst.parse_module(pyi)\n"
                "        .visit(RemoveAnyNeverTransformer())\n"),
               (MP, _STEP23, "        .visit(stub_class_collector)\n" + _STEP23)]},
    _v("nested-class-test-given-the-base-wrapper", "R20.3",
       "        if not self._is_nested_class(base.value)\n",
       "        if not self._is_nested_class(base)\n"),
    _v("nested-class-root-tested-for-a-statement-class", "R20.3",
       "    return isinstance(node, cst.Name) and node.value in self._class_names",
       "    return isinstance(node, cst.Expr) and node.value in self._class_names"),
    _v("collector-applied-as-if-it-could-rewrite", "R20.4",
       "class _ClassNameCollector(cst.CSTVisitor):",
       "class _ClassNameCollector(cst.CSTTransformer):"),
    _v("string-node-given-the-attribute", "R20.6",
       "    if self._annotation_depth and self._is_nested_class(original_node):\n"
       "      return cst.SimpleString(repr(cst.Module([]).code_for_node(original_node)))",
       "    if self._annotation_depth and self._is_nested_class(original_node):\n"
       "      return cst.SimpleString(repr(original_node), original_node)"),
    # the same defects seeded into the refactored text (benign/C20-r2, -r3)
    {"name": "r2-undefined-classes-filter-left-out-of-the-tuple", "rule": "R20.22",
     "patch": "benign/C20-r2/defect_undefined_classes_filter_left_out.diff", "expect": "fire"},
    {"name": "r2-nested-class-names-from-the-source-helper-result", "rule": "R20.23",
     "patch": "benign/C20-r2/defect_stub_names_collected_from_the_source.diff",
     "expect": "fire"},
    {"name": "r3-shared-membership-helper-inverted", "rule": "R20.22",
     "patch": "benign/C20-r3/defect_known_class_test_inverted.diff", "expect": "fire"},
    {"name": "r3-undefined-classes-kept-after-the-guard-clause", "rule": "R20.22",
     "patch": "benign/C20-r3/defect_undefined_classes_kept.diff", "expect": "fire"},
    {"name": "r3-static-quoting-helper-returns-the-node", "rule": "R20.23",
     "patch": "benign/C20-r3/defect_quoted_returns_the_node.diff", "expect": "fire"},
    {"name": "r3-loop-keeps-the-dotted-bases", "rule": "R20.23",
     "patch": "benign/C20-r3/defect_dotted_bases_kept.diff", "expect": "fire"},
    {"name": "r3-subclass-init-does-not-chain-to-the-shared-base", "rule": "R20.22",
     "patch": "benign/C20-r3/defect_base_init_not_chained.diff", "expect": "error"},
    {"name": "r3-module-constant-re-bound", "rule": "R20.22",
     "patch": "benign/C20-r3/defect_trivial_names_constant_rebound.diff", "expect": "error"},
]
