"""C15 extension R15.24 (D56, repaired by 2c1cc1d): reported a
genuine pytype defect on the original tree.


Concrete failing input (confirmed on a scratch build of /repo @ 356618e):

    x = [*{1: 2}]          # also: x = [1, 2, *{3: 4}]

  io.generate_pyi raises
    TypeError: can only concatenate tuple (not "dict") to tuple
  at constant_folding.py, LIST_EXTEND arm: `elements = lst.elements + other_elts`.

R15.24  `_Constant.elements` has a different representation per tag: a dict
        {key value: _Constant} for 'map', a tuple of _Constant for
        list/tuple/set, None for 'prim'.  An arm of the folding pass that
        treats `X.elements` as a sequence (tuple concatenation) must have
        excluded every tag whose elements are not a tuple on its path.  The
        representation per tag is read from the `_Constant(...)`
        constructions of the module; the tags an operand can still have are
        all tags minus those excluded by the `<tag var> == '<tag>'` tests on
        the path (where `<tag var>, _ = X.typ`).

        Today: the LIST_EXTEND arm handles `other_tag == 'tuple'` and
        `other_tag == 'prim'` and sends everything else (list, set, map) to
        `other_elts = other.elements`; for a map operand that is a dict.
        Same arm: `typ = (tag, et | set(other_et))` unions the (key types,
        value types) *pair* of a map into the element types.
        Suggested fix: an `elif other_tag == 'map':` arm that iterates the
        keys (`other_et = other_et[0]`, `other_elts = tuple(_Constant(t?, k,
        None, other.op) for k in other.value)`), or give up folding (push
        None) for map operands.
"""
import ast

from sa.core import rule, AnalysisError
from sa.pyindex import get_module, dotted, src, calls_in
from sa import flow

CF = "pytype/constant_folding.py"
TUPLE, DICT, NONE, UNKNOWN = "tuple", "dict", "none", "unknown"


def _fn_of(mod, node):
  return mod.enclosing_function(node)


def _defs(fn, name):
  return [n for n in ast.walk(fn) if isinstance(n, ast.Assign)
          and any(isinstance(t, ast.Name) and t.id == name for t in n.targets)]


def _closest_def(mod, fn, name, before):
  """The last plain assignment to `name` in the same block chain before `before`."""
  best = None
  for d in _defs(fn, name):
    if d.lineno < before.lineno and (best is None or d.lineno > best.lineno):
      # must be in an enclosing block of `before`
      par = mod.parent.get(d)
      cur = before
      while cur in mod.parent:
        cur = mod.parent[cur]
        if cur is par:
          best = d
          break
  return best


def _elements_kind(mod, fn, e, at):
  """Representation of an `elements` argument."""
  if isinstance(e, ast.Constant) and e.value is None:
    return NONE
  if isinstance(e, ast.Dict) or (isinstance(e, ast.Call) and dotted(e.func) == "dict"):
    return DICT
  if isinstance(e, ast.Tuple) or (isinstance(e, ast.Call) and dotted(e.func) == "tuple"):
    return TUPLE
  if isinstance(e, ast.BinOp) and isinstance(e.op, ast.Add):
    ks = {_elements_kind(mod, fn, e.left, at), _elements_kind(mod, fn, e.right, at)}
    return TUPLE if TUPLE in ks and ks <= {TUPLE, UNKNOWN} else UNKNOWN
  if isinstance(e, ast.Subscript) and src(e.slice) == "1":
    return TUPLE   # second component of a ('tuple', (...)) typestruct
  if isinstance(e, ast.Attribute) and e.attr == "elements" and isinstance(e.value, ast.Name):
    d = _closest_def(mod, fn, e.value.id, at)
    if d is not None and isinstance(d.value, ast.Call):
      callee = (dotted(d.value.func) or "").split(".")[-1]
      if callee == "fold_map_args":
        return DICT
      if callee == "fold_args":
        return TUPLE
    return UNKNOWN
  if isinstance(e, ast.Name):
    d = _closest_def(mod, fn, e.id, at)
    if d is not None and d.value is not e:
      return _elements_kind(mod, fn, d.value, d)
  return UNKNOWN


def _tags_of(mod, fn, typ, at, build_callers):
  """Literal tags a `typ` argument can carry."""
  if isinstance(typ, ast.Name):
    d = _closest_def(mod, fn, typ.id, at)
    if d is None:
      return None
    if isinstance(d.value, ast.Call) and (dotted(d.value.func) or "") == "build_tuple":
      return {"tuple"}
    return _tags_of(mod, fn, d.value, d, build_callers)
  if isinstance(typ, ast.Tuple) and typ.elts:
    t0 = typ.elts[0]
    if isinstance(t0, ast.Constant) and isinstance(t0.value, str):
      return {t0.value}
    if isinstance(t0, ast.Name):
      # `tag, x = Y.typ` + `assert tag == 'list'`, or typename = python_type.__name__
      for a in ast.walk(fn):
        if isinstance(a, ast.Assert) and isinstance(a.test, ast.Compare) \
            and a.lineno < at.lineno:
          names = [a.test.left] + a.test.comparators
          if any(isinstance(n, ast.Name) and n.id == t0.id for n in names):
            lits = [n.value for n in names if isinstance(n, ast.Constant)]
            if lits:
              return set(lits)
      d = _closest_def(mod, fn, t0.id, at)
      if d is not None and src(d.value).endswith(".__name__"):
        base = src(d.value)[:-len(".__name__")]
        if base in [a.arg for a in fn.args.args]:
          return set(build_callers.get((fn.name, base), ())) or None
  return None


def _representation_table(mod):
  """tag -> set of element representations, from every _Constant(...) built."""
  # python_type arguments of stack.build(list|set, op)
  build_callers = {}
  for c in calls_in(mod.tree):
    if isinstance(c.func, ast.Attribute) and c.func.attr == "build" and c.args \
        and isinstance(c.args[0], ast.Name) and c.args[0].id in ("list", "set", "tuple", "dict"):
      build_callers.setdefault(("build", "python_type"), set()).add(c.args[0].id)
  table, sites = {}, []
  for c in calls_in(mod.tree, name="_Constant"):
    if len(c.args) < 3:
      continue
    fn = _fn_of(mod, c)
    if fn is None or isinstance(fn, ast.Lambda):
      continue
    st = mod.enclosing_stmt(c)
    tags = _tags_of(mod, fn, c.args[0], st, build_callers)
    kind = _elements_kind(mod, fn, c.args[2], st)
    sites.append((c.lineno, sorted(tags) if tags else None, kind))
    if tags and kind != UNKNOWN:
      for t in tags:
        table.setdefault(t, set()).add(kind)
  return table, sites


def _tag_var(fn, obj):
  """Name bound to the tag of `obj` by `<tag>, <x> = obj.typ`."""
  for n in ast.walk(fn):
    if isinstance(n, ast.Assign) and isinstance(n.targets[0], ast.Tuple) \
        and len(n.targets[0].elts) == 2 and src(n.value) == f"{obj}.typ" \
        and isinstance(n.targets[0].elts[0], ast.Name):
      return n.targets[0].elts[0].id
  return None


def _possible_tags(mod, fn, obj, stmt, all_tags):
  tv = _tag_var(fn, obj)
  left = set(all_tags)
  exprs = {f"{obj}.typ[0]", f"{obj}.tag"} | ({tv} if tv else set())
  for t, pol in flow.guards_txt(mod.parent, stmt):
    for e in exprs:
      for tag in all_tags:
        if t == f"{e} == {tag!r}":
          left = (left & {tag}) if pol else (left - {tag})
        elif t == f"{e} != {tag!r}":
          left = (left - {tag}) if pol else (left & {tag})
  # asserts earlier in the same block
  for a in ast.walk(fn):
    if isinstance(a, ast.Assert) and a.lineno < stmt.lineno and isinstance(a.test, ast.Compare):
      s = src(a.test)
      for e in exprs:
        for tag in all_tags:
          if s in (f"{e} == {tag!r}",) and mod.parent.get(a) in _ancestors(mod, stmt):
            left &= {tag}
  return left


def _ancestors(mod, node):
  out = []
  while node in mod.parent:
    node = mod.parent[node]
    out.append(node)
  return out


@rule("R15.24", "C15", floor=1)
def r15_24(ctx):
  """`X.elements` is concatenated as a tuple only when X cannot be a map."""
  mod = get_module(ctx, CF)
  table, sites = _representation_table(mod)
  if DICT not in table.get("map", ()) or not any(TUPLE in v for v in table.values()):
    raise AnalysisError(f"constant_folding: representation table not understood: {table} {sites}")
  all_tags = sorted(table)
  vc = None
  for n in ast.walk(mod.tree):
    if isinstance(n, ast.FunctionDef) and n.name == "visit_code":
      vc = n
  if vc is None:
    raise AnalysisError("constant_folding: visit_code not found")
  n_sites = 0
  for b in ast.walk(vc):
    if not (isinstance(b, ast.BinOp) and isinstance(b.op, ast.Add)):
      continue
    st = mod.enclosing_stmt(b)
    for side, other in ((b.left, b.right), (b.right, b.left)):
      # resolve a local name to the `.elements` reads that reach it
      reads = []
      if isinstance(side, ast.Attribute) and side.attr == "elements" \
          and isinstance(side.value, ast.Name):
        reads.append((side.value.id, st))
      elif isinstance(side, ast.Name):
        for d in _defs(vc, side.id):
          if isinstance(d.value, ast.Attribute) and d.value.attr == "elements" \
              and isinstance(d.value.value, ast.Name) and d.lineno < st.lineno:
            reads.append((d.value.value.id, d))
      if not reads:
        continue
      okind = _elements_kind(mod, vc, other, st)
      if okind != TUPLE and not (isinstance(other, ast.Attribute) and other.attr == "elements"):
        continue
      for obj, at in reads:
        left = _possible_tags(mod, vc, obj, at, all_tags)
        wrong = sorted(t for t in left if table[t] - {TUPLE})
        n_sites += 1
        arm = [t.split("opcodes.")[-1].rstrip(")") for t, p in flow.guards_txt(mod.parent, at)
               if p and t.startswith("isinstance(op, ")]
        ctx.check(not wrong, f"visit_code:{arm[-1] if arm else '?'}:concat:{obj}.elements",
                  CF, at.lineno,
                  f"`{src(b)}` concatenates `{obj}.elements` as a tuple, but on this path "
                  f"`{obj}` can still have tag {wrong} whose elements are "
                  f"{sorted(set().union(*(table[t] for t in wrong)))} (representation per tag "
                  f"read from the _Constant constructions: { {k: sorted(v) for k, v in table.items()} }): "
                  "`x = [*{1: 2}]` raises TypeError: can only concatenate tuple (not \"dict\") "
                  "to tuple, which escapes the analysis",
                  {"possible_tags": sorted(left), "table": {k: sorted(v) for k, v in table.items()}})
  if not n_sites:
    raise AnalysisError("constant_folding: no tuple concatenation of `.elements` found")


_D56_ARM = """            elif other_tag == 'map':
              # Iterating over a dict yields its keys.
              other_et, _ = other_et
              other_elts = tuple(
                  _Constant(build_tuple(k), k, build_tuple(k)[1], other.op)
                  if isinstance(k, tuple)
                  else _Constant(('prim', type(k)), k, None, other.op)
                  for k in other.value
              )
"""

VARIANTS = [
    {"name": "revert-D56-no-map-arm", "rule": "R15.24", "file": CF, "expect": "fire",
     "old": _D56_ARM, "new": ""},
    {"name": "twin-map-arm-first-key-type", "rule": "R15.24", "file": CF, "expect": "silent",
     "old": _D56_ARM,
     "new": ("            elif other_tag == 'map':\n"
             "              other_et = other_et[0]\n"
             "              other_elts = tuple(\n"
             "                  _Constant(next(iter(other_et)), k, None, other.op)\n"
             "                  for k in other.value\n"
             "              )\n")},
]
