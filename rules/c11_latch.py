"""C11 extension: a "first value wins" latch must tell *unset* from *zero*.

R11.20  A local that starts as `None` and is filled inside a loop with an
        integer-valued expression (a `len(..)`, a count, an index) remembers
        the FIRST such value so that later elements can be compared with it.
        Whether it is still unset has to be decided by identity with the
        sentinel (`x is None`): a truthiness test (`x or E`, `not x`,
        `x if x else E`, `if x:`) also answers "unset" for the legitimate
        first value 0, which is then silently replaced by the next one.  In
        CombineContainers._should_merge that value is the arity of the first
        tuple/callable of a union: with a leading `tuple[()]` the arity
        mismatch goes unnoticed, the members are grouped under one key and
        `zip` truncates `tuple[int]` to `tuple[()]` - a narrowing.
"""
import ast

from sa.core import rule, AnalysisError
from sa.pyindex import get_module, dotted, src, walk_no_nested

OPT = "pytype/pytd/optimize.py"
_QUICK = [OPT, "pytype/pytd/pytd_utils.py", "pytype/pytd/visitors.py"]
_FUNCS = (ast.FunctionDef, ast.AsyncFunctionDef)
_INT_CALLS = {"len", "int", "sum", "ord", "hash", "abs"}
_INT_METHODS = {"index", "count", "find", "rfind", "bit_length"}


def _local_defs(fn, name):
  out = []
  for n in walk_no_nested(fn):
    if isinstance(n, ast.Assign):
      for t in n.targets:
        if isinstance(t, ast.Name) and t.id == name:
          out.append(("assign", n.value, n))
        elif isinstance(t, (ast.Tuple, ast.List)) and any(
            isinstance(e, ast.Name) and e.id == name for e in ast.walk(t)):
          out.append(("unpack", n.value, n))
    elif isinstance(n, (ast.AnnAssign, ast.NamedExpr)) and \
        isinstance(n.target, ast.Name) and n.target.id == name and n.value is not None:
      out.append(("assign", n.value, n))
    elif isinstance(n, ast.AugAssign) and isinstance(n.target, ast.Name) and \
        n.target.id == name:
      out.append(("aug", n.value, n))
    elif isinstance(n, (ast.For, ast.AsyncFor)):
      tg = n.target
      if isinstance(tg, ast.Name) and tg.id == name:
        out.append(("for", n.iter, n))
      elif isinstance(tg, ast.Tuple) and any(
          isinstance(e, ast.Name) and e.id == name for e in ast.walk(tg)):
        pos = [i for i, e in enumerate(tg.elts)
               if isinstance(e, ast.Name) and e.id == name]
        out.append(("for-tuple", (n.iter, pos[0] if pos else None), n))
    elif isinstance(n, ast.comprehension):
      pass
  for a in fn.args.args + fn.args.kwonlyargs + fn.args.posonlyargs:
    if a.arg == name:
      out.append(("param", None, fn))
  return out


def _int_valued(e, fn, latch, depth=0):
  """True when `e` evaluates to an int for which 0 is an ordinary value."""
  if depth > 4:
    return False
  rec = lambda x: _int_valued(x, fn, latch, depth + 1)
  if isinstance(e, ast.Constant):
    return type(e.value) is int
  if isinstance(e, ast.Call):
    d = dotted(e.func)
    if d in _INT_CALLS:
      return True
    if isinstance(e.func, ast.Attribute) and e.func.attr in _INT_METHODS:
      return True
    if d in ("max", "min") and e.args:
      return all(rec(a) for a in e.args)
    return False
  if isinstance(e, ast.BinOp) and isinstance(
      e.op, (ast.Add, ast.Sub, ast.Mult, ast.FloorDiv, ast.Mod)):
    return rec(e.left) and rec(e.right)
  if isinstance(e, ast.UnaryOp) and isinstance(e.op, (ast.USub, ast.UAdd)):
    return rec(e.operand)
  if isinstance(e, ast.BoolOp):
    vals = [v for v in e.values if not (isinstance(v, ast.Name) and v.id == latch)]
    return bool(vals) and all(rec(v) for v in vals)
  if isinstance(e, ast.IfExp):
    vals = [v for v in (e.body, e.orelse)
            if not (isinstance(v, ast.Name) and v.id == latch)]
    return bool(vals) and all(rec(v) for v in vals)
  if isinstance(e, ast.NamedExpr):
    return rec(e.value)
  if isinstance(e, ast.Name) and e.id != latch:
    defs = _local_defs(fn, e.id)
    if not defs:
      return False
    for kind, v, _ in defs:
      if kind == "assign":
        if not rec(v):
          return False
      elif kind == "for":
        if not (isinstance(v, ast.Call) and dotted(v.func) == "range"):
          return False
      elif kind == "for-tuple":
        it, pos = v
        if not (isinstance(it, ast.Call) and dotted(it.func) == "enumerate" and pos == 0):
          return False
      elif kind == "aug":
        if not rec(v):
          return False
      else:
        return False
    return True
  return False


def _truth_uses(scope, x, parent):
  """Places where the truthiness of the bare name `x` decides something."""
  out = []
  for n in walk_no_nested(scope):
    if not (isinstance(n, ast.Name) and n.id == x and isinstance(n.ctx, ast.Load)):
      continue
    p = parent.get(n)
    if isinstance(p, ast.UnaryOp) and isinstance(p.op, ast.Not):
      out.append(p)
    elif isinstance(p, ast.BoolOp):
      last = p.values[-1] is n
      # the last operand of a BoolOp is a value, unless the BoolOp is a test
      if not last or _is_test(p, parent):
        out.append(p)
    elif isinstance(p, (ast.If, ast.While, ast.IfExp, ast.Assert)) and p.test is n:
      out.append(p)
    elif isinstance(p, ast.comprehension) and n in p.ifs:
      out.append(p)
    elif isinstance(p, ast.Call) and dotted(p.func) == "bool" and p.args == [n]:
      out.append(p)
  return out


def _is_test(node, parent):
  p = parent.get(node)
  while isinstance(p, (ast.BoolOp, ast.UnaryOp)):
    node, p = p, parent.get(p)
  return (isinstance(p, (ast.If, ast.While, ast.IfExp, ast.Assert)) and p.test is node) \
      or (isinstance(p, ast.comprehension) and node in p.ifs)


def _identity_uses(scope, x):
  out = []
  for n in walk_no_nested(scope):
    if isinstance(n, ast.Compare) and len(n.ops) == 1 and \
        isinstance(n.ops[0], (ast.Is, ast.IsNot)):
      a, b = n.left, n.comparators[0]
      for p, q in ((a, b), (b, a)):
        if isinstance(p, ast.Name) and p.id == x and \
            isinstance(q, ast.Constant) and q.value is None:
          out.append(n)
  return out


def _qual(mod, fn):
  names = [fn.name]
  node = fn
  while node in mod.parent:
    node = mod.parent[node]
    if isinstance(node, _FUNCS + (ast.ClassDef,)):
      names.append(node.name)
  return ".".join(reversed(names))


def latches(mod):
  """(fn, name, init stmt, loop, [int-valued fills]) for every None-initialised
  local that a later loop fills with an int-valued expression."""
  for fn in ast.walk(mod.tree):
    if not isinstance(fn, _FUNCS):
      continue
    inits = {}
    for n in walk_no_nested(fn):
      if isinstance(n, ast.Assign) and len(n.targets) == 1 and \
          isinstance(n.targets[0], ast.Name) and \
          isinstance(n.value, ast.Constant) and n.value.value is None:
        inits.setdefault(n.targets[0].id, n)
    for x, init in sorted(inits.items()):
      for loop in walk_no_nested(fn):
        if not isinstance(loop, (ast.For, ast.While, ast.AsyncFor)):
          continue
        if loop.lineno < init.lineno:
          continue
        # outermost loop only
        p = mod.parent.get(loop)
        nested = False
        while p is not None and p is not fn:
          if isinstance(p, (ast.For, ast.While, ast.AsyncFor)) and p.lineno > init.lineno:
            nested = True
          p = mod.parent.get(p)
        if nested:
          continue
        fills = []
        for n in walk_no_nested(loop):
          val = None
          if isinstance(n, ast.Assign) and any(
              isinstance(t, ast.Name) and t.id == x for t in n.targets):
            val = n.value
          elif isinstance(n, (ast.AnnAssign, ast.NamedExpr)) and \
              isinstance(n.target, ast.Name) and n.target.id == x:
            val = n.value
          if val is None or (isinstance(val, ast.Constant) and val.value is None):
            continue
          if _int_valued(val, fn, x):
            fills.append(n)
        if fills:
          yield fn, x, init, loop, fills


@rule("R11.20", "C11", floor=1)
def r11_20(ctx):
  """Int-valued first-value latches test `is None`, never truthiness."""
  files = list(_QUICK)
  if ctx.tier == "thorough":
    from sa.pyindex import all_py_files
    files = [f for f in all_py_files(ctx, "pytype/pytd")
             if not f.endswith("_test.py")]
  seen_opt = False
  for rel in files:
    if rel != OPT and "None" not in ctx.read(rel):
      continue
    mod = get_module(ctx, rel)
    for fn, x, init, loop, fills in latches(mod):
      q = _qual(mod, fn)
      truth = _truth_uses(loop, x, mod.parent)
      ident = _identity_uses(loop, x)
      if not truth and not ident:
        continue        # not a latch: nothing asks whether it is still unset
      if rel == OPT:
        seen_opt = True
      facts = {"filled_with": [src(f)[:80] for f in fills],
               "identity_tests": [src(i) for i in ident],
               "truthiness_tests": [src(t)[:80] for t in truth]}
      ctx.check(not truth, f"{rel}:{q}:{x}", rel, (truth or fills)[0].lineno,
                f"`{x}` starts as None and is filled in the loop with the "
                f"integer-valued `{src(fills[0])[:60]}`; whether it is still "
                f"unset is decided by truthiness in "
                f"{[src(t)[:50] for t in truth]}: a legitimate first value 0 "
                "counts as unset and is replaced by the next element's value, "
                "so the comparison of later values with the FIRST one is lost "
                "(test `is None` instead)", facts)
  if not seen_opt:
    raise AnalysisError(
        "optimize.py: no None-initialised arity latch found "
        "(CombineContainers._should_merge changed shape)")


VARIANTS = [
    {"name": "seeded-C11-r2m1", "rule": "R11.20", "patch": "seeded/C11-r2m1/patch.diff",
     "expect": "fire"},
    {"name": "arity-latch-if-not", "rule": "R11.20", "file": OPT, "expect": "fire",
     "old": "        if length is None:\n          length = len(t.parameters)\n        elif length != len(t.parameters):",
     "new": "        if not length:\n          length = len(t.parameters)\n        elif length != len(t.parameters):"},
    {"name": "arity-latch-conditional-expression", "rule": "R11.20", "file": OPT, "expect": "fire",
     "old": "        if length is None:\n          length = len(t.parameters)\n        elif length != len(t.parameters):",
     "new": "        n = len(t.parameters)\n        length = length if length else n\n        if length != n:"},
    {"name": "arity-latch-walrus-or", "rule": "R11.20", "file": OPT, "expect": "fire",
     "old": "        if length is None:\n          length = len(t.parameters)\n        elif length != len(t.parameters):",
     "new": "        if (length := length or len(t.parameters)) != len(t.parameters):"},
    {"name": "twin-arity-latch-inverted-identity-test", "rule": "R11.20", "file": OPT, "expect": "silent",
     "old": "        if length is None:\n          length = len(t.parameters)\n        elif length != len(t.parameters):\n          return True",
     "new": "        if length is not None:\n          if length != len(t.parameters):\n            return True\n        else:\n          length = len(t.parameters)"},
    {"name": "twin-arity-latch-renamed-hoisted-len", "rule": "R11.20", "file": OPT, "expect": "silent",
     "old": "    length = None\n    for t in union.type_list:\n      if isinstance(t, pytd_type):\n        if length is None:\n          length = len(t.parameters)\n        elif length != len(t.parameters):",
     "new": "    arity = None\n    for t in union.type_list:\n      if isinstance(t, pytd_type):\n        n = len(t.parameters)\n        if arity is None:\n          arity = n\n        elif n != arity:"},
    {"name": "twin-arity-latch-conditional-expression-identity", "rule": "R11.20", "file": OPT, "expect": "silent",
     "old": "        if length is None:\n          length = len(t.parameters)\n        elif length != len(t.parameters):",
     "new": "        length = len(t.parameters) if length is None else length\n        if length != len(t.parameters):"},
    {"name": "arity-latch-gone", "rule": "R11.20", "file": OPT, "expect": "error",
     "old": "    length = None\n    for t in union.type_list:\n      if isinstance(t, pytd_type):\n        if length is None:\n          length = len(t.parameters)\n        elif length != len(t.parameters):\n          return True\n",
     "new": "    lengths = {len(t.parameters) for t in union.type_list if isinstance(t, pytd_type)}\n    if len(lengths) > 1:\n      return True\n    for t in union.type_list:\n      if isinstance(t, pytd_type):\n        pass\n"},
]
