"""C08 extension (R8.6): what the state memo stores is a function of its key.

`solved_states_` maps a State (position, goal set) to "solvable".  An entry
written while answering one query is recalled while answering the next, so
the value must not depend on anything but the key (and the graph, which R8.3
ties to the lifetime of the solver): not on how deep in the current query the
state was met, not on a visit budget, not on what the memo or the metrics
happen to contain.  Otherwise the answer of a query depends on which queries
were put before it.

The rule takes the functions of the search recursion - the strongly connected
component of solver.cc's call graph that contains the search driver
(FindSolution) and a writer of the memo - and runs an information-flow
analysis on each of them:

  sources  every parameter that is not the State key (current_depth,
           seen_states), every Solver field that some Solver method writes
           (state_cache_hits_, state_cache_misses_, query_metrics_), and the
           memo itself wherever it is not looked up / stored with the key
           (`solved_states_.size()`); a file-local helper that reads such a
           field taints its result;
  flow     initialisers, assignments, range-for variables, structured
           bindings, arguments of calls outside the recursion; a variable
           assigned under a tainted condition becomes tainted (implicit flow);
           the result of a call INTO the recursion is clean by induction;
  sinks    a `return` value; a condition whose branches contain return / break
           / continue; the value stored into the memo; the State argument of
           a call into the recursion.

One tainted decision is triaged (EXPLANATION of C08: cycle skipping is not
decided): a membership test of the successor state in the StateSet parameter
(`seen_states.count(&new_state)`, find != end, contains) whose branch only
`continue`s - the cycle cut-off on the recursion stack.  Any other use of the
stack (its size), of the depth or of a counter in a decision is a finding.
"""
from sa.core import rule, AnalysisError
from sa import cxx
from sa.cxx import term, uncast, inner, strip
from rules import _cxxutil_c07c08 as U

SC = "pytype/typegraph/solver.cc"
MEMO = "Solver::solved_states_"
LOOKUPS = {"find", "end", "cend", "count", "contains", "at", "operator[]"}
CONTROL = ("ReturnStmt", "BreakStmt", "ContinueStmt", "GotoStmt")


def _line(n):
  return ((n.get("range") or {}).get("begin") or {}).get("line") or 0


def _driver(ix):
  cands = [f for f in ix.by_key.values()
           if f.qual == "Solver::FindSolution" and f.body is not None]
  if not cands:
    cands = [f for f in ix.by_key.values()
             if f.file == SC and f.cls == "Solver" and f.body is not None and any(
                 n.get("kind") == "CallExpr" and
                 "remove_finished_goals" in (ix.callee(n)[0] or "")
                 for n in cxx.walk(f.body))]
  if len(cands) != 1:
    raise AnalysisError("anchor: the search driver (Solver::FindSolution, the "
                        "caller of remove_finished_goals) not found")
  return cands[0]


def _writes(ix, fn):
  units = list(fn.inits) + ([fn.body] if fn.body else [])
  out = set()
  for u in units:
    for ev in cxx.events(ix, u, {}):
      if ev.kind in ("write", "addr"):
        out.add(ev.what)
  return out


def _is_key_type(t):
  t = t.replace("const ", "").replace("internal::", "").replace("&", "").replace("*", "").strip()
  return t == "State"


class _Taint:
  """Information flow inside one function of the search recursion."""

  def __init__(self, ix, fn, scc, fields, helper_reads):
    self.ix, self.fn, self.scc = ix, fn, scc
    self.fields = fields                  # tainted Solver fields (without the memo)
    self.helper_reads = helper_reads      # fn key -> field it reads, for local helpers
    self.key_params = [p for p in fn.params if _is_key_type(cxx.qual_type(p))]
    self.tainted = {p["id"]: f"parameter `{p.get('name')}`" for p in fn.params
                    if p not in self.key_params}
    self.stack_params = {p["id"] for p in fn.params if "StateSet" in cxx.qual_type(p)}
    self.env = U.once_bound_env(ix, fn)
    self.sinks = []       # (node, text, source)
    self.triaged = []     # (node, text)
    self.memo_writes = [] # (node, clean)
    changed = True
    rounds = 0
    while changed:
      rounds += 1
      if rounds > 20:
        raise AnalysisError(f"{fn.qual}: taint analysis does not converge")
      before = len(self.tainted)
      self._pass(collect=False)
      changed = len(self.tainted) != before
    self._pass(collect=True)

  # -- expressions ---------------------------------------------------------------
  def source(self, e):
    """Why the value of `e` may depend on more than the key, else None."""
    if e is None or not isinstance(e, dict) or not e.get("kind"):
      return None
    k = e["kind"]
    if k == "LambdaExpr":
      return None
    if k in ("CXXMemberCallExpr", "CallExpr", "CXXOperatorCallExpr"):
      key, callee, nm, obj = self.ix.callee(e)
      if callee is not None and callee.key in self.scc:
        return None        # a result of the recursion itself: clean by induction
      if callee is not None and callee.key in self.helper_reads:
        return f"{callee.name}() reads {self.helper_reads[callee.key]}"
      if nm in LOOKUPS and obj is not None and self._is_memo(obj):
        # the memo looked up / stored with the key
        for a in inner(e)[1:] if k == "CXXMemberCallExpr" else inner(e)[2:]:
          s = self.source(a)
          if s:
            return s
          if not self._is_key(a):
            return f"the memo is indexed by `{U.show(uncast(term(self.ix, a)))}`, not by the key"
        return None
    if k == "MemberExpr":
      f = self.ix.fields.get(e.get("referencedMemberDecl"))
      if f == MEMO:
        return "the contents of the memo"
      if f in self.fields:
        return f"field {f.split('::')[-1]}"
    if k == "DeclRefExpr":
      did = (e.get("referencedDecl") or {}).get("id")
      if did in self.tainted:
        return self.tainted[did]
      return None
    for c in inner(e):
      s = self.source(c)
      if s:
        return s
    return None

  def _is_memo(self, e):
    e = strip(e)
    return e is not None and e.get("kind") == "MemberExpr" and \
        self.ix.fields.get(e.get("referencedMemberDecl")) == MEMO

  def _is_key(self, e):
    e = strip(e)
    while e is not None and e.get("kind") == "UnaryOperator" and e.get("opcode") in ("&", "*"):
      e = strip(inner(e)[0])
    return e is not None and e.get("kind") == "DeclRefExpr" and \
        (e.get("referencedDecl") or {}).get("id") in {p["id"] for p in self.key_params}

  def _taint(self, did, why):
    if did is not None and did not in self.tainted:
      self.tainted[did] = why

  # -- statements ------------------------------------------------------------------
  def _pass(self, collect):
    self.collect = collect
    if collect:
      self.sinks, self.triaged, self.memo_writes = [], [], []
    for init in self.fn.inits:
      self._expr(init)
    self._stmt(self.fn.body)

  def _region_effects(self, region, why):
    """Implicit flow: everything assigned in the region depends on the condition."""
    for r in region:
      if r is None:
        continue
      for did in U.written_vars(r):
        self._taint(did, why)
      for n in cxx.walk(r):
        if n.get("kind") in ("VarDecl", "BindingDecl") and n.get("id"):
          self._taint(n["id"], why)

  def _controls(self, region):
    out = []
    for r in region:
      if r is None:
        continue
      for n in cxx.walk(r):
        if n.get("kind") == "LambdaExpr":
          continue
        if n.get("kind") in CONTROL:
          out.append(n)
    return out

  def _memo_written_in(self, region):
    for r in region:
      if r is None:
        continue
      for ev in cxx.events(self.ix, r, {}):
        if ev.kind == "write" and ev.what == MEMO:
          return True
    return False

  def _decision(self, s, cond, region, what):
    src = self.source(cond)
    if not src:
      return
    self._region_effects(region, f"a decision on {src}")
    if not self.collect:
      return
    ctl = self._controls(region)
    if not ctl and not self._memo_written_in(region):
      return
    tri = self._cycle_skip(cond, region, ctl)
    if tri:
      self.triaged.append((s, tri))
      return
    kinds = sorted({c["kind"].replace("Stmt", "").lower() for c in ctl}) or ["memo write"]
    self.sinks.append((s, f"the {what} at line {_line(s)} decides a "
                       f"{'/'.join(kinds)} and depends on {src}", src))

  def _cycle_skip(self, cond, region, ctl):
    """The triaged cycle cut-off: every tainted conjunct is a membership test
    in the StateSet parameter, and the branch only continues."""
    if any(c["kind"] != "ContinueStmt" for c in ctl) or self._memo_written_in(region):
      return None
    t = uncast(term(self.ix, cond, self.env))
    seen = None
    for c in U.flatten(t, "&&"):
      if not self._term_tainted(c):
        continue
      v = self._stack_membership(c)
      if v is None:
        return None
      seen = v
    return f"membership of the successor state in `{seen}`" if seen else None

  def _term_tainted(self, t):
    for x in U.subterms(t):
      if x and x[0] == "var" and len(x) == 3 and x[2] in self.tainted:
        return True
      if x and x[0] == "field" and len(x) == 3 and (x[1] in self.fields or x[1] == MEMO):
        return True
    return False

  def _stack_membership(self, c):
    c = uncast(c)
    if not isinstance(c, tuple) or not c:
      return None

    def stack(v):
      v = uncast(v)
      return v[1] if isinstance(v, tuple) and v[0] == "var" and len(v) == 3 and \
          v[2] in self.stack_params else None

    def clean_arg(a):
      return not self._term_tainted(a)
    if c[0] == "mcall" and c[1] in ("count", "contains") and len(c) == 4 and clean_arg(c[3]):
      return stack(c[2])
    if c[0] in (">", "!=") and len(c) == 3 and isinstance(uncast(c[2]), tuple) and \
        uncast(c[2])[:2] == ("int", 0):
      return self._stack_membership(c[1]) if uncast(c[1])[:2] == ("mcall", "count") else None
    if c[0] == "opcall" and c[1] == "operator!=" and len(c) == 4:
      for a, b in ((uncast(c[2]), uncast(c[3])), (uncast(c[3]), uncast(c[2]))):
        if isinstance(a, tuple) and a[:2] == ("mcall", "find") and len(a) == 4 and \
            isinstance(b, tuple) and b[:2] in (("mcall", "end"), ("mcall", "cend")) and \
            uncast(a[2]) == uncast(b[2]) and clean_arg(a[3]):
          return stack(a[2])
    return None

  def _expr(self, e):
    """Effects of an expression / declaration statement."""
    if e is None or not e.get("kind"):
      return
    for n in cxx.walk(e):
      k = n.get("kind")
      if k in ("VarDecl", "DecompositionDecl"):
        kids = [c for c in inner(n) if c.get("kind") and c["kind"] != "BindingDecl"]
        if kids:
          s = self.source(kids[-1])
          if s:
            self._taint(n.get("id"), s)
            for b in inner(n):
              if b.get("kind") == "BindingDecl":
                self._taint(b.get("id"), s)
      elif k in ("BinaryOperator", "CompoundAssignOperator") and \
          (n.get("opcode") == "=" or (n.get("opcode", "").endswith("=") and
                                      n.get("opcode") not in ("==", "!=", "<=", ">="))):
        lhs, rhs = inner(n)[0], inner(n)[1]
        self._assign(n, lhs, rhs)
      elif k == "CXXOperatorCallExpr":
        key, callee, nm, obj = self.ix.callee(n)
        if nm in U.ASSIGN_OPS and len(inner(n)) >= 3 and nm not in ("operator++", "operator--"):
          self._assign(n, inner(n)[1], inner(n)[2])
      elif k == "CXXMemberCallExpr":
        key, callee, nm, obj = self.ix.callee(n)
        if callee is None and nm in cxx.MUTATORS and obj is not None:
          for a in inner(n)[1:]:
            s = self.source(a)
            if s:
              self._taint(U._decl_id(obj), s)
        if callee is not None and callee.key in self.scc and self.collect:
          for p, a in zip(callee.params, inner(n)[1:]):
            if _is_key_type(cxx.qual_type(p)):
              s = self.source(a)
              if s:
                self.sinks.append((n, f"the state handed to {callee.name} at line "
                                   f"{_line(n)} depends on {s}", s))

  def _assign(self, node, lhs, rhs):
    s = self.source(rhs)
    l = strip(lhs)
    # store into the memo: solved_states_[key] = value
    is_memo = False
    for x in cxx.walk(lhs):
      if x.get("kind") == "MemberExpr" and self.ix.fields.get(x.get("referencedMemberDecl")) == MEMO:
        is_memo = True
    if is_memo:
      ks = self.source(lhs)
      if self.collect:
        self.memo_writes.append((node, s or ks))
      return
    if s:
      did = U._decl_id(lhs)
      if did is None:
        # x.y = ..., *p = ..., v[i] = ...: the root variable
        for x in cxx.walk(lhs):
          if x.get("kind") == "DeclRefExpr" and (x.get("referencedDecl") or {}).get("kind") in (
              "VarDecl", "ParmVarDecl"):
            did = x["referencedDecl"].get("id")
            break
      self._taint(did, s)

  def _stmt(self, s):
    if s is None or not s.get("kind"):
      return
    k = s["kind"]
    kids = inner(s)
    if k == "CompoundStmt":
      for c in kids:
        self._stmt(c)
      return
    if k == "ReturnStmt":
      v = U.return_value(s)
      if v is not None:
        self._expr(v)
        src = self.source(v)
        if src and self.collect:
          self.sinks.append((s, f"the value returned at line {_line(s)} depends on {src}", src))
      return
    if k == "IfStmt":
      init, var, cond, then, els = U.if_parts(s)
      for x in (init, var):
        if x is not None:
          self._stmt(x) if x.get("kind", "").endswith("Stmt") else self._expr(x)
      self._expr(cond)
      self._decision(s, cond, [then, els], "condition")
      self._stmt(then)
      self._stmt(els)
      return
    if k in ("WhileStmt", "DoStmt"):
      body, cond = (kids[0], kids[1]) if k == "DoStmt" else (kids[-1], kids[-2])
      self._expr(cond)
      self._decision(s, cond, [body], "loop condition")
      self._stmt(body)
      return
    if k == "ForStmt":
      init, _, cond, inc, body = (kids + [None] * 5)[:5]
      if init:
        self._stmt(init) if init.get("kind", "").endswith("Stmt") else self._expr(init)
      if cond:
        self._expr(cond)
        self._decision(s, cond, [body], "loop condition")
      if inc:
        self._expr(inc)
      self._stmt(body)
      return
    if k == "CXXForRangeStmt":
      lv, rng, body = U.range_for(s)
      if rng is not None:
        src = self.source(rng)
        if src:
          self._taint(lv.get("id"), src)
          for b in inner(lv):
            if b.get("kind") == "BindingDecl":
              self._taint(b.get("id"), src)
      self._stmt(body)
      return
    if k == "SwitchStmt":
      cond, body = kids[-2], kids[-1]
      self._expr(cond)
      self._decision(s, cond, [body], "switch")
      self._stmt(body)
      return
    if k in ("CaseStmt", "DefaultStmt", "LabelStmt", "AttributedStmt", "CXXTryStmt", "CXXCatchStmt"):
      for c in kids:
        if c.get("kind", "").endswith("Stmt") and c.get("kind") != "DeclStmt":
          self._stmt(c)
        else:
          self._expr(c)
      return
    if k == "GotoStmt":
      raise AnalysisError(f"{self.fn.qual}: goto in the search recursion")
    self._expr(s)


def _helper_reads(ix, scc, fields):
  """Local helpers (outside the recursion) that read a tainted field or the
  memo, transitively: key -> field."""
  local = {f.key: f for f in ix.by_key.values()
           if f.file in U.LOCAL_FILES and f.body is not None and f.key not in scc}
  out = {}
  for key, f in local.items():
    for n in cxx.walk(f.body):
      if n.get("kind") == "MemberExpr":
        fq = ix.fields.get(n.get("referencedMemberDecl"))
        if fq in fields or fq == MEMO:
          out.setdefault(key, fq.split("::")[-1])
  changed = True
  while changed:
    changed = False
    for key, f in local.items():
      if key in out:
        continue
      for n in cxx.walk(f.body):
        if n.get("kind") in ("CXXMemberCallExpr", "CallExpr"):
          c = ix.callee(n)[1]
          if c is not None and c.key in out:
            out[key] = f"{out[c.key]} (via {c.name})"
            changed = True
            break
  return out


@rule("R8.6", "C08", floor=5)
def r8_6(ctx):
  """Results of the search recursion (what the memo stores) depend only on the State key."""
  ix = cxx.get_index(ctx)
  if MEMO not in ix.field_type:
    raise AnalysisError("anchor: field Solver::solved_states_ (the state memo) not found")
  drv = _driver(ix)
  g = U.call_graph(ix)
  to_drv = U.reaching(ix, drv.key)
  from_drv, todo = set(), [drv.key]
  while todo:
    k = todo.pop()
    if k in from_drv:
      continue
    from_drv.add(k)
    todo.extend(g.get(k, ()))
  scc = {k for k in to_drv & from_drv if k in ix.by_key}
  writers = [k for k in scc if MEMO in _writes(ix, ix.by_key[k])]
  if not writers:
    raise AnalysisError("the search driver is not recursive through a function "
                        "that writes solved_states_; the memoised recursion "
                        "was not found")
  fields = set()
  for f in ix.by_key.values():
    if f.cls == "Solver" and f.kind == "CXXMethodDecl" and f.file in U.LOCAL_FILES:
      fields |= {w for w in _writes(ix, f) if w.startswith("Solver::")}
  fields.discard(MEMO)
  helper_reads = _helper_reads(ix, scc, fields)
  for key in sorted(scc):
    fn = ix.by_key[key]
    if not [p for p in fn.params if _is_key_type(cxx.qual_type(p))]:
      raise AnalysisError(f"{fn.qual} takes part in the memoised recursion but "
                          "has no State parameter; the memo key is not understood")
    ta = _Taint(ix, fn, scc, fields, helper_reads)
    if ta.sinks:
      n, text, src = ta.sinks[0]
      ctx.bad(f"{fn.name}:result-depends-only-on-key", SC, _line(n),
              f"in {fn.qual} {text}; the result of this function is stored in "
              "solved_states_ under the key (position, goals) alone and recalled "
              "by later queries, so it may depend on nothing else - otherwise "
              "answers depend on the order of the queries",
              {"sinks": [t for _, t, _ in ta.sinks[:6]],
               "sources": sorted(set(ta.tainted.values()))[:8]})
    else:
      ctx.ok(f"{fn.name}:result-depends-only-on-key", SC, fn.line,
             {"non_key_inputs": sorted({v for v in ta.tainted.values()
                                        if v.startswith(("parameter", "field"))}),
              "tainted_locals": len(ta.tainted)})
    for n, text in ta.triaged:
      ctx.ok(f"{fn.name}:cycle-skip-on-recursion-stack", SC, _line(n),
             {"triaged": text, "note": "cycle cut-off; not decided (see EXPLANATION)"})
    for i, (n, src) in enumerate(ta.memo_writes):
      ctx.check(not src, f"{fn.name}:memo-write#{i}:value-from-key-only", SC, _line(n),
                f"the value stored into solved_states_ at line {_line(n)} depends on {src}",
                {"source": src})


def _tg(n):
  return f"pytype/typegraph/{n}"


_ENTER = ("  std::string indent(current_depth, ' ');\n"
          "  LOG(INFO) << indent << \"I'm at <\" << state.pos()->id() << \"> \"\n"
          "            << state.pos()->name();\n")
_CYCLE = "      if (seen_states.count(&new_state) > 0 && new_positions.size() > 1) {\n"

VARIANTS = [
    {"name": "seeded-C08-r3m2", "rule": "R8.6", "patch": "seeded/C08-r3m2/patch.diff", "expect": "fire"},
    {"name": "visit-budget-on-member-counter", "rule": "R8.6", "file": _tg("solver.cc"), "expect": "fire",
     "old": _ENTER,
     "new": _ENTER + "  if (state_cache_misses_ > 100000) {\n    return true;  // give up: assume solvable\n  }\n"},
    {"name": "recall-gives-up-when-deep", "rule": "R8.6", "file": _tg("solver.cc"), "expect": "fire",
     "old": "  auto it = solved_states_.find(state);\n",
     "new": "  if (current_depth > 500) {\n    return false;\n  }\n  auto it = solved_states_.find(state);\n"},
    {"name": "stack-size-used-as-depth-bound", "rule": "R8.6", "file": _tg("solver.cc"), "expect": "fire",
     "old": _CYCLE,
     "new": "      if (seen_states.size() > 64) {\n        continue;\n      }\n" + _CYCLE},
    {"name": "memo-stores-depth-dependent-value", "rule": "R8.6", "file": _tg("solver.cc"), "expect": "fire",
     "old": "  solved_states_[state] = result;\n",
     "new": "  solved_states_[state] = result || current_depth > 100;\n"},
    {"name": "depth-bound-through-a-flag", "rule": "R8.6", "file": _tg("solver.cc"), "expect": "fire",
     "old": _ENTER,
     "new": _ENTER + "  bool give_up = false;\n  if (current_depth > 300) {\n    give_up = true;\n  }\n"
            "  if (give_up) {\n    return true;\n  }\n"},
    {"name": "memo-size-budget", "rule": "R8.6", "file": _tg("solver.cc"), "expect": "fire",
     "old": _ENTER,
     "new": _ENTER + "  if (solved_states_.size() > 50000) {\n    return true;\n  }\n"},
    {"name": "budget-read-in-helper", "rule": "R8.6", "expect": "fire",
     "edits": [(_tg("solver.h"), "  bool GoalsConflict(const internal::GoalSet& goals) const;",
                "  bool GoalsConflict(const internal::GoalSet& goals) const;\n"
                "  bool Exhausted() const { return state_cache_misses_ > 100000; }"),
               (_tg("solver.cc"), _ENTER, _ENTER + "  if (Exhausted()) {\n    return true;\n  }\n")]},
    {"name": "twin-depth-only-logged", "rule": "R8.6", "file": _tg("solver.cc"), "expect": "silent",
     "old": _ENTER,
     "new": _ENTER + "  if (current_depth > 50) {\n    LOG(INFO) << indent << \"deep search\";\n  }\n"},
    {"name": "twin-cycle-test-by-find", "rule": "R8.6", "file": _tg("solver.cc"), "expect": "silent",
     "old": _CYCLE,
     "new": "      if (seen_states.find(&new_state) != seen_states.end() &&\n"
            "          new_positions.size() > 1) {\n"},
    {"name": "twin-cycle-test-hoisted", "rule": "R8.6", "file": _tg("solver.cc"), "expect": "silent",
     "old": _CYCLE,
     "new": "      const bool on_stack = seen_states.count(&new_state) != 0;\n"
            "      if (on_stack && new_positions.size() > 1) {\n"},
    {"name": "cycle-test-accepts-instead-of-skipping", "rule": "R8.6", "file": _tg("solver.cc"),
     "expect": "fire",
     "old": _CYCLE + "        // Cycle detected. We ignore it unless it is the only solution.\n        continue;\n",
     "new": _CYCLE + "        return true;\n"},
    {"name": "twin-benign-C07-r3-driver-decomposed", "rule": "R8.6", "patch": "benign/C07-r3/patch.diff",
     "expect": "silent"},
    {"name": "twin-benign-C08-r2-memo-split", "rule": "R8.6", "patch": "benign/C08-r2/patch.diff",
     "expect": "silent"},
    {"name": "twin-benign-C07-r1", "rule": "R8.6", "patch": "benign/C07-r1/patch.diff", "expect": "silent"},
    {"name": "twin-benign-C01-r2", "rule": "R8.6", "patch": "benign/C01-r2/patch.diff", "expect": "silent"},
]
