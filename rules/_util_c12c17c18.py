"""Shape normalisation shared by rules/c12.py, rules/c17.py and rules/c18.py.

Not a rules module (check.py only loads rules/c*.py).  Nothing from /repo is
imported or executed: everything works on `ast` trees read through the Ctx.

What it provides
----------------
* `virtual(ctx, rel, ...)`: a *virtual module* - a PyModule over a transformed
  copy of the parsed file in which
    - module-local inheritance is flattened (`flatten`): a method a class
      inherits from a base class / mixin defined in the same file is copied
      into the class (local C3 linearisation; nothing is copied from behind a
      base that is not defined in the file, from methods that use super(),
      __class__ or name-mangled attributes);
    - calls to module-local helpers are inlined into the requested anchor
      functions (`inline`): plain functions, methods of the same object
      (`self.m()`, `cls.m()`), class/static methods named through a module
      class (`K.m()`) and methods called on a parameter annotated with a
      module class.  Statement level (`x = f(a)`, `return f(a)`, `f(a)`) for
      helpers all of whose returns are in tail position, expression level for
      helpers that are a single `return <expr>`.  Each step is the textbook
      inlining transformation and is only applied when it preserves behaviour
      (see `_Inliner`); a helper that does not qualify is simply left as a
      call, so the rule that needs to see through it refuses;
    - independent parallel assignments are split (`a, b = X, Y`), statement
      level dict/list comprehensions can be turned into the loop they
      abbreviate (`loops`), and pure once-bound temporaries introduced by the
      inliner are propagated.
  Line numbers of the original file are kept on all copied nodes.
* `run_world(...)`: a small interpreter for loop-free statement lists in which
  every branch test is decided by a caller-supplied oracle ("world"); values
  stay symbolic (expressions over the initial names).  Re-bindings,
  guard-clause / else forms, conditional expressions and hoisted temporaries
  are all the same thing to it.
* `serialisation_instances(ctx)`: the R4.4 == R12.4 obligations, reading the
  value handed to the sink through local definitions and helper calls.
* `local_mro`, `class_const`: module-local method / class-constant resolution.

Assumptions made by the transformations (they are stated in the ASSUMPTIONS
of the rule modules that rely on them): an instance method flattened into
class K is analysed for receivers whose class is exactly K; attribute reads
and subscripts have no side effects; two differently spelled access paths do
not alias unless the code says so.
"""
from __future__ import annotations

import ast
import copy

from sa.core import AnalysisError
from sa.pyindex import PyModule, get_module, dotted, src, kwarg, calls_in, walk_no_nested
from sa import flow

_FUNCS = (ast.FunctionDef, ast.AsyncFunctionDef)
_HARMLESS_BASES = {"object", "Generic", "typing.Generic", "Protocol",
                   "typing.Protocol", "ABC", "abc.ABC"}
_MAX_ROUNDS = 24
_MAX_PER_CALLEE = 6


class NoInline(Exception):
  """The call site / callee is outside what the inliner handles soundly."""


# ---------------------------------------------------------------------------
# virtual modules

class VModule(PyModule):
  """A PyModule over an already transformed tree (same API as PyModule)."""

  def __init__(self, rel, text, tree, notes):  # pylint: disable=super-init-not-called
    self.rel = rel
    self.text = text
    self.tree = tree
    self.notes = notes          # what was inlined / flattened / refused
    self.reindex()

  def reindex(self):
    self.parent = {}
    for n in ast.walk(self.tree):
      for c in ast.iter_child_nodes(n):
        self.parent[c] = n
    self.classes, self.functions, self.assigns, self.imports = {}, {}, {}, {}
    self._index_body(self.tree.body)


def virtual(ctx, rel, inline=(), keep=(), flatten=False, flatten_names=None,
            loops=(), split=True):
  """The virtual module of `rel` (memoised per Ctx and argument set).

  inline: qualified names of the anchor functions into which module-local
    helper calls are inlined; keep: helper names never inlined (they are the
    primitives a rule reasons about); flatten: copy inherited methods into
    every class (only those named in flatten_names if given); loops: anchors
    in which statement-level dict/list comprehensions are rewritten as loops.
  """
  key = ("vmod", rel, tuple(inline), tuple(keep), bool(flatten),
         tuple(flatten_names) if flatten_names else None, tuple(loops), split)
  return ctx.memo(key, lambda: _build(ctx, rel, inline, keep, flatten,
                                      flatten_names, loops, split))


def _build(ctx, rel, inline, keep, flatten, flatten_names, loops, split):
  base = get_module(ctx, rel)
  tree = copy.deepcopy(base.tree)
  notes = []
  if flatten:
    _flatten(tree, flatten_names, notes)
  vm = VModule(rel, base.text, tree, notes)
  inl = _Inliner(tree, set(keep), notes)
  for qual in inline:
    try:
      fn = vm.func(qual)
    except AnalysisError:
      continue      # the rule itself reports a vanished anchor
    inl.inline_into(fn)
    if split:
      _split_parallel(fn)
  for qual in loops:
    try:
      fn = vm.func(qual)
    except AnalysisError:
      continue
    if split:
      _split_parallel(fn)
    _comprehensions_to_loops(fn, notes)
  vm.reindex()
  return vm


# ---------------------------------------------------------------------------
# module-local class hierarchy

def _base_name(b):
  if isinstance(b, ast.Subscript):
    b = b.value
  return dotted(b)


def _top_classes(tree):
  out = {}
  for st in tree.body:
    if isinstance(st, ast.ClassDef):
      out[st.name] = st
  return out


def local_mro(classes, name, _depth=0):
  """C3 linearisation of class `name` over the classes defined in the file.

  A base that is not defined in the file appears as "?<name>" (opaque: it may
  define anything); typing.Generic / Protocol / object / ABC are dropped (they
  define no user-visible methods)."""
  if _depth > 30:
    raise AnalysisError(f"class hierarchy of {name} too deep / cyclic")
  cd = classes[name]
  seqs = []
  direct = []
  for b in cd.bases:
    bn = _base_name(b)
    if bn in _HARMLESS_BASES:
      continue
    if bn in classes and bn != name:
      seqs.append(local_mro(classes, bn, _depth + 1))
      direct.append(bn)
    else:
      tag = "?" + (bn or src(b))
      seqs.append([tag])
      direct.append(tag)
  seqs.append(direct)
  out = [name]
  seqs = [list(s) for s in seqs if s]
  while seqs:
    for s in seqs:
      head = s[0]
      if not any(head in t[1:] for t in seqs):
        break
    else:
      raise AnalysisError(f"inconsistent class hierarchy for {name}")
    out.append(head)
    seqs = [[x for x in s if x != head] for s in seqs]
    seqs = [s for s in seqs if s]
  return out


def _own_methods(cd):
  out = {}
  for st in cd.body:
    if isinstance(st, _FUNCS):
      out[st.name] = st          # last definition wins, as at run time
  return out


def _copyable(fn):
  """A method whose meaning does not depend on the class it is written in."""
  for n in ast.walk(fn):
    if isinstance(n, ast.Name) and n.id in ("super", "__class__"):
      return False
    ident = n.id if isinstance(n, ast.Name) else (
        n.attr if isinstance(n, ast.Attribute) else None)
    if ident and ident.startswith("__") and not ident.endswith("__"):
      return False               # name mangling uses the defining class
  return True


def _flatten(tree, only, notes):
  classes = _top_classes(tree)
  originals = {k: dict(_own_methods(v)) for k, v in classes.items()}
  for name, cd in classes.items():
    try:
      mro = local_mro(classes, name)
    except AnalysisError as e:
      notes.append(f"flatten {name}: {e}")
      continue
    seen = set(originals[name])
    if "__eq__" in seen:
      seen.add("__hash__")       # Python: __eq__ without __hash__ => __hash__ = None
    for b in mro[1:]:
      if b.startswith("?"):
        break                    # anything behind an unknown base may be shadowed
      blocked = set()
      if "__eq__" in originals[b] and "__hash__" not in originals[b]:
        blocked.add("__hash__")
      for mname, m in list(originals[b].items()) + [(x, None) for x in blocked]:
        if m is None:
          seen.add(mname)
          continue
        if mname in seen:
          continue
        seen.add(mname)
        if only is not None and mname not in only:
          continue
        if not _copyable(m):
          notes.append(f"flatten {name}: {b}.{mname} uses super()/__class__/mangling")
          continue
        c = copy.deepcopy(m)
        c._inherited_from = b    # pylint: disable=protected-access
        cd.body.append(c)
        notes.append(f"flatten {name}: {mname} <- {b}")


def resolve_method(mod, clsname, mname):
  """(defining class name, FunctionDef) of `clsname.mname` through the local
  MRO of the (unflattened or flattened) module, or None.  None also when an
  opaque base precedes the definition."""
  classes = _top_classes(mod.tree)
  if clsname not in classes:
    return None
  for b in local_mro(classes, clsname):
    if b.startswith("?"):
      return None
    m = _own_methods(classes[b]).get(mname)
    if m is not None:
      return b, m
  return None


def class_const(mod, clsname, attr):
  """Value node of the class-level constant `clsname.attr`, looked up through
  the local MRO; None when not found or possibly shadowed / reassigned."""
  classes = _top_classes(mod.tree)
  if clsname not in classes:
    return None
  # the attribute must never be assigned from outside a class body
  for n in ast.walk(mod.tree):
    if isinstance(n, ast.Attribute) and n.attr == attr and \
        isinstance(n.ctx, (ast.Store, ast.Del)):
      return None
  for b in local_mro(classes, clsname):
    if b.startswith("?"):
      return None
    val, n_assign = None, 0
    for st in classes[b].body:
      if isinstance(st, ast.Assign):
        for t in st.targets:
          if isinstance(t, ast.Name) and t.id == attr:
            val, n_assign = st.value, n_assign + 1
      elif isinstance(st, ast.AnnAssign) and isinstance(st.target, ast.Name) \
          and st.target.id == attr and st.value is not None:
        val, n_assign = st.value, n_assign + 1
    if n_assign > 1:
      return None
    if val is not None:
      return val
  return None


# ---------------------------------------------------------------------------
# inlining

def _is_docstring(st):
  return isinstance(st, ast.Expr) and isinstance(st.value, ast.Constant) and \
      isinstance(st.value.value, str)


def _stored_names(nodes):
  """Names bound in the function scope by the statements (not by nested
  comprehensions, lambdas or defs, which have their own scope)."""
  out = set()
  todo = list(nodes)
  while todo:
    n = todo.pop()
    if isinstance(n, _FUNCS + (ast.ClassDef,)):
      out.add(n.name)
      continue
    if isinstance(n, ast.Lambda):
      continue
    if isinstance(n, (ast.ListComp, ast.SetComp, ast.DictComp, ast.GeneratorExp)):
      # only the first iterable is evaluated in the enclosing scope
      todo.append(n.generators[0].iter)
      for sub in ast.walk(n):
        if isinstance(sub, ast.NamedExpr):
          out.add(sub.target.id)      # walrus leaks out of comprehensions
      continue
    if isinstance(n, ast.Name) and isinstance(n.ctx, (ast.Store, ast.Del)):
      out.add(n.id)
    elif isinstance(n, ast.ExceptHandler) and n.name:
      out.add(n.name)
    elif isinstance(n, (ast.Import, ast.ImportFrom)):
      for a in n.names:
        out.add((a.asname or a.name).split(".")[0])
    todo.extend(ast.iter_child_nodes(n))
  return out


def _comp_targets(nodes):
  out = set()
  for root in nodes:
    for n in ast.walk(root):
      if isinstance(n, ast.comprehension):
        for x in ast.walk(n.target):
          if isinstance(x, ast.Name):
            out.add(x.id)
      elif isinstance(n, ast.Lambda):
        for a in n.args.posonlyargs + n.args.args + n.args.kwonlyargs:
          out.add(a.arg)
  return out


def _free_names(expr):
  return {n.id for n in ast.walk(expr) if isinstance(n, ast.Name)}


def _is_pure_path(e):
  """Names, constants and attribute / subscript chains over them."""
  if isinstance(e, (ast.Name, ast.Constant)):
    return True
  if isinstance(e, ast.Attribute):
    return _is_pure_path(e.value)
  if isinstance(e, ast.Subscript):
    return _is_pure_path(e.value) and _is_pure_path(e.slice)
  return False


def _is_atomic(e):
  """Side-effect-free and cheap to duplicate: names, constants, dotted names."""
  if isinstance(e, (ast.Name, ast.Constant)):
    return True
  if isinstance(e, ast.Attribute):
    return _is_atomic(e.value)
  return False


class _Subst(ast.NodeTransformer):
  """Replaces names: mapping name -> expression (loads) / Name (stores too)."""

  def __init__(self, mapping):
    self.mapping = mapping

  def visit_Name(self, n):
    if n.id not in self.mapping:
      return n
    new = self.mapping[n.id]
    if isinstance(n.ctx, ast.Load):
      return ast.copy_location(copy.deepcopy(new), n)
    if not isinstance(new, ast.Name):
      raise NoInline(f"store to substituted name {n.id}")
    return ast.copy_location(ast.Name(id=new.id, ctx=n.ctx), n)

  def visit_ExceptHandler(self, n):
    if n.name and n.name in self.mapping:
      new = self.mapping[n.name]
      if not isinstance(new, ast.Name):
        raise NoInline("except target substituted")
      n.name = new.id
    return self.generic_visit(n)


def _kind(fn):
  """'plain' | 'class' | 'static' | None (decorated otherwise)."""
  k = "plain"
  for d in fn.decorator_list:
    dn = dotted(d)
    if dn in ("classmethod", "builtins.classmethod"):
      k = "class"
    elif dn in ("staticmethod", "builtins.staticmethod"):
      k = "static"
    else:
      return None
  return k


def annotation_classes(ann, classes):
  """Module classes named in a parameter annotation (Optional / quotes /
  subscripts looked through)."""
  out = set()
  todo = [ann]
  while todo:
    n = todo.pop()
    if n is None:
      continue
    if isinstance(n, ast.Constant) and isinstance(n.value, str):
      try:
        todo.append(ast.parse(n.value, mode="eval").body)
      except SyntaxError:
        pass
      continue
    if isinstance(n, ast.Name) and n.id in classes:
      out.add(n.id)
    todo.extend(ast.iter_child_nodes(n))
  return out


_PURE_CALLEES = {"len", "set", "dict", "tuple", "sorted", "isinstance",
                 "frozenset", "list", "iter", "next", "hash", "id", "type",
                 "repr", "str", "bool", "any", "all", "min", "max", "sum"}
_MUTATORS = {"add", "update", "pop", "remove", "discard", "clear", "append",
             "extend", "insert", "setdefault", "popitem", "sort", "reverse",
             "__setitem__", "__delitem__", "difference_update",
             "intersection_update", "symmetric_difference_update"}


def _root_name(e):
  while isinstance(e, (ast.Attribute, ast.Subscript, ast.Call)):
    e = e.value if not isinstance(e, ast.Call) else e.func
  return e.id if isinstance(e, ast.Name) else None


def _invalidates(stmt_or_expr, roots):
  """Can evaluating the node change what a pure path over `roots` denotes?"""
  for n in ast.walk(stmt_or_expr):
    if isinstance(n, ast.Name) and isinstance(n.ctx, (ast.Store, ast.Del)) and \
        n.id in roots:
      return True
    if isinstance(n, (ast.Attribute, ast.Subscript)) and \
        isinstance(n.ctx, (ast.Store, ast.Del)) and _root_name(n) in roots:
      return True
    if isinstance(n, ast.Call):
      if isinstance(n.func, ast.Attribute) and n.func.attr in _MUTATORS and \
          _root_name(n.func.value) in roots:
        return True
      if dotted(n.func) not in _PURE_CALLEES:
        for a in list(n.args) + [k.value for k in n.keywords]:
          if isinstance(a, ast.Starred):
            a = a.value
          if isinstance(a, ast.Name) and a.id in roots:
            return True
  return False


class _Inliner:
  """Behaviour-preserving inlining of module-local helpers.

  A call `f(a1..an)` is replaced by the body of f when
    * f is found without guessing: a module-level def, a method of the
      caller's own object, a class/static method named through a module class,
      or a method of a parameter annotated with a module class;
    * f is a plain / class / static method or function: no other decorators,
      not async, no yield, global, nonlocal, nested def, lambda, star
      parameters; the call has no star arguments and binds every parameter
      (defaults must be constants);
    * statement level: the call is the whole value of `T = f(..)`, `return
      f(..)` or an expression statement, and every `return` of f is in tail
      position of an if/else cascade (each becomes `T = value`); locals of f
      are renamed apart; a parameter is replaced by its argument when the
      argument is a name or constant and f does not rebind the parameter
      (or, for `a = f(a)`, when it does but `a` is overwritten by the result
      anyway), otherwise it is bound to a fresh local in call order;
    * expression level: f is `return <expr>` only; a parameter occurring
      several times needs a side-effect-free argument, a parameter occurring
      once may take any argument if nothing that could have an effect is
      evaluated before it in <expr>.
  Anything else is left as a call."""

  def __init__(self, tree, keep, notes):
    self.tree = tree
    self.keep = keep
    self.notes = notes
    self.counter = 0
    self.refresh()

  def refresh(self):
    self.funcs = {st.name: st for st in self.tree.body if isinstance(st, _FUNCS)}
    self.classes = _top_classes(self.tree)
    self.module_names = set()
    for st in self.tree.body:
      self.module_names |= _stored_names([st])
    self.owner = {}
    for cd in self.classes.values():
      for st in cd.body:
        if isinstance(st, _FUNCS):
          self.owner[st] = cd

  # -- callee resolution ----------------------------------------------------
  def _method(self, cd, name):
    m = _own_methods(cd).get(name)
    if m is not None:
      return m
    try:
      for b in local_mro(self.classes, cd.name)[1:]:
        if b.startswith("?"):
          return None
        m = _own_methods(self.classes[b]).get(name)
        if m is not None:
          return m if _copyable(m) else None
    except AnalysisError:
      return None
    return None

  def resolve(self, call, fn, shadow):
    """(callee def, expression for its implicit first parameter or None)."""
    f = call.func
    if isinstance(f, ast.Name):
      if f.id in shadow or f.id in self.keep:
        return None
      g = self.funcs.get(f.id)
      if g is None or _kind(g) != "plain":
        return None
      return g, None
    if not isinstance(f, ast.Attribute) or f.attr in self.keep:
      return None
    recv = f.value
    if not isinstance(recv, ast.Name):
      return None
    cd = None
    is_instance = False
    kf = _kind(fn) if isinstance(fn, _FUNCS) else None
    params = [a.arg for a in fn.args.posonlyargs + fn.args.args]
    stored = _stored_names(fn.body)
    if recv.id in stored:
      return None
    if fn in self.owner and params and recv.id == params[0] and kf in ("plain", "class"):
      cd = self.owner[fn]
      is_instance = kf == "plain"
    elif recv.id in self.classes and recv.id not in params and recv.id not in shadow:
      cd = self.classes[recv.id]
    elif recv.id in params:
      for a in fn.args.posonlyargs + fn.args.args + fn.args.kwonlyargs:
        if a.arg == recv.id and a.annotation is not None:
          ks = annotation_classes(a.annotation, self.classes)
          if len(ks) == 1:
            cd = self.classes[ks.pop()]
            is_instance = True
    if cd is None:
      return None
    g = self._method(cd, f.attr)
    if g is None:
      return None
    kg = _kind(g)
    if kg == "plain":
      if not is_instance:
        return None
      return g, recv
    if kg == "class":
      if is_instance:
        # the receiver's class: exactly `cd` (see module docstring)
        return g, ast.Name(id=cd.name, ctx=ast.Load())
      return g, recv
    if kg == "static":
      return g, False
    return None

  # -- eligibility ---------------------------------------------------------
  def _check_callee(self, g):
    if isinstance(g, ast.AsyncFunctionDef):
      raise NoInline("async")
    a = g.args
    if a.vararg or a.kwarg:
      raise NoInline("star parameters")
    for n in ast.walk(g):
      if n is g:
        continue
      if isinstance(n, (ast.Yield, ast.YieldFrom, ast.Await, ast.Global,
                        ast.Nonlocal, ast.Lambda, ast.ClassDef) + _FUNCS):
        raise NoInline(f"{type(n).__name__} in {g.name}")
      if isinstance(n, ast.Name) and n.id in ("locals", "vars", "globals", "super"):
        raise NoInline(f"{n.id}() in {g.name}")

  def _bind(self, g, call, implicit):
    """[(param name, argument expr)] in evaluation order of the call."""
    a = g.args
    pos = [x.arg for x in a.posonlyargs + a.args]
    if implicit is not None and implicit is not False:
      if not pos:
        raise NoInline("no receiver parameter")
      first, pos = pos[0], pos[1:]
    kwonly = [x.arg for x in a.kwonlyargs]
    if any(isinstance(x, ast.Starred) for x in call.args) or \
        any(k.arg is None for k in call.keywords):
      raise NoInline("star arguments")
    if len(call.args) > len(pos):
      raise NoInline("too many arguments")
    bound = []
    if implicit is not None and implicit is not False:
      bound.append((first, implicit))
    for p, x in zip(pos, call.args):
      bound.append((p, x))
    names = {p for p, _ in bound}
    posonly = {x.arg for x in a.posonlyargs}
    for k in call.keywords:
      if k.arg in names or k.arg in posonly or k.arg not in pos + kwonly:
        raise NoInline(f"keyword {k.arg}")
      bound.append((k.arg, k.value))
      names.add(k.arg)
    # defaults
    all_pos = [x.arg for x in a.posonlyargs + a.args]
    dflt = dict(zip(all_pos[len(all_pos) - len(a.defaults):], a.defaults))
    for p, d in zip(kwonly, a.kw_defaults):
      if d is not None:
        dflt[p] = d
    for p in pos + kwonly:
      if p not in names:
        if p not in dflt or not isinstance(dflt[p], ast.Constant):
          raise NoInline(f"parameter {p} unbound / non-constant default")
        bound.append((p, dflt[p]))
    return bound

  # -- statement level -------------------------------------------------------
  def _fresh(self, name):
    return f"{name}__i{self.counter}"

  def _tail(self, stmts, emit):
    """Rewrites a callee block whose returns are in tail position."""
    out = []
    for i, s in enumerate(stmts):
      if isinstance(s, ast.Return):
        out.extend(emit(s.value, s))
        return out
      has_ret = any(isinstance(n, ast.Return) for n in [s] + list(walk_no_nested(s)))
      if not has_ret:
        out.append(s)
        continue
      if not isinstance(s, ast.If):
        raise NoInline(f"return inside {type(s).__name__}")
      rest = stmts[i + 1:]
      body_t, else_t = flow.terminates(s.body), flow.terminates(s.orelse)
      if rest and not body_t and not else_t and len(rest) > 8:
        raise NoInline("code after a partially returning if is too long to copy")
      body = list(s.body) + ([] if body_t else copy.deepcopy(rest))
      orelse = list(s.orelse) + ([] if else_t else copy.deepcopy(rest))
      new = ast.If(test=s.test, body=self._tail(body, emit) or [ast.Pass()],
                   orelse=self._tail(orelse, emit))
      out.append(ast.copy_location(new, s))
      return out
    out.extend(emit(None, stmts[-1] if stmts else None))
    return out

  def _inline_stmt(self, stmt, call, g, implicit, mode, shadow=frozenset()):
    self._check_callee(g)
    self.counter += 1
    bound = self._bind(g, call, implicit)
    body = [s for s in copy.deepcopy(g.body) if not _is_docstring(s)]
    stored = _stored_names(body)
    params = {p for p, _ in bound}
    comp = _comp_targets(body)
    # names the callee reads from the module must mean the same at the call site
    for n in ast.walk(ast.Module(body=body, type_ignores=[])):
      if isinstance(n, ast.Name) and n.id not in params and n.id not in stored \
          and n.id not in comp and n.id in shadow:
        raise NoInline(f"module name {n.id} is shadowed at the call site")
    mapping, prelude, temps = {}, [], []
    arg_names = {}
    for p, x in bound:
      for nm in _free_names(x):
        arg_names[nm] = arg_names.get(nm, 0) + 1
    target_name = None
    if mode == "assign" and len(stmt.targets) == 1 and isinstance(stmt.targets[0], ast.Name):
      target_name = stmt.targets[0].id
    for p, x in bound:
      if isinstance(x, (ast.Name, ast.Constant)) and p not in stored:
        mapping[p] = x
      elif isinstance(x, ast.Name) and p in stored and x.id == target_name \
          and arg_names.get(x.id) == 1:
        mapping[p] = x           # `a = f(a)`: a is dead after the statement
      else:
        t = ast.Name(id=self._fresh(p), ctx=ast.Load())
        mapping[p] = t
        prelude.append(ast.copy_location(ast.Assign(
            targets=[ast.Name(id=t.id, ctx=ast.Store())], value=copy.deepcopy(x)), stmt))
        if p not in stored and _is_pure_path(x):
          temps.append(t.id)
    for nm in stored - params:
      t = ast.Name(id=self._fresh(nm), ctx=ast.Load())
      mapping[nm] = t
    subst_free = set()
    for v in mapping.values():
      subst_free |= _free_names(v)
    if subst_free & comp:
      raise NoInline("argument name captured by a comprehension of the callee")
    # callee locals bound once to a pure path are temporaries as well
    once = {}
    for n in ast.walk(ast.Module(body=body, type_ignores=[])):
      if isinstance(n, ast.Name) and isinstance(n.ctx, ast.Store):
        once[n.id] = once.get(n.id, 0) + 1
    for s in body:
      if isinstance(s, ast.Assign) and len(s.targets) == 1 and \
          isinstance(s.targets[0], ast.Name) and once.get(s.targets[0].id) == 1 \
          and s.targets[0].id not in params and _is_pure_path(s.value):
        temps.append(mapping[s.targets[0].id].id)
    sub = _Subst(mapping)
    body = [sub.visit(s) for s in body]

    def emit(value, at):
      if mode == "return":
        r = ast.Return(value=value)
        return [ast.copy_location(r, at) if at is not None else r]
      if mode == "assign":
        v = value if value is not None else ast.Constant(value=None)
        if len(stmt.targets) == 1 and isinstance(stmt.targets[0], ast.Name) and \
            isinstance(v, ast.Name) and v.id == stmt.targets[0].id:
          return []              # `a = a`
        new = ast.Assign(targets=copy.deepcopy(stmt.targets), value=v)
        return [ast.copy_location(new, at if at is not None else stmt)]
      if value is None or _is_pure_path(value):
        return []
      return [ast.copy_location(ast.Expr(value=value), at)]

    new = prelude + self._tail(body, emit)
    for n in new:
      ast.fix_missing_locations(n)
    return new, temps

  def _stmt_sites(self, fn):
    """(block list, index, stmt, call, mode) for calls that are a whole statement value."""
    out = []

    def visit(block):
      for i, s in enumerate(block):
        if isinstance(s, ast.Assign) and isinstance(s.value, ast.Call):
          out.append((block, i, s, s.value, "assign"))
        elif isinstance(s, ast.Return) and isinstance(s.value, ast.Call):
          out.append((block, i, s, s.value, "return"))
        elif isinstance(s, ast.Expr) and isinstance(s.value, ast.Call):
          out.append((block, i, s, s.value, "expr"))
        for fld in ("body", "orelse", "finalbody"):
          sub = getattr(s, fld, None)
          if isinstance(sub, list) and not isinstance(s, _FUNCS + (ast.ClassDef,)):
            visit(sub)
        for h in getattr(s, "handlers", []) or []:
          visit(h.body)
    visit(fn.body)
    return out

  def inline_into(self, fn):
    used = {}
    failed = set()
    for _ in range(_MAX_ROUNDS):
      changed = False
      shadow = (_stored_names(fn.body) | _comp_targets(fn.body) |
                {a.arg for a in fn.args.posonlyargs + fn.args.args + fn.args.kwonlyargs})
      if fn.args.vararg:
        shadow.add(fn.args.vararg.arg)
      if fn.args.kwarg:
        shadow.add(fn.args.kwarg.arg)
      # statement level
      for block, i, s, call, mode in self._stmt_sites(fn):
        r = self.resolve(call, fn, shadow)
        if r is None or r[0] is fn or used.get(r[0].name, 0) >= _MAX_PER_CALLEE:
          continue
        g, implicit = r
        if self._is_single_return(g):
          continue               # handled (more simply) at expression level
        if id(call) in failed:
          continue
        try:
          new, temps = self._inline_stmt(s, call, g, implicit, mode, shadow)
        except NoInline as e:
          failed.add(id(call))
          self.notes.append(f"{fn.name}: {g.name} not inlined: {e}")
          continue
        used[g.name] = used.get(g.name, 0) + 1
        idx = block.index(s)
        block[idx:idx + 1] = new or [ast.copy_location(ast.Pass(), s)]
        _propagate_temps(fn, temps)
        self.notes.append(f"{fn.name}: inlined {g.name} (statement)")
        changed = True
        break                    # indices moved: rescan
      if changed:
        continue
      # expression level
      for call in [n for n in ast.walk(fn) if isinstance(n, ast.Call)]:
        r = self.resolve(call, fn, shadow)
        if r is None or r[0] is fn or used.get(r[0].name, 0) >= _MAX_PER_CALLEE:
          continue
        g, implicit = r
        if not self._is_single_return(g):
          continue
        if id(call) in failed:
          continue
        try:
          new = self._inline_expr(call, g, implicit, shadow)
        except NoInline as e:
          failed.add(id(call))
          self.notes.append(f"{fn.name}: {g.name} not inlined: {e}")
          continue
        used[g.name] = used.get(g.name, 0) + 1
        _replace_node(fn, call, new)
        self.notes.append(f"{fn.name}: inlined {g.name} (expression)")
        changed = True
        break
      if not changed:
        break
    _drop_self_copies(fn)

  # -- expression level --------------------------------------------------------
  def _is_single_return(self, g):
    body = [s for s in g.body if not _is_docstring(s)]
    return len(body) == 1 and isinstance(body[0], ast.Return) and \
        body[0].value is not None

  def _inline_expr(self, call, g, implicit, shadow):
    self._check_callee(g)
    bound = self._bind(g, call, implicit)
    expr = copy.deepcopy([s for s in g.body if not _is_docstring(s)][0].value)
    if any(isinstance(n, ast.NamedExpr) for n in ast.walk(expr)):
      raise NoInline("walrus in the callee")
    comp = _comp_targets([expr])
    uses = {}
    for n in ast.walk(expr):
      if isinstance(n, ast.Name) and isinstance(n.ctx, ast.Load):
        uses[n.id] = uses.get(n.id, 0) + 1
    # names the callee reads from the module must mean the same at the call site
    params = {p for p, _ in bound}
    for nm in uses:
      if nm not in params and nm not in comp and nm in shadow:
        raise NoInline(f"module name {nm} is shadowed at the call site")
    mapping = {}
    n_complex = 0
    for p, x in bound:
      if _free_names(x) & comp:
        raise NoInline("argument name captured by a comprehension of the callee")
      if p in comp:
        raise NoInline("parameter re-used as comprehension target")
      if _is_atomic(x):
        mapping[p] = x
      elif uses.get(p, 0) == 0:
        raise NoInline(f"argument for unused parameter {p} has to be evaluated")
      elif uses.get(p, 0) == 1 and self._evaluated_first_safe(expr, p):
        mapping[p] = x
        n_complex += 1
      else:
        raise NoInline(f"argument `{src(x)[:40]}` for {p} cannot be substituted")
    if n_complex > 1:
      raise NoInline("several non-trivial arguments")
    new = _Subst(mapping).visit(expr)
    ast.copy_location(new, call)
    ast.fix_missing_locations(new)
    return new

  @staticmethod
  def _evaluated_first_safe(expr, p):
    """Is the single occurrence of p a direct argument of the outermost call
    of expr, with only side-effect-free expressions evaluated before it?"""
    if not isinstance(expr, ast.Call) or not _is_atomic(expr.func):
      return False
    for a in list(expr.args) + [k.value for k in expr.keywords]:
      if isinstance(a, ast.Name) and a.id == p:
        return True
      if isinstance(a, ast.Starred) or not _is_atomic(a):
        return False
    return False


def _replace_node(root, old, new):
  for n in ast.walk(root):
    for fld, val in ast.iter_fields(n):
      if val is old:
        setattr(n, fld, new)
        return
      if isinstance(val, list):
        for i, x in enumerate(val):
          if x is old:
            val[i] = new
            return
  raise AnalysisError("inliner: call site lost")


def _blocks(fn):
  """Every statement list of fn (not of nested defs)."""
  out = [fn.body]
  for n in walk_no_nested(fn):
    for fld in ("body", "orelse", "finalbody"):
      sub = getattr(n, fld, None)
      if isinstance(sub, list) and sub and isinstance(sub[0], ast.stmt):
        out.append(sub)
    if isinstance(n, ast.ExceptHandler):
      out.append(n.body)
  return out


def _drop_self_copies(fn):
  for block in _blocks(fn):
    block[:] = [s for s in block
                if not (isinstance(s, ast.Assign) and len(s.targets) == 1 and
                        isinstance(s.targets[0], ast.Name) and
                        isinstance(s.value, ast.Name) and
                        s.value.id == s.targets[0].id)] or [ast.Pass()]


def _propagate_temps(fn, temps):
  """Replaces `t = <pure path>` (t an inliner temporary bound once) by the
  path at every use, when nothing between the binding and the last use can
  change what the path denotes."""
  for t in temps:
    stores = [n for n in ast.walk(fn) if isinstance(n, ast.Name)
              and n.id == t and isinstance(n.ctx, (ast.Store, ast.Del))]
    if len(stores) != 1:
      continue
    uses = [n for n in ast.walk(fn) if isinstance(n, ast.Name) and n.id == t
            and isinstance(n.ctx, ast.Load)]
    for block in _blocks(fn):
      idx = [i for i, s in enumerate(block)
             if isinstance(s, ast.Assign) and len(s.targets) == 1 and
             s.targets[0] is stores[0]]
      if not idx:
        continue
      i = idx[0]
      path = block[i].value
      roots = _free_names(path)
      inside, last = set(), i
      for j in range(i + 1, len(block)):
        sub = {id(n) for n in ast.walk(block[j])}
        if any(id(u) in sub for u in uses):
          last = j
        inside |= sub
      if any(id(u) not in inside for u in uses):
        break                    # used outside the block that binds it
      ok = True
      for j in range(i + 1, last + 1):
        sj = block[j]
        if not _invalidates(sj, roots):
          continue
        # `X[..] = <value>`: the value is evaluated before the store happens
        if j == last and isinstance(sj, ast.Assign) and \
            not _invalidates(sj.value, roots) and not any(
                id(u) in {id(n) for tg in sj.targets for n in ast.walk(tg)}
                for u in uses):
          continue
        ok = False
      if not ok:
        break
      sub = _Subst({t: path})
      for j in range(i + 1, last + 1):
        block[j] = sub.visit(block[j])
      del block[i]
      if not block:
        block.append(ast.Pass())
      break


# ---------------------------------------------------------------------------
# small canonicalisations

def _split_parallel(fn):
  """`a, b = X, Y` -> `a = X; b = Y` when no target occurs in a value."""
  for block in _blocks(fn):
    i = 0
    while i < len(block):
      s = block[i]
      if isinstance(s, ast.Assign) and len(s.targets) == 1 and \
          isinstance(s.targets[0], (ast.Tuple, ast.List)) and \
          isinstance(s.value, (ast.Tuple, ast.List)) and \
          len(s.targets[0].elts) == len(s.value.elts) and \
          all(isinstance(t, ast.Name) for t in s.targets[0].elts) and \
          not any(isinstance(v, ast.Starred) for v in s.value.elts):
        tnames = {t.id for t in s.targets[0].elts}
        if len(tnames) == len(s.targets[0].elts) and \
            not (tnames & set().union(*[_free_names(v) for v in s.value.elts])):
          new = [ast.copy_location(ast.Assign(targets=[t], value=v), s)
                 for t, v in zip(s.targets[0].elts, s.value.elts)]
          for n in new:
            ast.fix_missing_locations(n)
          block[i:i + 1] = new
          i += len(new)
          continue
      i += 1


def _comprehensions_to_loops(fn, notes):
  """`N = {k: v for T in IT if c}` / `N = [e for T in IT if c]` at statement
  level -> `N = {}` + for loop; a conditional expression as the stored value
  becomes if/else.  Only when the comprehension variables are used nowhere
  else in the function (they start to live in the function scope)."""
  all_names = {}
  for n in ast.walk(fn):
    if isinstance(n, ast.Name):
      all_names[n.id] = all_names.get(n.id, 0) + 1
  for block in _blocks(fn):
    i = 0
    while i < len(block):
      s = block[i]
      i += 1
      if not (isinstance(s, ast.Assign) and len(s.targets) == 1 and
              isinstance(s.targets[0], ast.Name) and
              isinstance(s.value, (ast.DictComp, ast.ListComp)) and
              len(s.value.generators) == 1 and not s.value.generators[0].is_async):
        continue
      comp, g, name = s.value, s.value.generators[0], s.targets[0].id
      inner = {n.id for n in ast.walk(comp) if isinstance(n, ast.Name)}
      tnames = {n.id for n in ast.walk(g.target) if isinstance(n, ast.Name)}
      counts_inside = {}
      for n in ast.walk(comp):
        if isinstance(n, ast.Name):
          counts_inside[n.id] = counts_inside.get(n.id, 0) + 1
      if name in inner or any(all_names[t] != counts_inside[t] for t in tnames):
        continue
      if any(isinstance(n, (ast.ListComp, ast.SetComp, ast.DictComp, ast.GeneratorExp,
                            ast.Lambda, ast.NamedExpr))
             for n in ast.walk(comp) if n is not comp):
        continue

      def store(value, at):
        if isinstance(comp, ast.DictComp):
          st = ast.Assign(targets=[ast.Subscript(value=ast.Name(id=name, ctx=ast.Load()),
                                                 slice=copy.deepcopy(comp.key),
                                                 ctx=ast.Store())], value=value)
        else:
          st = ast.Expr(value=ast.Call(func=ast.Attribute(
              value=ast.Name(id=name, ctx=ast.Load()), attr="append", ctx=ast.Load()),
              args=[value], keywords=[]))
        return ast.copy_location(st, at)

      def arms(value):
        if isinstance(value, ast.IfExp):
          return [ast.copy_location(ast.If(test=value.test, body=arms(value.body),
                                           orelse=arms(value.orelse)), value)]
        return [store(value, value)]

      body = arms(comp.value if isinstance(comp, ast.DictComp) else comp.elt)
      for c in reversed(g.ifs):
        body = [ast.copy_location(ast.If(test=c, body=body, orelse=[]), c)]
      init = ast.copy_location(ast.Assign(
          targets=[ast.Name(id=name, ctx=ast.Store())],
          value=ast.Dict(keys=[], values=[]) if isinstance(comp, ast.DictComp)
          else ast.List(elts=[], ctx=ast.Load())), s)
      loop = ast.copy_location(ast.For(target=_as_store(g.target), iter=g.iter,
                                       body=body, orelse=[]), s)
      for n in (init, loop):
        ast.fix_missing_locations(n)
      block[i - 1:i] = [init, loop]
      i += 1
      notes.append(f"{fn.name}: comprehension bound to {name} rewritten as a loop")


def _as_store(t):
  t = copy.deepcopy(t)
  for n in ast.walk(t):
    if isinstance(n, (ast.Name, ast.Tuple, ast.List, ast.Starred)):
      n.ctx = ast.Store()
  return t


# ---------------------------------------------------------------------------
# accumulate-in-a-loop combinators (simplify_exprs, _Composite.make)

def pure_temp(s, sym):
  """`name = <dotted name / constant>` bound once at the top level: a hoisted
  temporary (`accept = cls._ACCEPT`), resolved through sym wherever it is read."""
  return (isinstance(s, ast.Assign) and len(s.targets) == 1 and
          isinstance(s.targets[0], ast.Name) and
          s.targets[0].id in sym.sequential and
          sym.counts.get(s.targets[0].id) == 1 and
          (dotted(s.value) is not None or isinstance(s.value, ast.Constant)))


def combinator_shape(fn, loop, sym):
  """(accumulator, its initial value, its initialisation, statements after the
  loop) of an accumulate-in-a-loop combinator; before the loop only the
  accumulator and hoisted temporaries may be bound."""
  used = {n.id for n in ast.walk(loop) if isinstance(n, ast.Name)}
  cands, final, seen_loop = [], [], False
  for s_ in fn.body:
    if s_ is loop:
      seen_loop = True
      continue
    if isinstance(s_, ast.Expr) and isinstance(s_.value, ast.Constant):
      continue
    if seen_loop:
      final.append(s_)
      continue
    if pure_temp(s_, sym):
      continue
    if isinstance(s_, ast.Assign) and len(s_.targets) == 1 and \
        isinstance(s_.targets[0], ast.Name) and s_.targets[0].id in used:
      cands.append((s_.targets[0].id, s_.value, s_))
      continue
    raise AnalysisError(
        f"{fn.name}: statement `{src(s_)[:60]}` before the loop is outside "
        "the combinator schema")
  if len(cands) != 1:
    raise AnalysisError(
        f"{fn.name}: expected one accumulator initialised before the loop, "
        f"found {[c[0] for c in cands]}")
  if not final:
    raise AnalysisError(f"{fn.name}: nothing is returned after the loop")
  return cands[0][0], cands[0][1], cands[0][2], final


# ---------------------------------------------------------------------------
# world interpreter

class Trace:
  """Outcome of one run: kind in return/fall/continue/break/raise."""

  def __init__(self):
    self.kind = "fall"
    self.value = None
    self.stmt = None
    self.tests = []       # [(resolved test, truth value)]


def subst_env(expr, env):
  if not env:
    return expr
  try:
    return _Subst(dict(env)).visit(copy.deepcopy(expr))
  except NoInline as e:
    raise AnalysisError(f"substitution: {e}") from e


def run_world(stmts, env, atom, effect=None, where=""):
  """Runs a statement list in one world.

  env: name -> expression over the initial names (updated in place);
  atom(resolved test) -> True/False/None for the atomic tests (not/and/or are
  evaluated here, short-circuiting like Python); effect(stmt, env, resolve)
  -> True when it has handled a statement that is not a plain binding.
  Conditional expressions at the top of an assigned / returned value are
  decided like if statements.  Anything else raises AnalysisError.
  """
  tr = Trace()

  def resolve(e):
    return subst_env(e, env)

  def truth(t):
    if isinstance(t, ast.UnaryOp) and isinstance(t.op, ast.Not):
      return not truth(t.operand)
    if isinstance(t, ast.BoolOp):
      is_and = isinstance(t.op, ast.And)
      for v in t.values:
        r = truth(v)
        if r != is_and:
          return r
      return is_and
    r = atom(resolve(t))
    if r is None:
      raise AnalysisError(f"{where}: test outside the known atoms: `{src(resolve(t))}`")
    tr.tests.append((resolve(t), bool(r)))
    return bool(r)

  def value(e):
    while isinstance(e, ast.IfExp):
      e = e.body if truth(e.test) else e.orelse
    return resolve(e)

  def bind(target, val):
    if isinstance(target, ast.Name):
      env[target.id] = val
    elif isinstance(target, (ast.Tuple, ast.List)) and len(target.elts) == 1 and \
        isinstance(target.elts[0], ast.Name):
      # `(x,) = S`: the only member of S (ValueError unless len(S) == 1)
      env[target.elts[0].id] = ast.Call(func=ast.Name(id="__only__", ctx=ast.Load()),
                                        args=[val], keywords=[])
    elif isinstance(target, (ast.Tuple, ast.List)) and \
        isinstance(val, (ast.Tuple, ast.List)) and len(val.elts) == len(target.elts) \
        and all(isinstance(t, ast.Name) for t in target.elts):
      for t, v in zip(target.elts, val.elts):
        env[t.id] = v
    else:
      raise AnalysisError(f"{where}: binding `{src(target)}` not understood")

  def block(stmts):
    for s in stmts:
      if isinstance(s, ast.Pass) or _is_docstring(s):
        continue
      if isinstance(s, ast.If):
        r = block(s.body if truth(s.test) else s.orelse)
        if r:
          return r
        continue
      if isinstance(s, ast.Return):
        tr.kind, tr.stmt = "return", s
        tr.value = value(s.value) if s.value is not None else ast.Constant(value=None)
        return True
      if isinstance(s, (ast.Continue, ast.Break)):
        tr.kind, tr.stmt = type(s).__name__.lower(), s
        return True
      if isinstance(s, ast.Raise):
        tr.kind, tr.stmt = "raise", s
        return True
      if effect is not None and effect(s, env, value):
        continue
      if isinstance(s, ast.Assign) and all(
          isinstance(t, (ast.Name, ast.Tuple, ast.List)) for t in s.targets):
        v = value(s.value)
        for t in s.targets:
          bind(t, v)
        continue
      if isinstance(s, ast.AnnAssign) and isinstance(s.target, ast.Name) and s.value is not None:
        env[s.target.id] = value(s.value)
        continue
      raise AnalysisError(
          f"{where}: statement `{src(s)[:60]}` is outside the evaluated fragment")
    return False

  block(stmts)
  return tr


# ---------------------------------------------------------------------------
# Serialisation settings (R4.4 == R12.4), robust to inlined temporaries,
# renamed locals and helper extraction

def _plain_sorted(node):
  return (isinstance(node, ast.Call) and dotted(node.func) == "sorted"
          and len(node.args) == 1 and not node.keywords)


def _value_defs(fn, stmt, expr, rd, defs_at, depth=0):
  """The expressions `expr` can evaluate to at `stmt`: once / several times
  bound locals are followed through reaching definitions (plain `x = e`
  bindings only; anything else yields None for 'unknown')."""
  if depth > 6:
    return [None]
  if not isinstance(expr, ast.Name):
    return [expr]
  defs = defs_at(rd, stmt, expr.id)
  if not defs:
    return [expr]                # a parameter or a global
  out = []
  for d in defs:
    if isinstance(d, ast.Assign) and len(d.targets) == 1 and \
        isinstance(d.targets[0], ast.Name) and d.targets[0].id == expr.id:
      out.extend(_value_defs(fn, d, d.value, rd, defs_at, depth + 1))
    elif isinstance(d, ast.AnnAssign) and isinstance(d.target, ast.Name) and \
        d.target.id == expr.id and d.value is not None:
      out.extend(_value_defs(fn, d, d.value, rd, defs_at, depth + 1))
    else:
      out.append(None)
  return out


def _value_defs_fields(mod, fn, stmt, expr, rd, defs_at, depth=0):
  """_value_defs, field-sensitive: `rec.<field>` / `rec[<int>]` where the local
  `rec` is bound (in `fn`, after helper inlining) to the construction of a
  NamedTuple / plain dataclass of the module, or to a tuple display, stands
  for the constructor argument stored in that field (rules/_record_fields.py).
  A `rec` bound to a call of a function / class of the module in any other
  shape is an AnalysisError; a `rec` that is not such a local leaves the
  expression as it stands."""
  from rules import _record_fields as RF
  sel = RF.selector_of(expr)
  if sel is None:
    return _value_defs(fn, stmt, expr, rd, defs_at, depth)
  base, selector = sel
  if not defs_at(rd, stmt, base.id):
    return [expr]
  vals = _value_defs(fn, stmt, base, rd, defs_at, depth + 1)
  def local_thing(v):
    return isinstance(v, ast.Call) and isinstance(v.func, ast.Name) and (
        v.func.id in mod.functions or RF.record_fields(mod, v.func.id) is not None)
  if not any(v is None or local_thing(v) or isinstance(v, ast.Tuple) for v in vals):
    return [expr]
  out = []
  params = {a.arg for a in fn.args.args + fn.args.kwonlyargs + fn.args.posonlyargs}
  for v in vals:
    arg = None
    if v is not None and local_thing(v) and v.func.id not in mod.functions:
      if v.func.id in params or any(
          isinstance(n, ast.Name) and n.id == v.func.id and isinstance(n.ctx, ast.Store)
          for n in ast.walk(fn)):
        raise AnalysisError(f"{fn.name}: `{v.func.id}` is rebound locally")
      arg = RF.ctor_field(mod, v, selector)
    elif isinstance(v, ast.Tuple) and isinstance(selector, int):
      arg = RF.tuple_item(v, selector)
    if arg is None:
      raise AnalysisError(
          f"{fn.name}: `{src(expr)}` reads a field of a value built as "
          f"`{src(v)[:80] if v is not None else '<unknown>'}`, which is not a "
          "NamedTuple/dataclass/tuple construction the rule can look into")
    # the argument is evaluated where the record is built: resolve its names
    # at that statement
    bind = [d for d in defs_at(rd, stmt, base.id)]
    at = bind[0] if len(bind) == 1 else None
    if at is None or not any(n is v for n in ast.walk(at)):
      if any(isinstance(n, ast.Name) and defs_at(rd, stmt, n.id) for n in ast.walk(arg)):
        raise AnalysisError(
            f"{fn.name}: `{base.id}` is built on several paths from local names")
      out.append(arg)
    else:
      out.extend(_value_defs_fields(mod, fn, at, arg, rd, defs_at, depth + 1))
  RF.require_field_reads_only(fn, base.id)
  return out


def _module_const(mod, node):
  """The value of a module-level name that is bound exactly once and never
  declared global in a function (a named constant); otherwise the node."""
  if not isinstance(node, ast.Name) or node.id not in mod.assigns:
    return node
  n_bind = 0
  for st in mod.tree.body:
    n_bind += node.id in _stored_names([st])
  for n in ast.walk(mod.tree):
    if isinstance(n, (ast.Global, ast.Nonlocal)) and node.id in n.names:
      return node
  fn = mod.enclosing_function(node)
  while fn is not None:
    if node.id in _stored_names(fn.body) or node.id in {
        a.arg for a in fn.args.posonlyargs + fn.args.args + fn.args.kwonlyargs}:
      return node                # a local of the same name
    fn = mod.enclosing_function(fn)
  if n_bind != 1:
    raise AnalysisError(
        f"module-level name {node.id} is bound {n_bind} times: its value at "
        "the time of the call is not decided")
  return mod.assigns[node.id]


def serialisation_instances(ctx):
  """Encoder / gzip / pipeline / dependency-order obligations (same construct
  names as rules/_pytd_schema.serialisation_instances)."""
  from rules._pytd_schema import PICKLE, SERIALIZE, reaching, defs_at
  mod = get_module(ctx, PICKLE)
  # 1. the module-level encoder is deterministic
  enc = mod.const("Encoder")
  if not (isinstance(enc, ast.Call) and dotted(enc.func) == "msgspec.msgpack.Encoder"):
    raise AnalysisError("pickle_utils.Encoder is not a msgspec.msgpack.Encoder(...) call")
  order = kwarg(enc, "order")
  val = order.value if isinstance(order, ast.Constant) else (
      src(order) if order is not None else None)
  ctx.check(val in ("deterministic", "sorted"), "Encoder:order", PICKLE, enc.lineno,
            f"msgspec Encoder is built with order={val!r}; sets and dicts "
            "(SerializableAst.dependencies holds set[str]) are then encoded in "
            "hash order", {"order": val})
  # 2. every encoding in the module goes through that encoder
  stray = []
  for c in calls_in(mod.tree):
    d = dotted(c.func) or ""
    if d in ("msgspec.msgpack.encode", "msgspec.json.encode", "msgspec.to_builtins") \
        or (d.endswith(".Encoder") and c is not enc):
      stray.append((d, c.lineno))
  fn = mod.func("Encode")
  rets = [n for n in ast.walk(fn) if isinstance(n, ast.Return)]
  ok = (not stray and len(rets) == 1 and isinstance(rets[0].value, ast.Call)
        and dotted(rets[0].value.func) == "Encoder.encode")
  ctx.check(ok, "Encode:uses-Encoder", PICKLE, fn.lineno,
            "Encode must return Encoder.encode(obj) and no other msgspec "
            f"encoder may be used in pickle_utils (stray={stray})",
            {"returns": [src(r.value) for r in rets if r.value], "stray": stray})
  # 3. Save: what is written is Encode(obj); the gzip header is constant
  # (module-local helpers that open the streams are inlined, named module
  # constants are read)
  mod_real, mod = mod, virtual(ctx, PICKLE, inline=("Save",), keep=("Encode",))
  fn = mod.func("Save")
  writes = [c for c in calls_in(fn) if isinstance(c.func, ast.Attribute)
            and c.func.attr == "write"]
  if not writes:
    raise AnalysisError("pickle_utils.Save: no .write(...) call")
  rd = reaching(fn)
  wargs, ok = [], True
  for c in writes:
    if len(c.args) != 1 or c.keywords:
      ok = False
      wargs.append(src(c))
      continue
    vals = _value_defs(fn, mod.enclosing_stmt(c), c.args[0], rd, defs_at)
    wargs.extend(src(v) if v is not None else "<unknown>" for v in vals)
    ok = ok and all(v is not None and isinstance(v, ast.Call)
                    and dotted(v.func) == "Encode" for v in vals)
  ctx.check(ok, "Save:writes-Encode", PICKLE, fn.lineno,
            f"Save must write Encode(obj); writes {wargs}", {"writes": wargs})
  gz = [c for c in calls_in(fn) if (dotted(c.func) or "").endswith("GzipFile")]
  if len(gz) != 1:
    raise AnalysisError(f"pickle_utils.Save: expected one GzipFile call, found {len(gz)}")
  g = gz[0]
  if any(k.arg is None for k in g.keywords) or len(g.args) > 0:
    raise AnalysisError("pickle_utils.Save: GzipFile called with positional/**kwargs")
  mt = kwarg(g, "mtime")
  mt = _module_const(mod, mt) if mt is not None else None
  mt_ok = isinstance(mt, ast.Constant) and isinstance(mt.value, (int, float)) \
      and not isinstance(mt.value, bool)
  ctx.check(mt_ok, "Save:gzip-mtime", PICKLE, g.lineno,
            f"gzip.GzipFile(mtime={src(mt) if mt is not None else '<absent>'}): "
            "the gzip header must carry a constant mtime (absent/None means "
            "time.time())", {"mtime": src(mt) if mt is not None else None})
  fnm = kwarg(g, "filename")
  fnm = _module_const(mod, fnm) if fnm is not None else None
  fn_ok = isinstance(fnm, ast.Constant) and fnm.value == ""
  ctx.check(fn_ok, "Save:gzip-filename", PICKLE, g.lineno,
            f"gzip.GzipFile(filename={src(fnm) if fnm is not None else '<absent>'}): "
            "the header file name must be blanked (absent means fileobj.name)",
            {"filename": src(fnm) if fnm is not None else None})
  mod = mod_real
  # 4. Serialize / SerializeAndSave: SerializeAst -> Encode / Save.  What the
  # sink receives is followed through local definitions, so an inlined
  # temporary (`Encode(serialize_ast.SerializeAst(..))`) and a named one are
  # the same thing.
  for name, sink in (("Serialize", "Encode"), ("SerializeAndSave", "Save")):
    f = mod.func(name)
    rd = reaching(f)
    sinks = calls_in(f, name=sink)
    got = []
    ok = len(sinks) == 1 and bool(sinks[0].args) and \
        not isinstance(sinks[0].args[0], ast.Starred)
    if ok:
      got = _value_defs(f, mod.enclosing_stmt(sinks[0]), sinks[0].args[0], rd, defs_at)
      ok = bool(got) and all(
          v is not None and isinstance(v, ast.Call)
          and dotted(v.func) == "serialize_ast.SerializeAst" for v in got)
    ok = ok and not [c for c in calls_in(f) if (dotted(c.func) or "").startswith("msgspec.")]
    ctx.check(ok, f"{name}:pipeline", PICKLE, f.lineno,
              f"{name} must hand the result of serialize_ast.SerializeAst to {sink}",
              {"producer": [src(v) if v is not None else "<unknown>" for v in got],
               "sink": [src(s) for s in sinks]})
  # 5. SerializeAst sorts both dependency lists (helpers that build them are
  # looked into)
  smod = virtual(ctx, SERIALIZE, inline=("SerializeAst",))
  f = smod.func("SerializeAst")
  ctor = [c for c in calls_in(f, name="SerializableAst")]
  if len(ctor) != 1:
    raise AnalysisError("SerializeAst: SerializableAst(...) call not found")
  ctor = ctor[0]
  fields = [n.target.id for n in smod.cls("SerializableAst").body
            if isinstance(n, ast.AnnAssign) and isinstance(n.target, ast.Name)]
  rd = reaching(f)
  cstmt = smod.enclosing_stmt(ctor)
  for fld in ("dependencies", "late_dependencies"):
    if fld not in fields:
      raise AnalysisError(f"SerializableAst has no field {fld}")
    pos = fields.index(fld)
    a = kwarg(ctor, fld)
    if a is None and len(ctor.args) > pos:
      a = ctor.args[pos]
    if a is None:
      raise AnalysisError(f"SerializeAst: argument {fld} not found")
    vals = _value_defs_fields(smod, f, cstmt, a, rd, defs_at)
    if any(v is None or (isinstance(v, ast.Call) and dotted(v.func) in smod.functions)
           for v in vals):
      raise AnalysisError(
          f"SerializeAst: the value of `{src(a)}` handed to SerializableAst.{fld} "
          "is bound in a way the rule does not follow (tuple unpacking / a "
          "helper that could not be inlined)")
    ok = bool(vals) and all(_plain_sorted(v) for v in vals)
    shown = " / ".join(sorted({src(v) for v in vals}))
    ctx.check(ok, f"SerializeAst:{fld}-sorted", SERIALIZE, a.lineno,
              f"SerializableAst.{fld} is built from {shown}; the module list "
              "must be sorted (it comes from a dict filled in visiting order)",
              {"value": shown})
