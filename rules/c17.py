"""C17 - boolean-equation terms are built and simplified to equivalent terms.

Schema match of pytype/pytd/booleq.py against the textbook normalisation whose
correctness is argued on paper (DESIGN.md, C17).  Decides the constructors
(`And`, `Or`, `Eq`), `simplify` of every term class, the pivot combinators'
duality and the eq/hash law of the term classes.  Does NOT decide
`Solver.solve`.
"""
import ast

from sa.core import rule, AnalysisError
from sa.pyindex import get_module, dotted, src, calls_in, all_py_files, walk_no_nested
from rules import _schema as S
from rules import _util_c12c17c18 as U

BQ = "pytype/pytd/booleq.py"


def _vmod(ctx):
  """booleq.py with module-local inheritance flattened (a method `_And`
  inherits from a base class defined in the file is `_And`'s) and module-local
  helpers of the constructors inlined (`_And._build(exprs)` is the
  simplify_exprs call it returns).  simplify_exprs itself is the primitive
  the rules reason about and is never inlined."""
  return U.virtual(ctx, BQ, inline=("And", "Or", "_And.simplify", "_Or.simplify"),
                   keep=("simplify_exprs",), flatten=True)

EXPLANATION = (
    "Schema match of pytype/pytd/booleq.py, obligation by obligation, against "
    "the textbook normalisation of boolean terms.  Paper argument: read "
    "`_And S` as 'all of S', `_Or S` as 'some of S', TRUE/FALSE as the "
    "constants.  A combinator that (a) returns the absorbing element as soon "
    "as it meets it, (b) drops the identity element, (c) splices the members "
    "of a nested term of the same connective, (d) keeps the remaining members "
    "in a set and (e) returns the connective over >= 2 members, the single "
    "member, or the identity element for none, yields a term equivalent to "
    "the plain connective under every assignment (absorption, identity, "
    "associativity, idempotence, commutativity).  For `_Eq(l, r).simplify(A)` "
    "with assignments drawn from A (value(l) in A[l]): if r is a value and r "
    "is not in A[l] the equality is false under every such assignment, and "
    "returning the term itself is trivially equivalent.  R17.1 decides "
    "(a)-(e) for `simplify_exprs` by enumerating the four kinds of member "
    "(absorbing / identity / same connective / other) and the sizes 0, 1, "
    ">= 2 of the accumulator against the path conditions (sa.flow.guards) of "
    "every return, continue and accumulator update; R17.2 decides that And / "
    "_And.simplify and Or / _Or.simplify instantiate it with (_And, FALSE, "
    "TRUE) and (_Or, TRUE, FALSE), that simplify passes every member "
    "simplified against the same table, and that the two extract_pivots are "
    "mirror images under TRUE<->FALSE, _And<->_Or, &<->|; R17.3 decides the "
    "decision tables of `Eq` (TRUE iff equal, else _Eq(max, min)) and of "
    "`_Eq.simplify` (FALSE only if right is neither a variable nor a possible "
    "value of left) and `_Eq.extract_pivots`; R17.4 the eq/hash law (every "
    "hashed projection is a compared projection, the class is tested before "
    "the other operand's fields are touched, `_expr_set_hash` is insensitive "
    "to iteration order); R17.5 that TRUE/FALSE are the only instances of "
    "their classes (all absorption tests are identity tests) and simplify to "
    "themselves; R17.6 that the term constructors store their arguments in "
    "the fields simplify/eq/hash read; R17.7 that building a term never "
    "changes an existing one: every in-place update of the accumulator of "
    "`simplify_exprs` (add / pop / update / |=) is reached only by bindings "
    "of the accumulator to a NEW set (set(), a display or comprehension, a "
    "set operator or union/copy result) - a binding to a nested term's own "
    "`.exprs` (directly, through a local, or in one arm of a conditional "
    "expression) would let the update rewrite that term, which is shared, "
    "hashed and may be used again (reaching definitions, sa.flow may-mode).  "
    "The rules read booleq.py through a virtual module "
    "(rules/_util_c12c17c18): methods a term class inherits from a base "
    "class defined in the file are the class's own (local C3 linearisation), "
    "and module-local helpers of the constructors - e.g. a classmethod "
    "`_build(cls, exprs)` returning simplify_exprs(exprs, cls, "
    "cls._STOP_TERM, cls._SKIP_TERM) - are inlined, class-level constants "
    "being read through the local MRO (they must be bound once and never "
    "assigned from outside); simplify_exprs itself is never inlined, it is "
    "the combinator R17.1 decides.  A helper that cannot be inlined soundly "
    "(decorated, several non-tail returns, star arguments) leaves the rule "
    "with a call it does not know: analysis error.  R17.3 runs `Eq` once "
    "per order of its arguments with every test decided by that order and "
    "values kept symbolic over the arguments as passed in, so if/elif/else "
    "with two constructor calls, guard clauses and a conditional swap "
    "(`if not left > right: left, right = right, left`) are the same thing.  "
    "R17.3 decides the codomain of `_Eq.simplify` (the term itself, a "
    "structurally equal copy, or FALSE) on the returned expressions alone, "
    "before any branch test is interpreted: a different returned term is a "
    "violation even when the tests guarding it are outside the known atoms.  "
    "Together these decide the "
    "constructor and simplify clauses of C17.  Not decided: Solver.solve and "
    "its use of the pivots (in particular whether taking the union over the "
    "branches of an _Or is meaningful for a variable missing from a branch), "
    "and the behaviour on a value=value equality, which `_Eq.simplify` "
    "answers with KeyError.")
ASSUMPTIONS = [
    "terms are built through And/Or/Eq (never _And/_Or/_Eq directly outside "
    "booleq.py); R17.5 enumerates constructions of TrueValue/FalseValue in the "
    "anchored files (quick) or the whole package (thorough)",
    "`assignments` maps every variable occurring on the left of an _Eq to the "
    "set of its still-possible values (the precondition of the paper argument)",
    "the names TRUE/FALSE/_And/_Or denote the module-level objects of "
    "booleq.py inside its functions (no local shadowing; checked)",
    "Solver.solve and the first-approximation machinery are out of scope",
    "a method inherited from a base class of booleq.py is analysed for "
    "instances whose class is exactly the inheriting class (_And and _Or "
    "have no subclasses)",
    "terms are immutable after construction: nothing outside simplify_exprs "
    "updates a term's `.exprs` in place (R17.7 looks at simplify_exprs only); "
    "set operators and set.union/copy return new sets (Python semantics)",
]

EXPLANATION += (
    "  R17.8 (rules/c17_codomain.py) decides the codomain of And, Or, "
    "_And.simplify and _Or.simplify on the returned expressions and the path "
    "condition of each return, without interpreting any other test: every "
    "returned value is the result of the one simplify_exprs call (directly or "
    "through locals bound only to it), the term itself (trivially "
    "equivalent), or a constant TRUE/FALSE on a path on which some test "
    "found something to BE that constant (`x is TRUE`, `x == TRUE`, `TRUE in "
    "xs`, positively).  A constant returned on any other path is a violation: "
    "the paper argument covers only what the combinator produces, so "
    "`_Or.simplify` may answer TRUE only because an operand simplified to "
    "TRUE - not because the pivots of the alternatives cover the table "
    "(pivots are a per-variable projection that descends into nested "
    "conjunctions: `(x==a & y==a) | (x==b & y==b)` covers x and y and is "
    "false for x=a, y=b), a size limit was hit or the table is empty.  With "
    "R17.8 deciding the returns, R17.2 only requires that there is exactly "
    "one simplify_exprs call and reads its arguments.  Over-approximation: a "
    "sound extra short cut that does not compare anything with the constant "
    "it returns (none today) would be reported; any other returned "
    "expression is an analysis error.")


# ---------------------------------------------------------------------------
# helpers

def _roles(fn):
  """(exprs, result_type, stop_term, skip_term) parameter names of simplify_exprs."""
  ps = S.params_of(fn)
  if len(ps) != 4 or fn.args.vararg or fn.args.kwarg or fn.args.kwonlyargs:
    raise AnalysisError(f"simplify_exprs has parameters {ps}, expected four")
  canon = ("exprs", "result_type", "stop_term", "skip_term")
  if set(ps) == set(canon):
    return canon
  return tuple(ps)


def _is_cmp(e, a, op, b):
  return (isinstance(e, ast.Compare) and len(e.ops) == 1
          and isinstance(e.ops[0], op)
          and src(e.left) == a and src(e.comparators[0]) == b)


def _identity_atom(e, var, consts):
  """`var is K` / `K is var` / `var is not K` -> (K, positive) for K in consts."""
  if isinstance(e, ast.Compare) and len(e.ops) == 1 and \
      isinstance(e.ops[0], (ast.Is, ast.IsNot)):
    l, r = src(e.left), src(e.comparators[0])
    for k in consts:
      if (l, r) in ((var, k), (k, var)):
        return k, isinstance(e.ops[0], ast.Is)
  return None


def _no_shadow(fn, names):
  for n in walk_no_nested(fn):
    if isinstance(n, ast.Name) and isinstance(n.ctx, ast.Store) and n.id in names:
      raise AnalysisError(f"{fn.name}: local shadows module-level {n.id}")
  for p in S.all_params(fn):
    if p in names:
      raise AnalysisError(f"{fn.name}: parameter shadows module-level {p}")


# ---------------------------------------------------------------------------
# R17.1

@rule("R17.1", "C17", floor=8)
def r17_1(ctx):
  """simplify_exprs is the absorbing/identity/flatten/set/arity combinator."""
  mod = U.virtual(ctx, BQ, inline=("simplify_exprs",))
  fn = mod.func("simplify_exprs")
  exprs, rtype, stop, skip = _roles(fn)
  sym = S.Sym(mod, fn)
  for p in (exprs, rtype, stop, skip):
    if p in sym.counts:
      raise AnalysisError(f"simplify_exprs rebinds its parameter {p}")
  loop = S.single_loop(fn, exprs)
  e = loop.target.id
  if sym.counts.get(e, 0) != 1:
    raise AnalysisError(f"simplify_exprs rebinds the loop variable {e}")
  acc, init, init_stmt, final_stmts = U.combinator_shape(fn, loop, sym)
  actions = S.loop_actions(mod, fn, loop, sym, acc)
  line = loop.lineno

  def atom_for(world):
    def atom(t):
      hit = _identity_atom(t, e, (stop, skip))
      if hit is not None:
        k, positive = hit
        return (world == {stop: "stop", skip: "skip"}[k]) == positive
      if isinstance(t, ast.Call) and dotted(t.func) == "isinstance" and \
          len(t.args) == 2 and not t.keywords and src(t.args[0]) == e and \
          src(t.args[1]) == rtype:
        return world == "same"
      c = S.card_atom(acc, 0)(t)  # size tests do not belong in the loop
      if c is not None:
        raise AnalysisError(
            f"simplify_exprs: size test `{src(t)}` inside the loop")
      return None
    return atom

  def describe(acts):
    out = []
    for kind, payload, _, _ in acts:
      out.append(kind if payload is None else f"{kind} {src(payload)}")
    return out

  def value_kind(v):
    s = src(v)
    if s == stop:
      return "absorbing"
    if s == skip:
      return "identity"
    if s == e:
      return "member"
    return None

  per_world = {}
  for w in ("stop", "skip", "same", "other"):
    per_world[w] = S.executed(actions, atom_for(w))

  # (a) absorbing element: returned at once
  acts = per_world["stop"]
  rets = [a for a in acts if a[0] == "return"]
  muts = [a for a in acts if a[0] in ("add", "splice")]
  facts = {"member": f"{e} is {stop}", "executes": describe(acts)}
  ok = len(rets) == 1 and not muts and \
      value_kind(rets[0][1]) in ("absorbing", "member")
  if len(rets) == 1 and value_kind(rets[0][1]) is None:
    raise AnalysisError(
        f"simplify_exprs returns `{src(rets[0][1])}` on the absorbing member")
  ctx.check(ok, "simplify_exprs:absorb", BQ, rets[0][2].lineno if rets else line,
            f"a member that is {stop} must make the combinator return {stop} "
            f"at once; in that case the loop executes {describe(acts)}", facts)

  # (b) identity element: dropped, nothing else happens
  acts = per_world["skip"]
  facts = {"member": f"{e} is {skip}", "executes": describe(acts)}
  ok = not [a for a in acts if a[0] != "continue"]
  ctx.check(ok, "simplify_exprs:identity", BQ, acts[0][2].lineno if acts else line,
            f"a member that is {skip} must be dropped without any other "
            f"effect; in that case the loop executes {describe(acts)}", facts)

  # (c) same connective: members spliced
  acts = per_world["same"]
  eff = [a for a in acts if a[0] != "continue"]
  facts = {"member": f"isinstance({e}, {rtype})", "executes": describe(acts)}
  if len(eff) == 1 and eff[0][0] == "splice":
    opnd = eff[0][1]
    if not (isinstance(opnd, ast.Attribute) and src(opnd.value) == e):
      raise AnalysisError(
          f"simplify_exprs splices `{src(opnd)}`, not an attribute of {e}")
    facts["field"] = opnd.attr
    ok = opnd.attr == "exprs"
    why = f"splices {e}.{opnd.attr}, the members live in `.exprs`"
  else:
    ok = False
    why = f"the loop executes {describe(acts)}"
  ctx.check(ok, "simplify_exprs:splice", BQ, eff[0][2].lineno if eff else line,
            f"a nested {rtype} must contribute exactly its members "
            f"({e}.exprs): {why}", facts)

  # (d) anything else: kept as a member
  acts = per_world["other"]
  eff = [a for a in acts if a[0] != "continue"]
  facts = {"member": "any other term", "executes": describe(acts)}
  ok = len(eff) == 1 and eff[0][0] == "add" and src(eff[0][1]) == e
  if len(eff) == 1 and eff[0][0] == "add" and src(eff[0][1]) != e:
    raise AnalysisError(f"simplify_exprs adds `{src(eff[0][1])}`, not {e}")
  ctx.check(ok, "simplify_exprs:keep", BQ, eff[0][2].lineno if eff else line,
            "any other member must be added to the accumulator (and nothing "
            f"else); the loop executes {describe(acts)}", facts)

  # (d') the accumulator is a set
  kind = S.empty_kind(init)
  if kind is None:
    raise AnalysisError(
        f"simplify_exprs: accumulator initialised with `{src(init)}`")
  ctx.check(kind == "set", "simplify_exprs:accumulator", BQ, init_stmt.lineno,
            f"the members are collected in a {kind}; idempotence and "
            "commutativity of the connective need a set",
            {"name": acc, "init": src(init)})

  # (e) the three arities: the statements after the loop are run once per
  # size of the accumulator (tests decided by the size, values symbolic), so
  # elif chains, guard clauses and hoisted temporaries read the same
  table = {}
  for n in S.CARD_WORLDS:
    env = dict(sym.env_before(final_stmts[0]))
    tr = U.run_world(final_stmts, env, S.card_atom(acc, n), where="simplify_exprs")
    if tr.kind != "return":
      raise AnalysisError(f"simplify_exprs: no return reached with {n} member(s)")
    table[n] = (tr.stmt, tr.value, tr.tests)

  def final_kind(v, n):
    s = src(v)
    if s in (f"{rtype}({acc})", f"{rtype}(frozenset({acc}))", f"{rtype}(set({acc}))"):
      return "connective"
    if s in (f"{acc}.pop()", f"next(iter({acc}))"):
      return "member"
    if s == f"__only__({acc})":
      return "member" if n == 1 else "failing unpacking of the members"
    if s == skip:
      return "identity"
    if s == stop:
      return "absorbing"
    raise AnalysisError(f"simplify_exprs: final return value `{s}` not understood")

  got = {n: final_kind(table[n][1], n) for n in S.CARD_WORLDS}
  want = {0: "identity", 1: "member", 2: "connective", 3: "connective"}
  names = {0: "empty", 1: "single", 2: "many"}
  for n in (0, 1, 2):
    ok = got[n] == want[n] and (n != 2 or got[3] == want[3])
    ctx.check(ok, f"simplify_exprs:{names[n]}", BQ, table[n][0].lineno,
              f"with {'>= 2' if n == 2 else n} remaining member(s) the "
              f"combinator must return the {want[n]}, it returns "
              f"`{src(table[n][1])}`"
              + (f" (and `{src(table[3][1])}` for 3)" if n == 2 else ""),
              {"size": n, "returns": src(table[n][1]),
               "guards": [(src(t), p) for t, p in table[n][2]]})


# ---------------------------------------------------------------------------
# R17.2

_MIRROR = {"_And": "_Or", "_Or": "_And", "TRUE": "FALSE", "FALSE": "TRUE",
           "&": "|", "|": "&"}
_WANT = {"And": ("_And", "FALSE", "TRUE"), "Or": ("_Or", "TRUE", "FALSE")}


def _combinator_call(mod, qual, roles):
  fn = mod.func(qual)
  _no_shadow(fn, {"TRUE", "FALSE", "_And", "_Or", "simplify_exprs"})
  calls = calls_in(fn, name="simplify_exprs")
  # which of its returns hand out the call's result is R17.8's question
  # (rules/c17_codomain.py); here only the arguments of the one call matter
  if len(calls) != 1:
    raise AnalysisError(
        f"{qual}: expected a single simplify_exprs(...) call, found {len(calls)}")
  call = calls[0]
  if any(isinstance(a, ast.Starred) for a in call.args) or \
      any(k.arg is None for k in call.keywords):
    raise AnalysisError(f"{qual}: star-arguments in the simplify_exprs call")
  bound = dict(zip(S.params_of(mod.func("simplify_exprs")), call.args))
  for k in call.keywords:
    bound[k.arg] = k.value
  for r, v in list(bound.items()):
    # `_And._STOP_TERM`: a class-level constant, read through the local MRO
    if isinstance(v, ast.Attribute) and isinstance(v.value, ast.Name) and \
        v.value.id in mod.classes:
      c = U.class_const(mod, v.value.id, v.attr)
      if c is None:
        raise AnalysisError(
            f"{qual}: `{src(v)}` is not a class constant bound once in the file")
      bound[r] = c
  try:
    return fn, call, [bound[r] for r in roles]
  except KeyError as e:
    raise AnalysisError(f"{qual}: simplify_exprs argument {e} missing") from e


def _pivot_schema(mod, clsname):
  """(operator on a repeated name, value for a fresh name, returned map)."""
  qual = f"{clsname}.extract_pivots"
  fn = mod.func(qual)
  sym = S.Sym(mod, fn)
  ps = S.params_of(fn)
  if len(ps) != 2:
    raise AnalysisError(f"{qual}: parameters {ps}")
  loops = [s for s in fn.body if isinstance(s, ast.For)]
  if len(loops) != 1 or src(loops[0].iter) != "self.exprs" or \
      not isinstance(loops[0].target, ast.Name):
    raise AnalysisError(f"{qual}: outer loop over self.exprs not found")
  outer = loops[0]
  member = outer.target.id
  inner = [s for s in ast.walk(outer) if isinstance(s, ast.For) and s is not outer]
  if len(inner) != 1:
    raise AnalysisError(f"{qual}: expected one inner loop, found {len(inner)}")
  inner = inner[0]
  it = sym.resolve(inner.iter, inner)
  if src(it) != f"{member}.extract_pivots({ps[1]}).items()":
    raise AnalysisError(f"{qual}: inner loop iterates `{src(it)}`")
  if not (isinstance(inner.target, ast.Tuple) and len(inner.target.elts) == 2
          and all(isinstance(x, ast.Name) for x in inner.target.elts)):
    raise AnalysisError(f"{qual}: inner loop target `{src(inner.target)}`")
  name, values = (x.id for x in inner.target.elts)
  for n in ast.walk(outer):
    if isinstance(n, (ast.Break, ast.Continue, ast.Return, ast.While, ast.Try)):
      raise AnalysisError(f"{qual}: `{type(n).__name__}` inside the loops")
  # writes into the pivot map
  writes = []
  for n in ast.walk(inner):
    tgt = None
    if isinstance(n, ast.Assign) and len(n.targets) == 1 and \
        isinstance(n.targets[0], ast.Subscript):
      tgt, val, aug = n.targets[0], n.value, None
    elif isinstance(n, ast.AugAssign) and isinstance(n.target, ast.Subscript):
      tgt, val, aug = n.target, n.value, n.op
    elif isinstance(n, ast.stmt) and not isinstance(n, (ast.If, ast.For, ast.Pass)):
      raise AnalysisError(f"{qual}: statement `{src(n)[:60]}` in the inner loop")
    if tgt is not None:
      writes.append((n, tgt, val, aug))
  maps = {src(t.value) for _, t, _, _ in writes}
  if len(maps) != 1 or not writes:
    raise AnalysisError(f"{qual}: writes into {sorted(maps)}")
  pmap = maps.pop()
  init = [s for s in fn.body if isinstance(s, ast.Assign) and len(s.targets) == 1
          and src(s.targets[0]) == pmap]
  if len(init) != 1 or S.empty_kind(init[0].value) != "dict":
    raise AnalysisError(f"{qual}: pivot map {pmap} is not initialised to an empty dict")

  def atom_for(present):
    def atom(t):
      if _is_cmp(t, name, ast.In, pmap):
        return present
      if _is_cmp(t, name, ast.NotIn, pmap):
        return not present
      return None
    return atom

  def classify(n, tgt, val, aug):
    if src(tgt.slice) != name:
      raise AnalysisError(f"{qual}: write to key `{src(tgt.slice)}`")
    cur = f"{pmap}[{name}]"
    ops = {ast.BitAnd: "&", ast.BitOr: "|"}
    if aug is not None:
      if type(aug) in ops and src(val) == values:
        return ops[type(aug)]
      raise AnalysisError(f"{qual}: `{src(n)}` not understood")
    if src(val) == values:
      return "fresh"
    if isinstance(val, ast.BinOp) and type(val.op) in ops and \
        {src(val.left), src(val.right)} == {cur, values}:
      return ops[type(val.op)]
    raise AnalysisError(f"{qual}: `{src(n)}` not understood")

  out = {}
  for present in (True, False):
    hit = [w for w in writes
           if S.holds(S.guards(mod, w[0], sym, within=inner), atom_for(present))]
    if len(hit) != 1:
      raise AnalysisError(
          f"{qual}: {len(hit)} writes execute when the name is "
          f"{'already' if present else 'not yet'} in the map")
    out[present] = (classify(*hit[0]), hit[0][0].lineno)
  # returned map
  rets = [n for n in walk_no_nested(fn) if isinstance(n, ast.Return)]
  if len(rets) != 1:
    raise AnalysisError(f"{qual}: {len(rets)} returns")
  rv = rets[0].value
  if src(rv) == pmap:
    returned = "all"
  elif isinstance(rv, ast.DictComp) and len(rv.generators) == 1 and \
      src(rv.generators[0].iter) == f"{pmap}.items()" and \
      isinstance(rv.generators[0].target, ast.Tuple) and \
      len(rv.generators[0].target.elts) == 2 and \
      [src(rv.key), src(rv.value)] == [src(x) for x in rv.generators[0].target.elts]:
    ifs = rv.generators[0].ifs
    if not ifs:
      returned = "all"
    elif len(ifs) == 1 and src(ifs[0]) == src(rv.value):
      returned = "non-empty"
    else:
      returned = "filtered:" + " and ".join(src(i) for i in ifs)
  else:
    raise AnalysisError(f"{qual}: returns `{src(rv)}`")
  return fn, out, returned, rets[0].lineno


@rule("R17.2", "C17", floor=14)
def r17_2(ctx):
  """And/Or families instantiate the combinator as mirror images."""
  mod = _vmod(ctx)
  roles = _roles(mod.func("simplify_exprs"))
  for nm in ("TRUE", "FALSE"):
    if nm not in mod.assigns:
      raise AnalysisError(f"booleq.{nm} not found")
  for nm in ("_And", "_Or"):
    mod.cls(nm)
  got = {}
  for fam, quals in (("And", ("And", "_And.simplify")), ("Or", ("Or", "_Or.simplify"))):
    for qual in quals:
      fn, call, (a_exprs, a_rt, a_stop, a_skip) = _combinator_call(mod, qual, roles)
      tup = (src(a_rt), src(a_stop), src(a_skip))
      got[qual] = tup
      ctx.check(tup == _WANT[fam], f"{qual}:tuple", BQ, call.lineno,
                f"{qual} calls simplify_exprs with (result, stop, skip) = "
                f"{tup}; the {fam.lower()}-connective needs {_WANT[fam]}",
                {"result_type": tup[0], "stop_term": tup[1], "skip_term": tup[2]})
      # first argument: the members
      if "." not in qual:
        ps = S.params_of(fn)
        ok = len(ps) == 1 and src(a_exprs) == ps[0]
        ctx.check(ok, f"{qual}:members", BQ, call.lineno,
                  f"{qual} passes `{src(a_exprs)}` as the members, expected "
                  "its own argument unchanged", {"members": src(a_exprs)})
      else:
        ps = S.params_of(fn)
        if len(ps) != 2:
          raise AnalysisError(f"{qual}: parameters {ps}")
        if not isinstance(a_exprs, (ast.GeneratorExp, ast.ListComp, ast.SetComp)):
          raise AnalysisError(
              f"{qual}: members passed as `{src(a_exprs)[:60]}`, expected a "
              "comprehension over self.exprs")
        gens = a_exprs.generators
        if len(gens) != 1 or not isinstance(gens[0].target, ast.Name):
          raise AnalysisError(f"{qual}: comprehension shape")
        t = gens[0].target.id
        facts = {"iter": src(gens[0].iter), "element": src(a_exprs.elt),
                 "filters": [src(i) for i in gens[0].ifs]}
        ok = (src(gens[0].iter) == "self.exprs" and not gens[0].ifs
              and src(a_exprs.elt) == f"{t}.simplify({ps[1]})")
        ctx.check(ok, f"{qual}:members", BQ, call.lineno,
                  f"{qual} must pass every member of self.exprs simplified "
                  f"against the same table; it passes `{src(a_exprs)}`", facts)
  # the duality itself, stated once on the extracted tables
  mirrored = {q: tuple(_MIRROR.get(x, x) for x in t) for q, t in got.items()}
  ctx.check(mirrored["And"] == got["Or"] and
            mirrored["_And.simplify"] == got["_Or.simplify"],
            "duality:tuples", BQ, mod.func("Or").lineno,
            "the Or-family tuples are not the mirror image of the And-family "
            f"tuples under TRUE<->FALSE, _And<->_Or: {got}", got)
  # extract_pivots
  piv = {}
  for clsname, op in (("_And", "&"), ("_Or", "|")):
    fn, table, returned, rline = _pivot_schema(mod, clsname)
    piv[clsname] = (table[True][0], table[False][0])
    facts = {"repeated-name": table[True][0], "fresh-name": table[False][0],
             "returns": returned}
    ok = table[True][0] == op and table[False][0] == "fresh"
    ctx.check(ok, f"{clsname}.extract_pivots:combine", BQ, table[True][1],
              f"{clsname}.extract_pivots combines the values of a repeated "
              f"name with `{table[True][0]}` and stores "
              f"`{table[False][0]}` for a new one; expected `{op}` / the "
              "member's own values", facts)
    ctx.check(returned in ("all", "non-empty"),
              f"{clsname}.extract_pivots:result", BQ, rline,
              f"{clsname}.extract_pivots returns the pivot map {returned}; "
              "only empty value sets may be dropped", facts)
  ctx.check(_MIRROR.get(piv["_And"][0]) == piv["_Or"][0] and
            piv["_And"][1] == piv["_Or"][1],
            "duality:pivots", BQ, mod.func("_Or.extract_pivots").lineno,
            f"_And/_Or.extract_pivots are not mirror images under &<->|: {piv}",
            {k: list(v) for k, v in piv.items()})


# ---------------------------------------------------------------------------
# R17.3

@rule("R17.3", "C17", floor=7)
def r17_3(ctx):
  """Eq, _Eq.simplify, _Eq.extract_pivots decision tables."""
  mod = get_module(ctx, BQ)
  # --- Eq ---
  fn = mod.func("Eq")
  _no_shadow(fn, {"TRUE", "FALSE", "_Eq"})
  ps = S.params_of(fn)
  if len(ps) != 2:
    raise AnalysisError(f"Eq has parameters {ps}")
  l, r = ps
  worlds = {"lt": (0, 1), "eq": (1, 1), "gt": (1, 0)}

  def order_atom(w):
    val = {l: worlds[w][0], r: worlds[w][1]}

    def atom(t):
      if isinstance(t, ast.Compare) and len(t.ops) == 1 and \
          type(t.ops[0]) in S._CMP and src(t.left) in val and \
          src(t.comparators[0]) in val:
        return S._CMP[type(t.ops[0])](val[src(t.left)], val[src(t.comparators[0])])
      return None
    return atom

  # Eq is run once per order of its two arguments: every test is decided from
  # the order, values stay expressions over the arguments as passed in - so a
  # conditional swap (`if not left > right: left, right = right, left`) and an
  # if/elif/else with two constructor calls are the same thing
  table = {}
  for w in worlds:
    tr = U.run_world(fn.body, {}, order_atom(w), where="Eq")
    if tr.kind != "return":
      raise AnalysisError(f"Eq: no return reached for {w}")
    table[w] = (tr.stmt, tr.value, tr.tests)

  def eq_kind(v, w):
    s = src(v)
    if s in ("TRUE", "FALSE"):
      return s
    if isinstance(v, ast.Call) and dotted(v.func) == "_Eq" and len(v.args) == 2 \
        and not v.keywords:
      a, b = (src(x) for x in v.args)
      mx, mn = f"max({l}, {r})", f"min({l}, {r})"
      alt = (f"max({r}, {l})", f"min({r}, {l})")
      if (a in (mx, alt[0])) and (b in (mn, alt[1])):
        return "_Eq(max, min)"
      if a == b and a in (l, r):
        return "_Eq(same, same)"
      if {a, b} == {l, r}:
        hi = l if worlds[w][0] > worlds[w][1] else r
        if worlds[w][0] == worlds[w][1]:
          return "_Eq(same, same)"
        return "_Eq(max, min)" if a == hi else "_Eq(min, max)"
    raise AnalysisError(f"Eq: return value `{s}` not understood")

  want = {"eq": "TRUE", "gt": "_Eq(max, min)", "lt": "_Eq(max, min)"}
  label = {"eq": "left == right", "gt": "left > right", "lt": "left < right"}
  for w in ("eq", "gt", "lt"):
    k = eq_kind(table[w][1], w)
    ctx.check(k == want[w], f"Eq:{w}", BQ, table[w][0].lineno,
              f"for {label[w]} Eq returns `{src(table[w][1])}` ({k}); "
              f"expected {want[w]}",
              {"case": label[w], "returns": src(table[w][1]), "kind": k,
               "guards": [(src(t), p) for t, p in table[w][2]]})

  # --- _Eq.simplify ---
  fn = mod.func("_Eq.simplify")
  _no_shadow(fn, {"TRUE", "FALSE"})
  ps = S.params_of(fn)
  if len(ps) != 2:
    raise AnalysisError(f"_Eq.simplify has parameters {ps}")
  A = ps[1]
  sym = S.Sym(mod, fn)
  if sym.counts.get(A):
    raise AnalysisError("_Eq.simplify rebinds its table parameter")
  for s in fn.body:
    if not (isinstance(s, (ast.If, ast.Return)) or
            (isinstance(s, ast.Expr) and isinstance(s.value, ast.Constant)) or
            (isinstance(s, ast.Assign) and len(s.targets) == 1 and
             isinstance(s.targets[0], ast.Name))):
      raise AnalysisError(f"_Eq.simplify: statement `{src(s)[:60]}`")
  paths = S.return_paths(mod, fn, sym)
  is_var, possible = f"self.right in {A}", f"self.right in {A}[self.left]"
  not_var, impossible = f"self.right not in {A}", f"self.right not in {A}[self.left]"

  def simp_atom(w):
    def atom(t):
      s = src(t)
      if s == is_var:
        return w[0]
      if s == not_var:
        return not w[0]
      if s == possible:
        return w[1]
      if s == impossible:
        return not w[1]
      return None
    return atom

  # codomain first: it needs no understanding of the branch tests.  The paper
  # argument covers exactly two results - the term itself (trivially
  # equivalent) and FALSE (under the impossibility condition decided below).
  # Any other returned term is a different formula whose equivalence nothing
  # here argues for.
  def simp_kind(v):
    s = src(v)
    if s in ("self", "FALSE"):
      return s
    if isinstance(v, ast.Call) and src(v.func) in ("_Eq", "type(self)", "self.__class__") and \
        not v.keywords and [src(x) for x in v.args] == ["self.left", "self.right"]:
      return "self"          # a structurally equal copy
    return "other"

  leaves = [(r, v, simp_kind(v)) for r, v, _ in paths]
  foreign = [(r, v) for r, v, k in leaves if k == "other"]
  cod = {"returns": sorted({src(v) for _, v, _ in leaves})}
  ctx.check(not foreign, "_Eq.simplify:codomain", BQ,
            foreign[0][0].lineno if foreign else fn.lineno,
            "_Eq.simplify may only return the term itself or FALSE; it can "
            f"return `{src(foreign[0][1]) if foreign else ''}`, a different term "
            "whose equivalence under the table is not covered by the "
            "normalisation argument", cod)
  worlds2 = [(a, b) for a in (True, False) for b in (True, False)]
  table = S.decide(paths, worlds2, simp_atom)
  kinds = {w: simp_kind(table[w][1]) for w in worlds2}
  facts = {f"right-is-variable={a},right-possible-for-left={b}": src(table[(a, b)][1])
           for a, b in worlds2}
  wrong = [w for w in worlds2 if kinds[w] == "FALSE" and w != (False, False)]
  ctx.check(not wrong, "_Eq.simplify:false-only-if-impossible", BQ,
            table[wrong[0]][0].lineno if wrong else fn.lineno,
            "_Eq.simplify returns FALSE although "
            + "; ".join(f"right is{'' if a else ' not'} a variable and is"
                        f"{'' if b else ' not'} a possible value of left"
                        for a, b in wrong)
            + " - FALSE is justified only when right is not a variable and "
            "not among the possible values of left", facts)

  # --- _Eq.extract_pivots ---
  fn = mod.func("_Eq.extract_pivots")
  ps = S.params_of(fn)
  if len(ps) != 2:
    raise AnalysisError(f"_Eq.extract_pivots has parameters {ps}")
  A = ps[1]
  sym = S.Sym(mod, fn)
  paths = S.return_paths(mod, fn, sym)

  def piv_atom(w):
    def atom(t):
      s = src(t)
      if s == f"self.left in {A}":
        return w[0]
      if s == f"self.right in {A}":
        return w[1]
      if s == f"self.left not in {A}":
        return not w[0]
      if s == f"self.right not in {A}":
        return not w[1]
      return None
    return atom

  table = S.decide(paths, worlds2, piv_atom)

  def piv_kind(v):
    if not (isinstance(v, ast.Dict) and len(v.keys) == 2 and None not in v.keys):
      raise AnalysisError(f"_Eq.extract_pivots returns `{src(v)[:60]}`")
    d = {src(k): src(x) for k, x in zip(v.keys, v.values)}
    if set(d) != {"self.left", "self.right"}:
      return "other-keys", d
    inter = {f"frozenset({A}[self.left] & {A}[self.right])",
             f"frozenset({A}[self.right] & {A}[self.left])"}
    if d["self.left"] in inter and d["self.right"] in inter:
      return "intersection", d
    if d["self.left"] == "frozenset((self.right,))" and \
        d["self.right"] == "frozenset((self.left,))":
      return "each-other", d
    return "other", d

  k, d = piv_kind(table[(True, True)][1])
  ctx.check(k == "intersection", "_Eq.extract_pivots:variable-variable", BQ,
            table[(True, True)][0].lineno,
            "for two variables both sides must be limited to the "
            f"intersection of their possible values; got {d}", {"kind": k, "map": d})
  ks = {w: piv_kind(table[w][1]) for w in worlds2 if w != (True, True)}
  ok = all(v[0] == "each-other" for v in ks.values())
  w0 = (True, False)
  ctx.check(ok, "_Eq.extract_pivots:variable-value", BQ, table[w0][0].lineno,
            "otherwise each side must be limited to exactly the other side; "
            f"got {ks[w0][1]}", {"kind": ks[w0][0], "map": ks[w0][1]})


# ---------------------------------------------------------------------------
# R17.4

def _eq_projections(mod, clsname, fn):
  ps = S.params_of(fn)
  if len(ps) != 2:
    raise AnalysisError(f"{clsname}.__eq__ parameters {ps}")
  me, other = ps
  proj = []
  body = [s for s in fn.body
          if not (isinstance(s, ast.Expr) and isinstance(s.value, ast.Constant))]
  # leading guard clauses `if <other is of another class>: return False`
  while len(body) > 1 and isinstance(body[0], ast.If) and not body[0].orelse and \
      len(body[0].body) == 1 and isinstance(body[0].body[0], ast.Return):
    rv, t, neg = body[0].body[0].value, body[0].test, False
    if not ((isinstance(rv, ast.Constant) and rv.value is False) or
            (isinstance(rv, ast.Name) and rv.id == "NotImplemented")):
      raise AnalysisError(f"{clsname}.__eq__: guard clause returns `{src(rv)}`")
    while isinstance(t, ast.UnaryOp) and isinstance(t.op, ast.Not):
      t, neg = t.operand, not neg
    is_cls = False
    if isinstance(t, ast.Call) and dotted(t.func) == "isinstance" and \
        len(t.args) == 2 and src(t.args[0]) == other:
      is_cls = neg
    elif isinstance(t, ast.Compare) and len(t.ops) == 1 and \
        {src(t.left), src(t.comparators[0])} in (
            {f"type({me})", f"type({other})"}, {f"{me}.__class__", f"{other}.__class__"}):
      is_cls = isinstance(t.ops[0], (ast.NotEq, ast.IsNot)) != neg
    if not is_cls:
      raise AnalysisError(f"{clsname}.__eq__: guard `{src(body[0].test)}` not understood")
    proj.append("__class__")
    body = body[1:]
  rets = [n for n in walk_no_nested(fn) if isinstance(n, ast.Return)]
  if len(body) != 1 or not isinstance(body[0], ast.Return) or body[0].value is None:
    raise AnalysisError(f"{clsname}.__eq__: {len(rets)} returns")
  v = body[0].value
  conj = v.values if isinstance(v, ast.BoolOp) and isinstance(v.op, ast.And) else [v]
  for c in conj:
    s = src(c)
    if isinstance(c, ast.Compare) and len(c.ops) == 1 and \
        isinstance(c.ops[0], (ast.Eq, ast.Is)):
      a, b = c.left, c.comparators[0]
      if isinstance(a, ast.Attribute) and isinstance(b, ast.Attribute) and \
          a.attr == b.attr and {src(a.value), src(b.value)} == {me, other}:
        proj.append(a.attr)
        continue
      if {src(a), src(b)} == {f"type({me})", f"type({other})"}:
        proj.append("__class__")
        continue
    if isinstance(c, ast.Call) and dotted(c.func) == "isinstance" and \
        len(c.args) == 2 and src(c.args[0]) == other:
      proj.append("__class__")
      continue
    raise AnalysisError(f"{clsname}.__eq__: conjunct `{s}` not understood")
  return proj


def _order_free(e, p, qual):
  """Is the value of e independent of the iteration order of the set p?"""
  if isinstance(e, ast.Name):
    if e.id == p:
      return True          # the set itself
    raise AnalysisError(f"{qual}: name {e.id}")
  if isinstance(e, ast.Call) and not e.keywords:
    d = dotted(e.func)
    if d in ("frozenset", "set", "sum", "min", "max") and len(e.args) == 1:
      _derived(e.args[0], p, qual)
      return True
    if d == "sorted" and len(e.args) == 1:
      inner = _derived(e.args[0], p, qual)
      if inner != "hashes":
        raise AnalysisError(f"{qual}: sorts the terms themselves")
      return True
    if d in ("tuple", "list", "hash") and len(e.args) == 1:
      return _order_free(e.args[0], p, qual)
  if isinstance(e, (ast.GeneratorExp, ast.ListComp)):
    _derived(e, p, qual)
    return False
  if isinstance(e, ast.SetComp):
    _derived(e, p, qual)
    return True
  raise AnalysisError(f"{qual}: `{src(e)[:60]}` not understood")


def _derived(e, p, qual):
  """'hashes' / 'members': what a sequence derived from the set p contains."""
  if isinstance(e, ast.Name) and e.id == p:
    return "members"
  if isinstance(e, (ast.GeneratorExp, ast.ListComp, ast.SetComp)) and \
      len(e.generators) == 1 and not e.generators[0].ifs and \
      src(e.generators[0].iter) == p and \
      isinstance(e.generators[0].target, ast.Name):
    t = e.generators[0].target.id
    if src(e.elt) == f"hash({t})":
      return "hashes"
    if src(e.elt) == t:
      return "members"
  if isinstance(e, ast.Call) and dotted(e.func) == "map" and len(e.args) == 2 \
      and src(e.args[0]) == "hash" and src(e.args[1]) == p:
    return "hashes"
  if isinstance(e, ast.Call) and dotted(e.func) in ("tuple", "list", "sorted") \
      and len(e.args) == 1 and not e.keywords:
    return _derived(e.args[0], p, qual)
  raise AnalysisError(f"{qual}: `{src(e)[:60]}` is not derived from {p} in a known way")


@rule("R17.4", "C17", floor=7)
def r17_4(ctx):
  """eq/hash law for _Eq/_And/_Or; _expr_set_hash is order-insensitive."""
  mod = _vmod(ctx)
  uses_set_hash = []
  for clsname in ("_Eq", "_And", "_Or"):
    ms = mod.methods(clsname)
    if "__eq__" not in ms and "__hash__" not in ms:
      raise AnalysisError(f"{clsname} defines neither __eq__ nor __hash__")
    if "__eq__" not in ms:
      raise AnalysisError(f"{clsname} defines __hash__ without __eq__")
    proj = _eq_projections(mod, clsname, ms["__eq__"])
    if "__hash__" not in ms:
      ctx.bad(f"{clsname}:hash-of-compared", BQ, ms["__eq__"].lineno,
              f"{clsname} defines __eq__ but no __hash__: instances become "
              "unhashable and cannot be members of a term", {"compared": proj})
      continue
    hfn = ms["__hash__"]
    rets = [n for n in walk_no_nested(hfn) if isinstance(n, ast.Return)]
    if len(rets) != 1 or not isinstance(rets[0].value, ast.Call):
      raise AnalysisError(f"{clsname}.__hash__: shape")
    hv = rets[0].value
    hf = dotted(hv.func)
    if hf not in ("hash", "_expr_set_hash") or len(hv.args) != 1 or hv.keywords:
      raise AnalysisError(f"{clsname}.__hash__ returns `{src(hv)}`")
    me = S.params_of(hfn)[0]
    hashed = []
    for n in ast.walk(hv.args[0]):
      if isinstance(n, ast.Attribute) and src(n.value) == me:
        hashed.append(n.attr)
      elif isinstance(n, ast.Name) and n.id != me and n.id != "type":
        raise AnalysisError(f"{clsname}.__hash__ mentions `{n.id}`")
      elif isinstance(n, ast.Call) and src(n) != f"type({me})":
        raise AnalysisError(f"{clsname}.__hash__ calls `{src(n)}`")
    if not hashed and f"type({me})" not in src(hv):
      raise AnalysisError(f"{clsname}.__hash__ hashes no field")
    if hf == "_expr_set_hash":
      if src(hv.args[0]) != f"{me}.exprs":
        raise AnalysisError(f"{clsname}.__hash__: `{src(hv)}`")
      uses_set_hash.append(clsname)
    extra = sorted(set(hashed) - set(proj))
    facts = {"compared": proj, "hashed": sorted(set(hashed)), "via": hf}
    ctx.check(not extra, f"{clsname}:hash-of-compared", BQ, hfn.lineno,
              f"{clsname}.__hash__ hashes {extra}, which __eq__ does not "
              "compare: equal terms may hash differently", facts)
    ctx.check(proj and proj[0] == "__class__", f"{clsname}:class-test-first", BQ,
              ms["__eq__"].lineno,
              f"{clsname}.__eq__ must establish the class of the other operand "
              f"before reading its fields (order of tests: {proj}); otherwise "
              "comparing terms of different classes raises AttributeError",
              {"order": proj})
  if not uses_set_hash:
    raise AnalysisError("no class hashes through _expr_set_hash")
  fn = mod.func("_expr_set_hash")
  ps = S.params_of(fn)
  rets = [n for n in walk_no_nested(fn) if isinstance(n, ast.Return)]
  if len(ps) != 1 or len(rets) != 1:
    raise AnalysisError("_expr_set_hash: shape")
  sym = S.Sym(mod, fn)
  rv = sym.resolve(rets[0].value, rets[0])
  if not (isinstance(rv, ast.Call) and dotted(rv.func) == "hash"):
    raise AnalysisError(f"_expr_set_hash returns `{src(rv)}`")
  free = _order_free(rv, ps[0], "_expr_set_hash")
  ctx.check(free, "_expr_set_hash:order-insensitive", BQ, rets[0].lineno,
            f"`{src(rv)}` depends on the iteration order of the set, but the "
            "accompanying equality is set equality: the member hashes must be "
            "sorted (or combined order-insensitively)",
            {"expr": src(rv), "used_by": uses_set_hash})


# ---------------------------------------------------------------------------
# R17.5

_ANCHORED = (BQ, "pytype/pytd/type_match.py", "pytype/convert_structural.py")


@rule("R17.5", "C17", floor=5)
def r17_5(ctx):
  """TRUE/FALSE are singletons (absorption is tested by identity) and fixpoints."""
  mod = _vmod(ctx)
  for cname, const in (("TrueValue", "TRUE"), ("FalseValue", "FALSE")):
    ms = mod.methods(cname)
    if "__eq__" in ms or "__hash__" in ms:
      raise AnalysisError(f"{cname} defines its own equality")
    sites = [c for c in calls_in(mod.tree, name=cname)]
    binding = mod.assigns.get(const)
    ok = len(sites) == 1 and binding is sites[0]
    ctx.check(ok, f"{const}:singleton", BQ, sites[0].lineno if sites else 0,
              f"{cname} is instantiated {len(sites)} time(s) in booleq.py; "
              f"simplify_exprs recognises {const} by identity, so the one "
              f"instance must be the module constant {const}",
              {"constructions": len(sites),
               "bound_to": src(binding) if binding is not None else None})
    fn = ms.get("simplify")
    if fn is None:
      raise AnalysisError(f"{cname}.simplify not found")
    rets = [n for n in walk_no_nested(fn) if isinstance(n, ast.Return)]
    vals = [src(r.value) for r in rets if r.value is not None]
    me = S.params_of(fn)[0]
    ctx.check(vals == [me], f"{cname}.simplify:fixpoint", BQ, fn.lineno,
              f"{cname}.simplify returns {vals}; a constant simplifies to itself",
              {"returns": vals})
  # nobody else constructs the constant classes
  if ctx.tier == "thorough":
    files = all_py_files(ctx)
  else:
    files = [f for f in _ANCHORED if ctx.exists(f)]
  offenders = []
  scanned = 0
  for rel in files:
    if rel == BQ or rel.endswith("_test.py"):
      continue
    text = ctx.read(rel)
    scanned += 1
    if "TrueValue" not in text and "FalseValue" not in text:
      continue
    m = get_module(ctx, rel)
    for c in calls_in(m.tree):
      d = dotted(c.func) or ""
      if d.split(".")[-1] in ("TrueValue", "FalseValue"):
        offenders.append(f"{rel}:{c.lineno}")
  ctx.check(not offenders, "TRUE/FALSE:no-foreign-instances", BQ, 0,
            f"TrueValue/FalseValue are also constructed at {offenders}; such "
            "instances are not recognised by the identity tests",
            {"files_scanned": scanned, "offenders": offenders})


# ---------------------------------------------------------------------------
# R17.6

@rule("R17.6", "C17", floor=4)
def r17_6(ctx):
  """Term constructors store each argument in the field of the same name."""
  mod = _vmod(ctx)
  for clsname, fields in (("_Eq", ("left", "right")), ("_And", ("exprs",)),
                          ("_Or", ("exprs",))):
    fn = mod.func(f"{clsname}.__init__")
    ps = S.params_of(fn)
    if tuple(ps[1:]) != fields:
      raise AnalysisError(f"{clsname}.__init__ parameters {ps}")
    stores = {}
    for n in walk_no_nested(fn):
      if isinstance(n, ast.Assign):
        for t in n.targets:
          if isinstance(t, ast.Attribute) and src(t.value) == ps[0]:
            if t.attr in stores:
              raise AnalysisError(f"{clsname}.__init__ stores {t.attr} twice")
            stores[t.attr] = src(n.value)
    for f in fields:
      if f not in stores:
        raise AnalysisError(f"{clsname}.__init__ does not store {f}")
      ctx.check(stores[f] == f, f"{clsname}.__init__:{f}", BQ, fn.lineno,
                f"{clsname}.__init__ stores `{stores[f]}` in self.{f}; Eq "
                "orders its arguments and simplify/eq/hash read the fields by "
                "name, so each argument must land in its own field",
                {"field": f, "value": stores[f]})


# ---------------------------------------------------------------------------
# R17.7

_SET_FRESH_CALLS = {"set", "frozenset", "copy.copy", "copy.deepcopy"}
_SET_FRESH_METHODS = {"union", "copy", "intersection", "difference",
                      "symmetric_difference"}
_SET_MUTATORS = {"add", "update", "pop", "remove", "discard", "clear",
                 "difference_update", "intersection_update",
                 "symmetric_difference_update"}
_SET_READERS = {"union", "copy", "intersection", "difference",
                "symmetric_difference", "issubset", "issuperset", "isdisjoint",
                "__contains__", "__len__"}


def _value_leaves(v):
  """The expressions whose object `v` can evaluate to (IfExp / and / or / :=)."""
  if isinstance(v, ast.IfExp):
    return _value_leaves(v.body) + _value_leaves(v.orelse)
  if isinstance(v, ast.BoolOp):
    out = []
    for x in v.values:
      out.extend(_value_leaves(x))
    return out
  if isinstance(v, ast.NamedExpr):
    return _value_leaves(v.value)
  return [v]


def _set_origin(leaf, acc, sym, depth=0):
  """'fresh' | 'self' | ('alias', text) for one value flowing into the set acc."""
  if isinstance(leaf, (ast.Set, ast.SetComp)):
    return "fresh"
  if isinstance(leaf, ast.BinOp) and isinstance(
      leaf.op, (ast.BitOr, ast.BitAnd, ast.Sub, ast.BitXor)):
    return "fresh"           # set operators always build a new set
  if isinstance(leaf, ast.Call):
    d = dotted(leaf.func)
    if d in _SET_FRESH_CALLS:
      return "fresh"
    if isinstance(leaf.func, ast.Attribute) and leaf.func.attr in _SET_FRESH_METHODS:
      return "fresh"
    raise AnalysisError(
        f"simplify_exprs: cannot tell whether `{src(leaf)[:60]}` is a new set")
  if isinstance(leaf, ast.Name):
    if leaf.id == acc:
      return "self"
    if leaf.id in sym.defs and leaf.id not in sym.params and depth < 4 and \
        len(sym.defs[leaf.id]) == sym.counts.get(leaf.id):
      kinds = []
      for dv in sym.defs[leaf.id]:
        for l2 in _value_leaves(dv):
          kinds.append(_set_origin(l2, acc, sym, depth + 1))
      al = [k for k in kinds if isinstance(k, tuple)]
      if al:
        return ("alias", f"{leaf.id} = {al[0][1]}")
      if kinds and all(k == "fresh" for k in kinds):
        return "fresh"
      raise AnalysisError(f"simplify_exprs: origin of `{leaf.id}` not understood")
    return ("alias", leaf.id)
  if isinstance(leaf, (ast.Attribute, ast.Subscript)):
    return ("alias", src(leaf))
  raise AnalysisError(
      f"simplify_exprs: cannot tell whether `{src(leaf)[:60]}` is a new set")


@rule("R17.7", "C17", floor=2)
def r17_7(ctx):
  """The accumulator of simplify_exprs never aliases a set owned by a term."""
  from sa import flow
  mod = U.virtual(ctx, BQ, inline=("simplify_exprs",))
  fn = mod.func("simplify_exprs")
  exprs = _roles(fn)[0]
  sym = S.Sym(mod, fn)
  loop = S.single_loop(fn, exprs)
  acc, _, _, _ = U.combinator_shape(fn, loop, sym)
  # every binding of the accumulator and what it can be bound to
  defs = {}
  for n in walk_no_nested(fn):
    tgt = None
    if isinstance(n, ast.Assign):
      names = [x for t in n.targets for x in S._target_names(t)]
      if acc in names:
        if not (len(n.targets) == 1 and isinstance(n.targets[0], ast.Name)):
          raise AnalysisError(f"simplify_exprs: `{src(n)[:60]}` binds the accumulator")
        tgt = n.value
    elif isinstance(n, ast.AnnAssign) and acc in S._target_names(n.target):
      if n.value is None:
        continue
      tgt = n.value
    elif isinstance(n, (ast.NamedExpr, ast.For, ast.With, ast.ExceptHandler,
                        ast.comprehension)):
      t = getattr(n, "target", None)
      bound = S._target_names(t) if t is not None else []
      if isinstance(n, ast.With):
        bound = [x for it in n.items if it.optional_vars is not None
                 for x in S._target_names(it.optional_vars)]
      if isinstance(n, ast.ExceptHandler):
        bound = [n.name] if n.name else []
      if acc in bound:
        raise AnalysisError(
            f"simplify_exprs: the accumulator is bound by a {type(n).__name__}")
    if tgt is not None:
      kinds = [_set_origin(l, acc, sym) for l in _value_leaves(tgt)]
      defs[n] = [k for k in kinds if isinstance(k, tuple)]
  if not defs:
    raise AnalysisError("simplify_exprs: accumulator binding not found")

  def gen(unit):
    return [u for u in defs if u is unit]

  def kill(unit):
    if unit in defs:
      return lambda f: f is not unit
    return None

  f = flow.flow(fn, gen, kill, mode="may")
  # in-place mutations of the accumulator
  sites = []
  for n in walk_no_nested(fn):
    if isinstance(n, ast.Call) and isinstance(n.func, ast.Attribute) and \
        isinstance(n.func.value, ast.Name) and n.func.value.id == acc:
      if n.func.attr in _SET_MUTATORS:
        sites.append((n.func.attr, n))
      elif n.func.attr not in _SET_READERS:
        raise AnalysisError(f"simplify_exprs: `{src(n)[:60]}` on the accumulator")
    elif isinstance(n, ast.AugAssign) and isinstance(n.target, ast.Name) and \
        n.target.id == acc:
      sites.append((type(n.op).__name__ + "=", n))
    elif isinstance(n, ast.Delete):
      raise AnalysisError("simplify_exprs: del statement")
  aliasing = {d: a for d, a in defs.items() if a}
  if not sites:
    ctx.ok("simplify_exprs:accumulator-never-mutated", BQ, fn.lineno,
           {"accumulator": acc, "bindings": len(defs)})
    return
  for how, site in sorted(sites, key=lambda x: (x[1].lineno, x[1].col_offset)):
    st = mod.enclosing_stmt(site)
    # the state in front of the statement (for a compound statement: its header)
    state = f.before.get(st)
    if state is None:
      continue               # unreachable
    reach = [d for d in state if d in aliasing]
    # a binding in the same statement cannot precede the call it contains
    facts = {"accumulator": acc, "mutation": src(site)[:60],
             "reaching_bindings": sorted(src(d)[:70] for d in state)}
    ctx.check(not reach, f"simplify_exprs:unaliased@{how}", BQ, site.lineno,
              f"`{src(site)[:50]}` mutates the accumulator in place, and the "
              f"binding `{src(reach[0])[:80] if reach else ''}` can make it the "
              f"very set `{aliasing[reach[0]][0][1] if reach else ''}` owned by "
              "an existing term: that term silently changes meaning (terms "
              "are shared and hashed); every value bound to the accumulator "
              "must be a new set", facts)


# ---------------------------------------------------------------------------
# sensitivity suite

_LOOP = (
    "  expr_set = set()\n"
    "  for e in exprs:\n"
    "    if e is stop_term:\n"
    "      return stop_term\n"
    "    elif e is skip_term:\n"
    "      continue\n"
    "    elif isinstance(e, result_type):\n"
    "      expr_set = expr_set.union(e.exprs)\n"
    "    else:\n"
    "      expr_set.add(e)\n")
_FINAL = (
    "  if len(expr_set) > 1:\n"
    "    return result_type(expr_set)\n"
    "  elif expr_set:\n"
    "    return expr_set.pop()\n"
    "  else:\n"
    "    return skip_term\n")
_AND_PIV = "          pivots[name] = pivots[name] & values\n"
_OR_PIV = "          pivots[name] = pivots[name] | values\n"

_EQ_TAIL = ("  elif left > right:\n    return _Eq(left, right)\n  else:\n"
            "    return _Eq(right, left)  # pylint: disable=arguments-out-of-order")
_AND_HEAD = ("  External code should use And rather than creating an _And instance directly.\n"
             "  \"\"\"\n\n  __slots__ = (\"exprs\",)\n")
_AND_SIMPLIFY = ("    return simplify_exprs(\n"
                 "        (e.simplify(assignments) for e in self.exprs), _And, FALSE, TRUE\n"
                 "    )\n")
_AND_EQ = ("  def __eq__(self, other):\n"
           "    return self.__class__ == other.__class__ and self.exprs == other.exprs\n\n"
           "  def __repr__(self):\n    return f\"And(")
_AND_HASH = ("    return \"(\" + \" & \".join(str(t) for t in self.exprs) + \")\"\n\n"
             "  def __hash__(self):\n    return _expr_set_hash(self.exprs)\n")


def _and_build(stop, skip, members="e.simplify(assignments) for e in self.exprs"):
  """_And rewritten to build itself through a classmethod over class constants."""
  return [
      (BQ, _AND_HEAD, _AND_HEAD +
       f"\n  _STOP_TERM = {stop}\n  _SKIP_TERM = {skip}\n\n"
       "  @classmethod\n  def _build(cls, exprs):\n"
       "    return simplify_exprs(exprs, cls, cls._STOP_TERM, cls._SKIP_TERM)\n"),
      (BQ, _AND_SIMPLIFY, f"    return self._build({members})\n"),
      (BQ, "  return simplify_exprs(exprs, _And, FALSE, TRUE)",
       "  return _And._build(exprs)"),
  ]


def _and_base(eq_body, hash_body="    return _expr_set_hash(self.exprs)\n"):
  """_And inheriting __init__/__eq__/__hash__ from a base class of the file."""
  return [
      (BQ, "class _And(BooleanTerm):",
       "class _Junction(BooleanTerm):\n"
       "  __slots__ = (\"exprs\",)\n\n"
       "  def __init__(self, exprs):\n    self.exprs = exprs\n\n"
       "  def __eq__(self, other):\n" + eq_body + "\n"
       "  def __hash__(self):\n" + hash_body + "\n\n"
       "class _And(_Junction):"),
      (BQ, _AND_EQ, "  def __repr__(self):\n    return f\"And("),
      (BQ, _AND_HASH,
       "    return \"(\" + \" & \".join(str(t) for t in self.exprs) + \")\"\n"),
      (BQ, "  def __init__(self, exprs):\n    \"\"\"Initialize a conjunction.\n\n"
           "    Args:\n      exprs: A set. The subterms.\n    \"\"\"\n"
           "    self.exprs = exprs\n\n", ""),
  ]


VARIANTS = [
    # R17.1
    {"name": "absorb-returns-identity", "rule": "R17.1", "file": BQ, "expect": "fire",
     "old": "    if e is stop_term:\n      return stop_term\n",
     "new": "    if e is stop_term:\n      return skip_term\n"},
    {"name": "stop-and-skip-tests-swapped", "rule": "R17.1", "file": BQ, "expect": "fire",
     "old": "    if e is stop_term:\n      return stop_term\n    elif e is skip_term:\n      continue\n",
     "new": "    if e is skip_term:\n      return stop_term\n    elif e is stop_term:\n      continue\n"},
    {"name": "absorbing-kept-as-member", "rule": "R17.1", "file": BQ, "expect": "fire",
     "old": "    if e is stop_term:\n      return stop_term\n    elif e is skip_term:\n",
     "new": "    if e is skip_term:\n"},
    {"name": "identity-not-dropped", "rule": "R17.1", "file": BQ, "expect": "fire",
     "old": "    elif e is skip_term:\n      continue\n    elif isinstance",
     "new": "    elif isinstance"},
    {"name": "nested-not-flattened", "rule": "R17.1", "file": BQ, "expect": "fire",
     "old": "    elif isinstance(e, result_type):\n      expr_set = expr_set.union(e.exprs)\n    else:\n",
     "new": "    else:\n"},
    {"name": "accumulator-is-list", "rule": "R17.1", "file": BQ, "expect": "fire",
     "old": "  expr_set = set()\n  for e in exprs:", "new": "  expr_set = []\n  for e in exprs:"},
    {"name": "single-member-wrapped", "rule": "R17.1", "file": BQ, "expect": "fire",
     "old": "  if len(expr_set) > 1:\n    return result_type(expr_set)\n",
     "new": "  if len(expr_set) >= 1:\n    return result_type(expr_set)\n"},
    {"name": "empty-returns-absorbing", "rule": "R17.1", "file": BQ, "expect": "fire",
     "old": "  else:\n    return skip_term\n", "new": "  else:\n    return stop_term\n"},
    {"name": "pair-collapses-to-member", "rule": "R17.1", "file": BQ, "expect": "fire",
     "old": "  if len(expr_set) > 1:\n    return result_type(expr_set)\n",
     "new": "  if len(expr_set) > 2:\n    return result_type(expr_set)\n"},
    {"name": "twin-rename-locals", "rule": "R17.1", "file": BQ, "expect": "silent",
     "edits": [(BQ, _LOOP + _FINAL,
                (_LOOP + _FINAL).replace("expr_set", "members").replace(" e ", " term ")
                .replace("(e,", "(term,").replace("e.exprs", "term.exprs")
                .replace("add(e)", "add(term)"))]},
    {"name": "twin-reorder-arms", "rule": "R17.1", "file": BQ, "expect": "silent",
     "old": _LOOP,
     "new": ("  expr_set = set()\n"
             "  for e in exprs:\n"
             "    if e is skip_term:\n"
             "      continue\n"
             "    if isinstance(e, result_type):\n"
             "      expr_set |= e.exprs\n"
             "      continue\n"
             "    if e is stop_term:\n"
             "      return e\n"
             "    expr_set.add(e)\n")},
    {"name": "twin-final-arms-reordered", "rule": "R17.1", "file": BQ, "expect": "silent",
     "old": _FINAL,
     "new": ("  if not expr_set:\n"
             "    return skip_term\n"
             "  if len(expr_set) == 1:\n"
             "    return expr_set.pop()\n"
             "  return result_type(expr_set)\n")},
    {"name": "twin-benign-C17-r1-guard-clauses", "rule": "R17.1",
     "patch": "benign/C17-r1/patch.diff", "expect": "silent"},
    {"name": "twin-hoisted-temporaries-guard-clauses", "rule": "R17.1", "file": BQ,
     "expect": "silent", "old": _LOOP + _FINAL,
     "new": ("  absorbing, neutral = stop_term, skip_term\n"
             "  members = set()\n"
             "  for e in exprs:\n"
             "    if e is absorbing:\n"
             "      return absorbing\n"
             "    if e is neutral:\n"
             "      continue\n"
             "    if isinstance(e, result_type):\n"
             "      members = members.union(e.exprs)\n"
             "      continue\n"
             "    members.add(e)\n"
             "  if len(members) > 1:\n"
             "    return result_type(members)\n"
             "  if members:\n"
             "    return members.pop()\n"
             "  return neutral\n")},
    {"name": "hoisted-temporaries-swapped", "rule": "R17.1", "file": BQ,
     "expect": "fire", "old": _LOOP + _FINAL,
     "new": ("  absorbing, neutral = skip_term, stop_term\n"
             "  members = set()\n"
             "  for e in exprs:\n"
             "    if e is absorbing:\n"
             "      return absorbing\n"
             "    if e is neutral:\n"
             "      continue\n"
             "    if isinstance(e, result_type):\n"
             "      members = members.union(e.exprs)\n"
             "      continue\n"
             "    members.add(e)\n"
             "  if len(members) > 1:\n"
             "    return result_type(members)\n"
             "  if members:\n"
             "    (only,) = members\n"
             "    return only\n"
             "  return neutral\n")},
    {"name": "unpacking-taken-for-a-pair", "rule": "R17.1", "file": BQ,
     "expect": "fire", "old": _FINAL,
     "new": ("  if len(expr_set) > 2:\n"
             "    return result_type(expr_set)\n"
             "  if expr_set:\n"
             "    (only,) = expr_set\n"
             "    return only\n"
             "  return skip_term\n")},
    {"name": "unknown-idiom-any-comprehension", "rule": "R17.1", "file": BQ, "expect": "error",
     "old": _LOOP,
     "new": ("  exprs = list(exprs)\n"
             "  if any(e is stop_term for e in exprs):\n"
             "    return stop_term\n"
             "  expr_set = set()\n"
             "  for e in exprs:\n"
             "    if e is skip_term:\n"
             "      continue\n"
             "    elif isinstance(e, result_type):\n"
             "      expr_set = expr_set.union(e.exprs)\n"
             "    else:\n"
             "      expr_set.add(e)\n")},
    # R17.2
    {"name": "Or-wired-with-And-tuple", "rule": "R17.2", "file": BQ, "expect": "fire",
     "old": "  return simplify_exprs(exprs, _Or, TRUE, FALSE)",
     "new": "  return simplify_exprs(exprs, _Or, FALSE, TRUE)"},
    {"name": "And-builds-Or", "rule": "R17.2", "file": BQ, "expect": "fire",
     "old": "  return simplify_exprs(exprs, _And, FALSE, TRUE)",
     "new": "  return simplify_exprs(exprs, _Or, FALSE, TRUE)"},
    {"name": "_And.simplify-swapped-constants", "rule": "R17.2", "file": BQ, "expect": "fire",
     "old": "(e.simplify(assignments) for e in self.exprs), _And, FALSE, TRUE",
     "new": "(e.simplify(assignments) for e in self.exprs), _And, TRUE, FALSE"},
    {"name": "_Or.simplify-members-not-simplified", "rule": "R17.2", "file": BQ, "expect": "fire",
     "old": "(e.simplify(assignments) for e in self.exprs), _Or, TRUE, FALSE",
     "new": "(e for e in self.exprs), _Or, TRUE, FALSE"},
    {"name": "_Or.simplify-drops-members", "rule": "R17.2", "file": BQ, "expect": "fire",
     "old": "(e.simplify(assignments) for e in self.exprs), _Or, TRUE, FALSE",
     "new": "(e.simplify(assignments) for e in self.exprs if isinstance(e, _Eq)), _Or, TRUE, FALSE"},
    {"name": "Or-pivots-intersect", "rule": "R17.2", "file": BQ, "expect": "fire",
     "old": _OR_PIV, "new": _OR_PIV.replace("|", "&")},
    {"name": "And-pivots-unite", "rule": "R17.2", "file": BQ, "expect": "fire",
     "old": _AND_PIV, "new": _AND_PIV.replace("&", "|")},
    {"name": "And-pivots-overwrite", "rule": "R17.2", "file": BQ, "expect": "fire",
     "old": _AND_PIV, "new": "          pivots[name] = values\n"},
    {"name": "And-pivots-keep-only-empty", "rule": "R17.2", "file": BQ, "expect": "fire",
     "old": "for var, values in pivots.items() if values}",
     "new": "for var, values in pivots.items() if not values}"},
    {"name": "twin-keyword-call", "rule": "R17.2", "file": BQ, "expect": "silent",
     "old": "  return simplify_exprs(exprs, _Or, TRUE, FALSE)",
     "new": "  return simplify_exprs(exprs, skip_term=FALSE, stop_term=TRUE, result_type=_Or)"},
    {"name": "twin-pivots-augassign", "rule": "R17.2", "file": BQ, "expect": "silent",
     "old": _OR_PIV, "new": "          pivots[name] |= values\n"},
    {"name": "twin-pivots-commuted", "rule": "R17.2", "file": BQ, "expect": "silent",
     "old": _AND_PIV, "new": "          pivots[name] = values & pivots[name]\n"},
    {"name": "twin-benign-C17-r2-junction-base", "rule": "R17.2",
     "patch": "benign/C17-r2/patch.diff", "expect": "silent"},
    {"name": "twin-And-built-through-classmethod", "rule": "R17.2", "expect": "silent",
     "edits": _and_build("FALSE", "TRUE")},
    {"name": "classmethod-builder-constants-swapped", "rule": "R17.2", "expect": "fire",
     "edits": _and_build("TRUE", "FALSE")},
    {"name": "classmethod-builder-members-not-simplified", "rule": "R17.2", "expect": "fire",
     "edits": _and_build("FALSE", "TRUE", members="e for e in self.exprs")},
    {"name": "classmethod-builder-behind-a-decorator", "rule": "R17.2", "expect": "error",
     "edits": [(f, o, n.replace("  @classmethod\n  def _build",
                                "  @classmethod\n  @functools.cache\n  def _build"))
               for f, o, n in _and_build("FALSE", "TRUE")]},
    {"name": "classmethod-builder-of-the-other-class", "rule": "R17.2", "expect": "fire",
     "edits": _and_build("FALSE", "TRUE")[:2] + [
         (BQ, "  return simplify_exprs(exprs, _And, FALSE, TRUE)",
          "  return _And._build(exprs)"),
         (BQ, "  return simplify_exprs(exprs, _Or, TRUE, FALSE)",
          "  return _And._build(exprs)")]},
    # R17.3
    {"name": "twin-benign-C17-r1-swap-then-construct", "rule": "R17.3",
     "patch": "benign/C17-r1/patch.diff", "expect": "silent"},
    {"name": "twin-Eq-conditional-swap", "rule": "R17.3", "file": BQ, "expect": "silent",
     "old": _EQ_TAIL,
     "new": "  if not left > right:\n    left, right = right, left\n  return _Eq(left, right)"},
    {"name": "twin-Eq-swap-through-temporaries", "rule": "R17.3", "file": BQ, "expect": "silent",
     "old": _EQ_TAIL,
     "new": "  hi, lo = left, right\n  if hi < lo:\n    hi, lo = lo, hi\n  return _Eq(hi, lo)"},
    {"name": "Eq-conditional-swap-inverted", "rule": "R17.3", "file": BQ, "expect": "fire",
     "old": _EQ_TAIL,
     "new": "  if left > right:\n    left, right = right, left\n  return _Eq(left, right)"},
    {"name": "Eq-swap-only-one-side", "rule": "R17.3", "file": BQ, "expect": "fire",
     "old": _EQ_TAIL,
     "new": "  if not left > right:\n    left = right\n  return _Eq(left, right)"},
    {"name": "Eq-TRUE-on-ge", "rule": "R17.3", "file": BQ, "expect": "fire",
     "old": "  if left == right:\n    return TRUE", "new": "  if left >= right:\n    return TRUE"},
    {"name": "Eq-unordered", "rule": "R17.3", "file": BQ, "expect": "fire",
     "old": "  elif left > right:\n    return _Eq(left, right)",
     "new": "  elif left < right:\n    return _Eq(left, right)"},
    {"name": "Eq-equal-is-FALSE", "rule": "R17.3", "file": BQ, "expect": "fire",
     "old": "  if left == right:\n    return TRUE", "new": "  if left == right:\n    return FALSE"},
    {"name": "_Eq.simplify-FALSE-on-membership", "rule": "R17.3", "file": BQ, "expect": "fire",
     "old": "      return self if self.right in assignments[self.left] else FALSE",
     "new": "      return FALSE if self.right in assignments[self.left] else self"},
    {"name": "_Eq.simplify-variable-equalities-FALSE", "rule": "R17.3", "file": BQ, "expect": "fire",
     "old": "    if self.right in assignments:\n      return self\n",
     "new": "    if self.right not in assignments:\n      return self\n"},
    {"name": "_Eq.simplify-returns-TRUE", "rule": "R17.3", "file": BQ, "expect": "fire",
     "old": "      return self if self.right in assignments[self.left] else FALSE",
     "new": "      return TRUE if self.right in assignments[self.left] else FALSE"},
    {"name": "_Eq.pivots-union", "rule": "R17.3", "file": BQ, "expect": "fire",
     "old": "intersection = assignments[self.left] & assignments[self.right]",
     "new": "intersection = assignments[self.left] | assignments[self.right]"},
    {"name": "_Eq.pivots-self-reference", "rule": "R17.3", "file": BQ, "expect": "fire",
     "old": "          self.left: frozenset((self.right,)),\n",
     "new": "          self.left: frozenset((self.left,)),\n"},
    {"name": "twin-_Eq.simplify-early-return", "rule": "R17.3", "file": BQ, "expect": "silent",
     "old": ("    if self.right in assignments:\n      return self\n    else:\n"
             "      return self if self.right in assignments[self.left] else FALSE"),
     "new": ("    known = assignments\n"
             "    if self.right in known or self.right in known[self.left]:\n"
             "      return self\n    return FALSE")},
    {"name": "twin-Eq-max-min", "rule": "R17.3", "file": BQ, "expect": "silent",
     "old": ("  elif left > right:\n    return _Eq(left, right)\n  else:\n"
             "    return _Eq(right, left)  # pylint: disable=arguments-out-of-order"),
     "new": "  return _Eq(max(left, right), min(left, right))"},
    # R17.4
    {"name": "set-hash-unsorted", "rule": "R17.4", "file": BQ, "expect": "fire",
     "old": "  return hash(tuple(sorted(hash(e) for e in expr_set)))",
     "new": "  return hash(tuple(hash(e) for e in expr_set))"},
    {"name": "_Eq-eq-ignores-right", "rule": "R17.4", "file": BQ, "expect": "fire",
     "old": "        and self.left == other.left\n        and self.right == other.right\n",
     "new": "        and self.left == other.left\n"},
    {"name": "_And-eq-class-test-last", "rule": "R17.4", "file": BQ, "expect": "fire",
     "old": "  def __eq__(self, other):\n    return self.__class__ == other.__class__ and self.exprs == other.exprs",
     "new": "  def __eq__(self, other):\n    return self.exprs == other.exprs and self.__class__ == other.__class__"},
    {"name": "_Or-hash-removed", "rule": "R17.4", "file": BQ, "expect": "fire",
     "old": ("    return \"(\" + \" | \".join(str(t) for t in self.exprs) + \")\"\n\n"
             "  def __hash__(self):\n    return _expr_set_hash(self.exprs)\n"),
     "new": "    return \"(\" + \" | \".join(str(t) for t in self.exprs) + \")\"\n"},
    {"name": "twin-coarser-hash", "rule": "R17.4", "file": BQ, "expect": "silent",
     "old": "    return hash((self.left, self.right))", "new": "    return hash(self.left)"},
    {"name": "twin-hash-tuple-reordered", "rule": "R17.4", "file": BQ, "expect": "silent",
     "old": "    return hash((self.left, self.right))",
     "new": "    return hash((self.right, self.left))"},
    {"name": "twin-frozenset-hash", "rule": "R17.4", "file": BQ, "expect": "silent",
     "old": "  return hash(tuple(sorted(hash(e) for e in expr_set)))",
     "new": "  return hash(frozenset(expr_set))"},
    {"name": "twin-benign-C17-r2-eq-hash-inherited", "rule": "R17.4",
     "patch": "benign/C17-r2/patch.diff", "expect": "silent"},
    {"name": "twin-_And-inherits-eq-hash-from-local-base", "rule": "R17.4", "expect": "silent",
     "edits": _and_base(
         "    return self.__class__ == other.__class__ and self.exprs == other.exprs\n")},
    {"name": "local-base-eq-tests-class-last", "rule": "R17.4", "expect": "fire",
     "edits": _and_base(
         "    return self.exprs == other.exprs and self.__class__ == other.__class__\n")},
    {"name": "local-base-hashes-uncompared-field", "rule": "R17.4", "expect": "fire",
     "edits": _and_base(
         "    return self.__class__ == other.__class__ and self.exprs == other.exprs\n",
         "    return hash((self.exprs, self.origin))\n")},
    {"name": "local-base-init-stores-elsewhere", "rule": "R17.6", "expect": "fire",
     "edits": [(f, o, n.replace("    self.exprs = exprs\n", "    self.exprs = frozenset()\n"))
               for f, o, n in _and_base(
                   "    return self.__class__ == other.__class__ and self.exprs == other.exprs\n")]},
    {"name": "twin-_And-eq-guard-clause", "rule": "R17.4", "file": BQ, "expect": "silent",
     "old": _AND_EQ,
     "new": ("  def __eq__(self, other):\n"
             "    if self.__class__ is not other.__class__:\n      return False\n"
             "    return self.exprs == other.exprs\n\n"
             "  def __repr__(self):\n    return f\"And(")},
    {"name": "_And-eq-guard-clause-after-field-read", "rule": "R17.4", "file": BQ,
     "expect": "fire", "old": _AND_EQ,
     "new": ("  def __eq__(self, other):\n"
             "    return self.exprs == other.exprs and type(self) == type(other)\n\n"
             "  def __repr__(self):\n    return f\"And(")},
    # R17.5
    {"name": "second-TRUE-instance", "rule": "R17.5", "file": BQ, "expect": "fire",
     "old": "    self.ground_truth = TRUE\n    self.assignments = None",
     "new": "    self.ground_truth = TrueValue()\n    self.assignments = None"},
    {"name": "FALSE-simplifies-to-TRUE", "rule": "R17.5", "file": BQ, "expect": "fire",
     "old": ("  \"\"\"Class for representing \"FALSE\".\"\"\"\n\n"
             "  def simplify(self, assignments):\n    return self"),
     "new": ("  \"\"\"Class for representing \"FALSE\".\"\"\"\n\n"
             "  def simplify(self, assignments):\n    return TRUE")},
    {"name": "foreign-TrueValue", "rule": "R17.5", "file": "pytype/pytd/type_match.py",
     "expect": "fire",
     "old": "    elif isinstance(t1, pytd.NothingType):\n      # nothing as an actual type matches against everything, since it\n      # represents an empty value.\n      return booleq.TRUE",
     "new": "    elif isinstance(t1, pytd.NothingType):\n      # nothing as an actual type matches against everything, since it\n      # represents an empty value.\n      return booleq.TrueValue()"},
    # R17.3 codomain (decided before the branch tests are interpreted)
    {"name": "seeded-C17-m2", "rule": "R17.3", "patch": "seeded/C17-m2/patch.diff",
     "expect": "fire"},
    {"name": "_Eq.simplify-rewrites-to-value-equality", "rule": "R17.3", "file": BQ,
     "expect": "fire",
     "old": "    if self.right in assignments:\n      return self\n",
     "new": ("    if self.right in assignments:\n"
             "      common = assignments[self.left] & assignments[self.right]\n"
             "      return Or(Eq(self.left, v) for v in common)\n")},
    {"name": "_Eq.simplify-returns-swapped-copy", "rule": "R17.3", "file": BQ,
     "expect": "fire",
     "old": "      return self if self.right in assignments[self.left] else FALSE",
     "new": ("      return (_Eq(self.right, self.left)\n"
             "              if self.right in assignments[self.left] else FALSE)")},
    {"name": "twin-_Eq.simplify-single-conditional", "rule": "R17.3", "file": BQ,
     "expect": "silent",
     "old": ("    if self.right in assignments:\n      return self\n    else:\n"
             "      return self if self.right in assignments[self.left] else FALSE"),
     "new": ("    return (self if self.right in assignments\n"
             "            or self.right in assignments[self.left] else FALSE)")},
    {"name": "twin-_Eq.simplify-returns-equal-copy", "rule": "R17.3", "file": BQ,
     "expect": "silent",
     "old": "    if self.right in assignments:\n      return self\n",
     "new": ("    if self.right in assignments:\n"
             "      return _Eq(self.left, self.right)\n")},
    # R17.7
    {"name": "seeded-C17-m1", "rule": "R17.7", "patch": "seeded/C17-m1/patch.diff",
     "expect": "fire"},
    {"name": "first-nested-set-adopted", "rule": "R17.7", "file": BQ, "expect": "fire",
     "old": "      expr_set = expr_set.union(e.exprs)\n",
     "new": ("      if expr_set:\n"
             "        expr_set |= e.exprs\n"
             "      else:\n"
             "        expr_set = e.exprs\n")},
    {"name": "nested-set-adopted-through-local", "rule": "R17.7", "file": BQ,
     "expect": "fire",
     "old": "      expr_set = expr_set.union(e.exprs)\n",
     "new": ("      nested = e.exprs\n"
             "      expr_set = expr_set or nested\n"
             "      expr_set.update(nested)\n")},
    {"name": "input-collection-reused-as-accumulator", "rule": "R17.7", "file": BQ,
     "expect": "fire",
     "old": "  expr_set = set()\n  for e in exprs:",
     "new": "  expr_set = exprs if isinstance(exprs, set) else set()\n  for e in exprs:"},
    {"name": "twin-splice-by-operator", "rule": "R17.7", "file": BQ, "expect": "silent",
     "old": "      expr_set = expr_set.union(e.exprs)\n",
     "new": "      expr_set = e.exprs | expr_set\n"},
    {"name": "twin-splice-in-place", "rule": "R17.7", "file": BQ, "expect": "silent",
     "old": "      expr_set = expr_set.union(e.exprs)\n",
     "new": "      expr_set.update(e.exprs)\n"},
    {"name": "twin-splice-augmented", "rule": "R17.7", "file": BQ, "expect": "silent",
     "old": "      expr_set = expr_set.union(e.exprs)\n",
     "new": "      expr_set |= e.exprs\n"},
    # R17.6
    {"name": "_Eq-init-swaps-fields", "rule": "R17.6", "file": BQ, "expect": "fire",
     "old": "    self.left = left\n    self.right = right",
     "new": "    self.left = right\n    self.right = left"},
    {"name": "twin-_Eq-init-reordered", "rule": "R17.6", "file": BQ, "expect": "silent",
     "old": "    self.left = left\n    self.right = right",
     "new": "    self.right = right\n    self.left = left"},
]
