"""C13 extensions of round 5.

R13.50  Stub signatures (pytype/pyi/function.py): the function that builds a
        pytd.Signature from an `ast.arguments` pairs parameters with defaults.
        CPython's layout of that record is fixed:
          * `defaults` belongs to the LAST len(defaults) entries of
            `posonlyargs + args` (right-aligned);
          * `kw_defaults` has exactly one entry per entry of `kwonlyargs`, at
            the SAME index; an entry `None` is a placeholder meaning "this
            keyword-only parameter has no default" (`def f(*, a=1, b)` is
            legal, so the entries with a default need not be trailing).
        Decided by a small provenance evaluation (which record field(s) a
        sequence was built from, element by element; whether it was reversed;
        whether its length was changed by a filter/slice), followed through
        locals and module-local helpers to every `zip` that pairs a parameter
        sequence with a defaults sequence:
          - the keyword-only parameters are paired with `kw_defaults` and with
            nothing else, both walked in the same direction, neither one
            shortened before the pairing;
          - in that pairing loop a default is stored on the parameter
            (`<p>.default = ...`) only on paths whose condition excludes the
            `None` placeholder, and every path that stores nothing is a path
            for the placeholder;
          - `posonlyargs + args` (in this order) is paired with `defaults`,
            both reversed.

R13.51  Constructor calls (pytype/abstract/class_mixin.py, class Class):
        `type.__call__` binds the call's arguments to `__new__` and then binds
        the SAME arguments to `__init__` if and only if what `__new__`
        returned is an instance of the class being constructed.  Every
        `self.call_init(node, V, A)` in Class
          - passes as A the method's own `args` parameter, and
          - when V is a binding of a foreign variable (a loop variable over
            `<variable>.bindings`, i.e. what an overridden `__new__` handed
            back) sits under a path condition with a conjunct that
            establishes "V's class is self" (`self ==/is V.data.cls`) or "V's
            class derives from self" (`self in V.data.cls.mro`); a test in
            the other direction (`V.data.cls in self.mro`: V's class is a
            BASE of self) or no test at all runs `__init__` - and reports its
            arity errors - for objects CPython never initialises;
          - when V is the binding of the instance freshly made by
            `self._new_instance(...)` no test is needed.
"""
import ast
import copy

from sa.core import rule, AnalysisError
from sa.pyindex import get_module, dotted, src, walk_no_nested
from sa import flow

PYI = "pytype/pyi/function.py"
MIXIN = "pytype/abstract/class_mixin.py"

EXPLANATION_FOR_C13 = (
    "  R13.50 (rules/c13_round5.py) the stub-signature builder in "
    "pyi/function.py (found by its role: it reads <arguments>.kwonlyargs) "
    "pairs parameters with defaults as the layout of ast.arguments demands: "
    "a provenance evaluation (record fields a sequence is built from element "
    "by element, reversed or not, shortened by a filter/slice or not), "
    "followed through locals and module-local helpers to every zip, shows "
    "that kwonlyargs is paired with kw_defaults only, index by index (same "
    "direction, neither side shortened), that the pairing loop stores "
    "`<param>.default` only on paths excluding the None placeholder and "
    "skips only the placeholder, and that posonlyargs+args is paired with "
    "defaults right-aligned.  R13.51 every self.call_init(node, V, A) in "
    "class_mixin.Class passes the method's own `args`, and when V is a "
    "binding handed back by an overridden __new__ (loop variable over "
    "<variable>.bindings) its path condition has a conjunct establishing "
    "that V's class is self or derives from self (self ==/is V.data.cls, "
    "self in V.data.cls.mro; one-expression self-helpers inlined); the "
    "converse membership test (V.data.cls in self.mro) or no test is a "
    "violation, any other relation between self and V an analysis error.  "
    "Blind spots: what Param.to_pytd makes of `.default`, and whether exact "
    "equality (stricter than isinstance) loses __init__ errors for __new__ "
    "results of a subclass.")


# =============================================================================
# R13.50
# =============================================================================
_PARAM_FIELDS = ("posonlyargs", "args", "kwonlyargs")
_DEFAULT_FIELDS = ("defaults", "kw_defaults")
_SAME_LENGTH = {"list", "tuple"}
_SCALAR = {"len", "sum", "any", "all", "bool", "min", "max", "isinstance"}
_SHORTENING = {"filter", "itertools.compress", "itertools.takewhile",
               "itertools.dropwhile", "itertools.islice", "set", "frozenset"}


class Seq:
  """Provenance of a sequence: fields of ast.arguments, element by element."""

  def __init__(self, parts, rev=False, cut=None):
    self.parts, self.rev, self.cut = tuple(parts), rev, cut

  @property
  def side(self):
    kinds = {"param" if p in _PARAM_FIELDS else "default" for p in self.parts}
    return kinds.pop() if len(kinds) == 1 else "mixed"

  def facts(self):
    return {"fields": list(self.parts), "reversed": self.rev, "shortened_by": self.cut}


class _Pairing:
  def __init__(self, fn, node, a, b, ta, tb):
    self.fn, self.node = fn, node
    # (provenance, loop target) of the parameter side and of the defaults side
    (self.params, self.p_target), (self.defaults, self.d_target) = (
        ((a, ta), (b, tb)) if a.side == "param" else ((b, tb), (a, ta)))


class _Builder:
  """Provenance evaluation of one signature builder and its helpers."""

  def __init__(self, mod, fn):
    self.mod, self.top = mod, fn
    self.pairings = []
    if not fn.args.args:
      raise AnalysisError(f"{fn.name}: no parameter holding the function node")
    self.run(fn, {}, set(), 0)

  # -- expressions -------------------------------------------------------------
  def is_arguments(self, e, env, recs):
    """e evaluates to the ast.arguments record."""
    if isinstance(e, ast.Name):
      return e.id in recs
    return (isinstance(e, ast.Attribute) and e.attr == "args"
            and isinstance(e.value, ast.Name) and e.value.id not in recs
            and e.value.id not in env
            and e.value.id in {a.arg for a in self.top.args.args})

  def value(self, e, env, recs):
    """Seq, or None for a value that is not built from the record's lists."""
    if isinstance(e, ast.Name):
      return env.get(e.id)
    if isinstance(e, ast.Attribute):
      if e.attr in _PARAM_FIELDS + _DEFAULT_FIELDS and self.is_arguments(e.value, env, recs):
        return Seq([e.attr])
      return None
    if isinstance(e, ast.Call):
      d = dotted(e.func)
      if d == "getattr" and len(e.args) >= 2 and self.is_arguments(e.args[0], env, recs) \
          and isinstance(e.args[1], ast.Constant) \
          and e.args[1].value in _PARAM_FIELDS + _DEFAULT_FIELDS:
        return Seq([e.args[1].value])
      inner = [self.value(a, env, recs) for a in e.args]
      if not any(inner) or d in _SCALAR:
        return None
      if len(e.args) == 1 and not e.keywords:
        v = inner[0]
        if d in _SAME_LENGTH:
          return v
        if d == "reversed":
          return Seq(v.parts, not v.rev, v.cut)
        if d in _SHORTENING:
          return Seq(v.parts, v.rev, v.cut or d)
      if d in _SHORTENING:
        v = next(x for x in inner if x)
        return Seq(v.parts, v.rev, v.cut or d)
      if d == "zip" or (isinstance(e.func, ast.Name) and e.func.id in self.mod.functions):
        return None       # pairings / helper calls are handled by the caller
      raise AnalysisError(
          f"{self.top.name}: `{src(e)[:70]}` transforms a parameter/defaults "
          "list in a way that is not understood")
    if isinstance(e, ast.BinOp) and isinstance(e.op, ast.Add):
      l, r = self.value(e.left, env, recs), self.value(e.right, env, recs)
      if l is None and r is None:
        return None
      if l is None or r is None or l.rev or r.rev:
        raise AnalysisError(f"{self.top.name}: `{src(e)[:70]}` concatenation not understood")
      return Seq(l.parts + r.parts, False, l.cut or r.cut)
    if isinstance(e, (ast.ListComp, ast.GeneratorExp)):
      g = e.generators[0]
      v = self.value(g.iter, env, recs)
      if v is None:
        return None
      if len(e.generators) != 1:
        raise AnalysisError(f"{self.top.name}: `{src(e)[:70]}` nested comprehension")
      return Seq(v.parts, v.rev, v.cut or ("comprehension filter" if g.ifs else None))
    if isinstance(e, ast.Subscript):
      v = self.value(e.value, env, recs)
      if v is None:
        return None
      if isinstance(e.slice, ast.Slice):
        sl = e.slice
        if sl.lower is None and sl.upper is None:
          if sl.step is None:
            return v
          if isinstance(sl.step, ast.UnaryOp) and isinstance(sl.step.op, ast.USub) \
              and isinstance(sl.step.operand, ast.Constant) and sl.step.operand.value == 1:
            return Seq(v.parts, not v.rev, v.cut)
        return Seq(v.parts, v.rev, v.cut or "slice")
      return None          # a single element
    if isinstance(e, ast.IfExp):
      vs = [self.value(x, env, recs) for x in (e.body, e.orelse)]
      if not any(vs):
        return None
      raise AnalysisError(f"{self.top.name}: `{src(e)[:70]}` conditional list not understood")
    if isinstance(e, (ast.Tuple, ast.List)) and any(isinstance(x, ast.Starred) for x in e.elts):
      parts, cut = (), None
      for x in e.elts:
        v = self.value(x.value, env, recs) if isinstance(x, ast.Starred) else None
        if v is None or v.rev:
          raise AnalysisError(f"{self.top.name}: `{src(e)[:70]}` display not understood")
        parts, cut = parts + v.parts, cut or v.cut
      return Seq(parts, False, cut)
    return None

  # -- statements ----------------------------------------------------------------
  def zips(self, node):
    return [c for c in ast.walk(node) if isinstance(c, ast.Call) and dotted(c.func) == "zip"]

  def pair(self, fn, z, env, recs, loop):
    vals = [self.value(a, env, recs) for a in z.args]
    rel = [v for v in vals if v is not None]
    if not rel:
      return
    sides = sorted(v.side for v in rel)
    if len(z.args) != 2 or len(rel) != 2 or sides != ["default", "param"] or z.keywords:
      if sides == ["param"] or sides == ["default"] or sides == ["param", "param"]:
        return             # not a pairing of parameters with defaults
      raise AnalysisError(f"{fn.name}: `{src(z)[:70]}` pairing not understood")
    ta = tb = None
    if loop is not None and loop.iter is z and isinstance(loop.target, ast.Tuple) \
        and len(loop.target.elts) == 2 \
        and all(isinstance(t, ast.Name) for t in loop.target.elts):
      ta, tb = (t.id for t in loop.target.elts)
    self.pairings.append(_Pairing(fn, loop if ta else z, vals[0], vals[1], ta, tb))

  def helper_calls(self, node):
    return [c for c in ast.walk(node) if isinstance(c, ast.Call)
            and isinstance(c.func, ast.Name) and c.func.id in self.mod.functions]

  def run(self, fn, env, recs, depth):
    if depth > 3:
      raise AnalysisError(f"{fn.name}: helper nesting too deep")
    env, recs = dict(env), set(recs)
    for st in fn.body:
      if isinstance(st, (ast.Assign, ast.AnnAssign)):
        tgts = st.targets if isinstance(st, ast.Assign) else [st.target]
        if st.value is None:
          continue
        self.simple(fn, st.value, env, recs, depth, None)
        for t in tgts:
          if isinstance(t, ast.Name):
            if self.is_arguments(st.value, env, recs):
              recs.add(t.id)
              env.pop(t.id, None)
              continue
            recs.discard(t.id)
            v = self.value(st.value, env, recs)
            if v is None:
              env.pop(t.id, None)
            else:
              env[t.id] = v
          elif any(isinstance(n, ast.Name) and (n.id in env or n.id in recs)
                   for n in ast.walk(t) if isinstance(getattr(n, "ctx", None), ast.Store)):
            raise AnalysisError(f"{fn.name}: `{src(st)[:70]}` re-binds a tracked list")
      elif isinstance(st, ast.For) and self.zips(st.iter):
        self.simple(fn, st.iter, env, recs, depth, st)
        for sub in st.body + st.orelse:
          self.opaque(fn, sub, env, recs)
      elif isinstance(st, (ast.Expr, ast.Return, ast.Assert, ast.Delete, ast.Pass,
                           ast.AugAssign, ast.Raise)):
        if isinstance(st, ast.AugAssign) and isinstance(st.target, ast.Name) \
            and (st.target.id in env or self.value(st.value, env, recs)):
          raise AnalysisError(f"{fn.name}: `{src(st)[:70]}` grows a tracked list in place")
        self.simple(fn, st, env, recs, depth, None)
      else:
        self.opaque(fn, st, env, recs)

  def simple(self, fn, node, env, recs, depth, loop):
    for z in self.zips(node):
      self.pair(fn, z, env, recs, loop)
    for c in self.helper_calls(node):
      callee = self.mod.functions[c.func.id]
      names = [a.arg for a in callee.args.posonlyargs + callee.args.args]
      vals = [(names[i] if i < len(names) else None, self.value(a, env, recs))
              for i, a in enumerate(c.args)]
      vals += [(k.arg, self.value(k.value, env, recs)) for k in c.keywords]
      if not any(v for _, v in vals):
        continue
      if any(n is None for n, v in vals if v) or callee is fn:
        raise AnalysisError(f"{fn.name}: call `{src(c)[:70]}` not understood")
      self.run(callee, {n: v for n, v in vals if v}, set(), depth + 1)

  def opaque(self, fn, st, env, recs):
    """A compound statement: must not pair or hand on tracked lists."""
    for z in self.zips(st):
      if any(self.value(a, env, recs) for a in z.args):
        raise AnalysisError(
            f"{fn.name}: parameters are paired with defaults inside a "
            f"{type(st).__name__} statement (line {st.lineno}): not understood")
    for c in self.helper_calls(st):
      if any(self.value(a, env, recs) for a in c.args) or \
          any(self.value(k.value, env, recs) for k in c.keywords):
        raise AnalysisError(
            f"{fn.name}: a tracked list is handed to {c.func.id} inside a "
            f"{type(st).__name__} statement (line {st.lineno}): not understood")
    for n in ast.walk(st):
      if isinstance(n, ast.Name) and isinstance(n.ctx, ast.Store) and \
          (n.id in env or n.id in recs):
        raise AnalysisError(f"{fn.name}: `{n.id}` is re-bound conditionally (line {st.lineno})")


def _none_atom(e, pol, d):
  """What (test e, polarity pol) says about `d`: 'none', 'value' or None."""
  if isinstance(e, ast.UnaryOp) and isinstance(e.op, ast.Not):
    return _none_atom(e.operand, not pol, d)
  if isinstance(e, ast.BoolOp):
    conj = isinstance(e.op, ast.And) == pol    # all operands have polarity pol
    got = [_none_atom(v, pol, d) for v in e.values]
    if conj:
      for g in got:
        if g:
          return g
      return None
    return got[0] if all(g == got[0] for g in got) else None
  is_d = lambda x: isinstance(x, ast.Name) and x.id == d
  is_none = lambda x: isinstance(x, ast.Constant) and x.value is None
  if isinstance(e, ast.Compare) and len(e.ops) == 1:
    l, r, op = e.left, e.comparators[0], e.ops[0]
    if (is_d(l) and is_none(r)) or (is_none(l) and is_d(r)):
      if isinstance(op, (ast.Is, ast.Eq)):
        return "none" if pol else "value"
      if isinstance(op, (ast.IsNot, ast.NotEq)):
        return "value" if pol else "none"
    return None
  if isinstance(e, ast.Call) and dotted(e.func) == "isinstance" and len(e.args) == 2 \
      and is_d(e.args[0]) and pol:
    classes = e.args[1].elts if isinstance(e.args[1], ast.Tuple) else [e.args[1]]
    if not any("None" in src(c) for c in classes):
      return "value"
    return None
  if is_d(e) and pol:
    return "value"          # truthy => not None
  return None


def _paths(block, conds, p, out):
  """Enumerate the paths through a loop body.

  out gets (conds, stores) for every path that reaches the end of the
  iteration; returns the list of (conds, stores) states falling off `block`.
  """
  states = [(conds, [])]
  for st in block:
    if not states:
      break
    if isinstance(st, ast.If):
      nxt = []
      for c, s in states:
        for branch, pol in ((st.body, True), (st.orelse, False)):
          sub = _paths(branch, c + [(st.test, pol)], p, out)
          nxt.extend((c2, s + s2) for c2, s2 in sub)
      states = nxt
    elif isinstance(st, ast.Continue):
      out.extend(states)
      states = []
    elif isinstance(st, (ast.Assign, ast.AnnAssign, ast.AugAssign)):
      tgts = st.targets if isinstance(st, ast.Assign) else [st.target]
      hit = [t for t in tgts for n in ast.walk(t)
             if isinstance(n, ast.Attribute) and n.attr == "default"
             and isinstance(n.value, ast.Name) and n.value.id == p
             and isinstance(n.ctx, ast.Store)]
      if any(isinstance(n, ast.Name) and n.id == p and isinstance(n.ctx, ast.Store)
             for t in tgts for n in ast.walk(t)):
        raise AnalysisError(f"pairing loop re-binds `{p}`")
      if hit:
        states = [(c, s + [st]) for c, s in states]
    elif isinstance(st, (ast.Expr, ast.Pass, ast.Assert)):
      for c in ast.walk(st):
        if isinstance(c, ast.Call) and any(
            isinstance(a, ast.Name) and a.id == p for a in c.args):
          raise AnalysisError(
              f"pairing loop hands `{p}` to `{src(c.func)}`: where the default "
              "is stored is not understood")
        if isinstance(c, ast.Call) and dotted(c.func) == "setattr":
          raise AnalysisError("pairing loop uses setattr")
    else:
      raise AnalysisError(
          f"pairing loop contains a {type(st).__name__} statement (line {st.lineno})")
  return states


def _builders(ctx):
  mod = get_module(ctx, PYI)
  fns = [f for f in mod.functions.values()
         if any(isinstance(n, ast.Attribute) and n.attr == "kwonlyargs"
                for n in walk_no_nested(f))]
  if not fns:
    raise AnalysisError(f"{PYI}: no function reads <arguments>.kwonlyargs")
  return mod, fns


@rule("R13.50", "C13", floor=3)
def r13_50(ctx):
  """Stub signature builder pairs kwonlyargs with kw_defaults index by index (None = no default) and posonlyargs+args with defaults right-aligned."""
  mod, fns = _builders(ctx)
  for fn in fns:
    b = _Builder(mod, fn)
    kw = [p for p in b.pairings
          if "kwonlyargs" in p.params.parts or "kw_defaults" in p.defaults.parts]
    pos = [p for p in b.pairings if p not in kw]
    if len(kw) != 1 or len(pos) != 1:
      raise AnalysisError(
          f"{fn.name}: expected one pairing of keyword-only parameters with "
          f"defaults and one of positional parameters, found {len(kw)} and {len(pos)}")
    # (1) keyword-only: same index
    p = kw[0]
    facts = {"parameters": p.params.facts(), "defaults": p.defaults.facts(),
             "paired_in": p.fn.name}
    why = None
    if p.params.parts != ("kwonlyargs",) or p.defaults.parts != ("kw_defaults",):
      why = (f"{'+'.join(p.params.parts)} is paired with {'+'.join(p.defaults.parts)}: "
             "keyword-only parameters take their defaults from kw_defaults and from "
             "nothing else")
    elif p.params.cut and p.defaults.cut:
      raise AnalysisError(f"{fn.name}: both kwonlyargs and kw_defaults are shortened "
                          "before they are paired: not understood")
    elif p.params.cut or p.defaults.cut:
      which = "kw_defaults" if p.defaults.cut else "kwonlyargs"
      why = (f"{which} is shortened ({p.defaults.cut or p.params.cut}) before it is "
             "paired: kw_defaults[i] belongs to kwonlyargs[i], and `def f(*, a=1, b)` "
             "is legal - with an element dropped the default of `a` lands on `b` "
             "(f(b=0) reported as missing-parameter, f(a=0) not reported)")
    elif p.params.rev != p.defaults.rev:
      why = ("kwonlyargs and kw_defaults are walked in opposite directions: "
             "`def f(*, a=1, b)` gives the default to `b`")
    ctx.check(why is None, f"{fn.name}:keyword-only-defaults-same-index", PYI,
              p.node.lineno, why or "", facts)

    # (2) the None placeholder
    if not isinstance(p.node, ast.For) or p.p_target is None:
      raise AnalysisError(f"{fn.name}: keyword-only pairing is not a `for p, d in zip(..)` loop")
    done = []
    tail = _paths(p.node.body, [], p.p_target, done)
    done.extend(tail)
    wrong, facts2 = [], []
    for conds, stores in done:
      about = {_none_atom(t, pol, p.d_target) for t, pol in conds} - {None}
      if about == {"none", "value"}:
        continue          # infeasible
      txt = " and ".join(("" if pol else "not ") + f"({src(t)})" for t, pol in conds) or "always"
      facts2.append({"when": txt, "stores_default": bool(stores),
                     "default_is": sorted(about)})
      if stores and about != {"value"}:
        wrong.append(f"a default is stored when {txt}, which does not exclude the "
                     "None placeholder kw_defaults holds for a keyword-only parameter "
                     "without a default: such a parameter would become optional "
                     "(`def f(*, a)`: f() not reported)")
      elif not stores and about != {"none"}:
        if not about:
          raise AnalysisError(
              f"{p.fn.name}: the path `{txt}` stores no default and does not test "
              "the element against None: not understood")
        wrong.append(f"no default is stored when {txt} although the element is a "
                     "real default: the parameter becomes required")
    ctx.check(not wrong, f"{fn.name}:kw_defaults-None-placeholder-is-no-default", PYI,
              p.node.lineno, "; ".join(wrong), {"paths": facts2, "loop_in": p.fn.name})

    # (3) positional: right-aligned
    q = pos[0]
    facts = {"parameters": q.params.facts(), "defaults": q.defaults.facts(),
             "paired_in": q.fn.name}
    if q.params.cut or q.defaults.cut:
      raise AnalysisError(f"{fn.name}: positional parameters/defaults are sliced before "
                          "they are paired: not understood")
    why = None
    if q.params.parts != ("posonlyargs", "args") or q.defaults.parts != ("defaults",):
      why = (f"{'+'.join(q.params.parts)} is paired with {'+'.join(q.defaults.parts)}: "
             "`defaults` belongs to the tail of posonlyargs+args")
    elif not (q.params.rev and q.defaults.rev):
      why = ("posonlyargs+args and defaults are not both walked from the end: "
             "`def f(a, b=1)` must give the default to `b`")
    ctx.check(why is None, f"{fn.name}:positional-defaults-right-aligned", PYI,
              q.node.lineno, why or "", facts)


# =============================================================================
# R13.51
# =============================================================================
class _Subst(ast.NodeTransformer):
  def __init__(self, m):
    self.m = m

  def visit_Name(self, n):
    return copy.deepcopy(self.m[n.id]) if n.id in self.m and isinstance(n.ctx, ast.Load) else n


def _single_assignments(fn):
  """local -> value for locals bound exactly once by a plain assignment."""
  count, val = {}, {}
  for n in walk_no_nested(fn):
    if isinstance(n, ast.Name) and isinstance(n.ctx, ast.Store):
      count[n.id] = count.get(n.id, 0) + 1
    if isinstance(n, ast.Assign) and len(n.targets) == 1 and isinstance(n.targets[0], ast.Name):
      val[n.targets[0].id] = n.value
  for a in fn.args.posonlyargs + fn.args.args + fn.args.kwonlyargs:
    count[a.arg] = count.get(a.arg, 0) + 1
  return {k: v for k, v in val.items() if count.get(k) == 1}


class _InitSite:
  def __init__(self, mod, methods, fn, call):
    self.mod, self.methods, self.fn, self.call = mod, methods, fn, call
    self.locals = _single_assignments(fn)
    self.self_name = fn.args.args[0].arg

  def expand(self, e, depth=0):
    """Replace attribute-chain locals by their definition."""
    if depth > 4:
      return e
    m = {k: v for k, v in self.locals.items()
         if dotted(v) is not None and any(
             isinstance(n, ast.Name) and n.id == k for n in ast.walk(e))}
    if not m:
      return e
    return self.expand(ast.fix_missing_locations(_Subst(m).visit(copy.deepcopy(e))), depth + 1)

  def inline(self, e, depth=0):
    """Replace `self.<helper>(..)` by the helper's single return expression."""
    if depth > 3:
      raise AnalysisError(f"Class.{self.fn.name}: helper nesting too deep")
    e = copy.deepcopy(e)
    for c in [n for n in ast.walk(e) if isinstance(n, ast.Call)]:
      f = c.func
      if not (isinstance(f, ast.Attribute) and isinstance(f.value, ast.Name)
              and f.value.id == self.self_name and f.attr in self.methods):
        continue
      if not any(self.mentions_v(a) for a in list(c.args) + [k.value for k in c.keywords]):
        continue
      h = self.methods[f.attr]
      body = [s for s in h.body if not (isinstance(s, ast.Expr)
                                        and isinstance(s.value, ast.Constant))]
      names = [a.arg for a in h.args.posonlyargs + h.args.args]
      if len(body) != 1 or not isinstance(body[0], ast.Return) or body[0].value is None \
          or c.keywords or len(c.args) + 1 != len(names) or h.decorator_list:
        raise AnalysisError(
            f"Class.{self.fn.name}: the test `{src(c)}` on the result of __new__ is "
            "decided by a helper that is not a single return expression")
      m = dict(zip(names[1:], c.args))
      m[names[0]] = ast.Name(id=self.self_name, ctx=ast.Load())
      new = ast.fix_missing_locations(_Subst(m).visit(copy.deepcopy(body[0].value)))
      # splice: rebuild e with c replaced
      class _R(ast.NodeTransformer):
        def visit_Call(s, n):
          return new if n is c else s.generic_visit(n)
      return self.inline(_R().visit(e), depth + 1)
    return e

  # -- vocabulary --------------------------------------------------------------------
  def is_self(self, e):
    return isinstance(e, ast.Name) and e.id == self.self_name

  def is_vcls(self, e):
    return dotted(e) == f"{self.v}.data.cls"

  def mentions_v(self, e):
    e = self.expand(e)
    return any(isinstance(n, ast.Name) and n.id == self.v for n in ast.walk(e))

  def relates(self, e):
    """e mentions both the constructed class itself and V."""
    has_self = any(self.is_self(n) and not (
        isinstance(self.parent_of.get(n), ast.Attribute)
        and self.parent_of[n].attr not in ("mro",)) for n in ast.walk(e))
    return has_self and any(isinstance(n, ast.Name) and n.id == self.v for n in ast.walk(e))

  def establishes(self, e, pol):
    """(test e with polarity pol) implies V's class is self / derives from self."""
    if isinstance(e, ast.UnaryOp) and isinstance(e.op, ast.Not):
      return self.establishes(e.operand, not pol)
    if isinstance(e, ast.BoolOp):
      conj = isinstance(e.op, ast.And) == pol
      got = [self.establishes(v, pol) for v in e.values]
      return any(got) if conj else all(got)
    self.parent_of = {c: n for n in ast.walk(e) for c in ast.iter_child_nodes(n)}
    if not self.relates(e):
      return False
    if isinstance(e, ast.Compare) and len(e.ops) == 1:
      l, r, op = e.left, e.comparators[0], e.ops[0]
      if (self.is_self(l) and self.is_vcls(r)) or (self.is_vcls(l) and self.is_self(r)):
        if isinstance(op, (ast.Eq, ast.Is)):
          return pol
        if isinstance(op, (ast.NotEq, ast.IsNot)):
          return not pol
      if isinstance(op, (ast.In, ast.NotIn)):
        positive = isinstance(op, ast.In) == pol
        if self.is_self(l) and isinstance(r, ast.Attribute) and r.attr == "mro" \
            and self.is_vcls(r.value):
          return positive            # self is among the bases of V's class
        if self.is_vcls(l) and isinstance(r, ast.Attribute) and r.attr == "mro" \
            and self.is_self(r.value):
          self.converse.append(src(e))
          return False               # V's class is among the bases of self
    raise AnalysisError(
        f"Class.{self.fn.name}: the test `{src(e)[:80]}` relates the constructed "
        "class to the result of __new__ in a way that is not understood")

  # -- classification ----------------------------------------------------------------
  def receiver(self):
    """'fresh' | 'foreign' and the name of V."""
    if len(self.call.args) < 3 and not self.call.keywords:
      raise AnalysisError(f"Class.{self.fn.name}: `{src(self.call)}` argument list not understood")
    v = self.call.args[1]
    if not isinstance(v, ast.Name):
      raise AnalysisError(f"Class.{self.fn.name}: call_init receiver `{src(v)}` not a local")
    self.v = v.id
    # loop variable over <x>.bindings ?
    node = self.call
    while node in self.mod.parent and node is not self.fn:
      node = self.mod.parent[node]
      if isinstance(node, (ast.For, ast.comprehension)) and any(
          isinstance(n, ast.Name) and n.id == self.v for n in ast.walk(node.target)):
        it = node.iter
        if isinstance(node.target, ast.Name) and (
            (isinstance(it, ast.Attribute) and it.attr == "bindings")
            or (isinstance(it, ast.Call) and isinstance(it.func, ast.Attribute)
                and it.func.attr == "Bindings")):
          return "foreign"
        raise AnalysisError(
            f"Class.{self.fn.name}: call_init receiver `{self.v}` iterates "
            f"`{src(it)[:60]}`: not understood")
    d = self.locals.get(self.v)
    if isinstance(d, ast.Call) and isinstance(d.func, ast.Attribute) \
        and d.func.attr == "AddBinding" and d.args:
      inst = d.args[0]
      if isinstance(inst, ast.Name):
        inst = self.locals.get(inst.id)
      if isinstance(inst, ast.Call) and dotted(inst.func) == f"{self.self_name}._new_instance":
        return "fresh"
    if self.v in {a.arg for a in self.fn.args.args}:
      return "parameter"
    raise AnalysisError(
        f"Class.{self.fn.name}: where the call_init receiver `{self.v}` comes from "
        "is not understood")


@rule("R13.51", "C13", floor=2)
def r13_51(ctx):
  """Class runs __init__ with the constructor's own args, and on a result of an overridden __new__ only under a test that its class is (derived from) the constructed class."""
  mod = get_module(ctx, MIXIN)
  methods = mod.methods("Class")
  if "call_init" not in methods:
    raise AnalysisError("Class.call_init not found")
  n = 0
  for name, fn in methods.items():
    if not fn.args.args:
      continue
    selfn = fn.args.args[0].arg
    for call in [c for c in walk_no_nested(fn) if isinstance(c, ast.Call)
                 and dotted(c.func) == f"{selfn}.call_init"]:
      site = _InitSite(mod, methods, fn, call)
      kind = site.receiver()
      n += 1
      construct = f"Class.{name}:call_init[{kind}]"
      # (a) same arguments
      a = call.args[2] if len(call.args) >= 3 else next(
          (k.value for k in call.keywords if k.arg == "args"), None)
      own = {x.arg for x in fn.args.posonlyargs + fn.args.args + fn.args.kwonlyargs}
      if a is None:
        raise AnalysisError(f"Class.{name}: `{src(call)}` passes no arguments record")
      a = site.expand(a)
      if isinstance(a, ast.Name) and a.id in own:
        if any(isinstance(x, ast.Name) and isinstance(x.ctx, ast.Store) and x.id == a.id
               for x in walk_no_nested(fn)):
          raise AnalysisError(f"Class.{name}: parameter `{a.id}` is re-bound before call_init")
      else:
        d = site.locals.get(a.id) if isinstance(a, ast.Name) else a
        if isinstance(d, ast.Call) and isinstance(d.func, ast.Attribute) \
            and d.func.attr == "replace" and isinstance(d.func.value, ast.Name) \
            and d.func.value.id in own and any(
                k.arg in ("posargs", "namedargs", "starargs", "starstarargs")
                for k in d.keywords):
          ctx.bad(construct + ":same-arguments", MIXIN, call.lineno,
                  f"__init__ is called with `{src(d)[:80]}`, a modified copy of the "
                  "constructor call's arguments: type.__call__ binds the SAME arguments "
                  "to __new__ (after cls) and to __init__ (after self)",
                  {"passed": src(a), "is": src(d)})
          continue
        raise AnalysisError(
            f"Class.{name}: call_init is handed `{src(a)[:60]}`, whose relation to the "
            "constructor call's arguments is not understood")
      if kind != "foreign":
        ctx.ok(construct, MIXIN, call.lineno, {"receiver": site.v, "args": a.id})
        continue
      # (b) instance-of-self test on what __new__ handed back
      site.converse = []
      stmt = mod.enclosing_stmt(call)
      conds = flow.guards(mod.parent, stmt, stop=fn)
      # a conditional expression / short-circuit around the call itself
      node = call
      while node is not stmt:
        par = mod.parent[node]
        if isinstance(par, ast.IfExp) and node is not par.test:
          conds.append((par.test, node is par.body))
        elif isinstance(par, ast.BoolOp) and par.values.index(node) > 0:
          for prev in par.values[:par.values.index(node)]:
            conds.append((prev, isinstance(par.op, ast.And)))
        elif isinstance(par, (ast.ListComp, ast.GeneratorExp, ast.SetComp, ast.DictComp, ast.Lambda)):
          raise AnalysisError(f"Class.{name}: call_init inside a {type(par).__name__}")
        node = par
      ok, seen = False, []
      for t, pol in conds:
        t2 = site.expand(site.inline(site.expand(t)))
        seen.append(("" if pol else "not ") + src(t2))
        if site.establishes(t2, pol):
          ok = True
      reason = ""
      if not ok:
        reason = (
            f"__init__ is run on `{site.v}`, a value handed back by an overridden "
            "__new__, without a test that its class is the constructed class or "
            "derives from it" + (
                f" (`{site.converse[0]}` holds when it is a BASE of the constructed "
                "class, e.g. a bare object())" if site.converse else "") +
            ": `class Sub(Base): def __new__(cls, x): return Base()`, `Sub(1)` - "
            "CPython skips __init__, pytype binds (1,) to Base.__init__/object.__init__ "
            "and reports wrong-arg-count")
      ctx.check(ok, construct, MIXIN, call.lineno, reason,
                {"receiver": site.v, "path_condition": seen, "args": a.id})
  if n == 0:
    raise AnalysisError("Class: no self.call_init(..) call found")


# =============================================================================
_KW_CALL = "  _apply_defaults(kwonly_params, args.kw_defaults)\n"
_NONE_SKIP = "    if d is None:\n      continue\n    elif isinstance(d, types.Pyval):\n"
_LOOP = "  for p, d in zip(reversed(params), reversed(defaults)):\n"
_INIT_IF = "      if not isinstance(val.data, Class) and self == val.data.cls:\n"

VARIANTS = [
    # ---- R13.50 must fire ----
    {"name": "kw-defaults-paired-against-the-grain", "rule": "R13.50", "file": PYI,
     "expect": "fire", "old": _KW_CALL,
     "new": "  _apply_defaults(kwonly_params[::-1], args.kw_defaults)\n"},
    {"name": "kw-defaults-none-placeholder-becomes-default", "rule": "R13.50", "file": PYI,
     "expect": "fire", "old": _NONE_SKIP,
     "new": "    if isinstance(d, types.Pyval):\n"},
    {"name": "kw-defaults-trailing-slice", "rule": "R13.50", "file": PYI,
     "expect": "fire", "old": _KW_CALL,
     "new": "  n_kw = sum(d is not None for d in args.kw_defaults)\n"
            "  _apply_defaults(kwonly_params, args.kw_defaults[len(args.kw_defaults) - n_kw:])\n"},
    {"name": "kwonly-takes-positional-defaults", "rule": "R13.50", "file": PYI,
     "expect": "fire", "old": _KW_CALL,
     "new": "  _apply_defaults(kwonly_params, args.defaults)\n"},
    {"name": "positional-defaults-left-aligned", "rule": "R13.50", "file": PYI,
     "expect": "fire", "old": _LOOP,
     "new": "  for p, d in zip(params, defaults):\n"},
    {"name": "real-default-skipped-unless-pyval", "rule": "R13.50", "file": PYI,
     "expect": "fire",
     "old": "    else:\n      p.default = pytd.AnythingType()\n",
     "new": "    else:\n      pass\n"},
    # ---- R13.50 twins ----
    {"name": "twin-kw-defaults-forward-inline-loop", "rule": "R13.50", "file": PYI,
     "expect": "silent", "old": _KW_CALL,
     "new": "  for kw_param, kw_default in zip(kwonly_params, list(args.kw_defaults)):\n"
            "    if kw_default is not None:\n"
            "      if isinstance(kw_default, types.Pyval):\n"
            "        kw_param.default = kw_default.to_pytd()\n"
            "      else:\n"
            "        kw_param.default = pytd.AnythingType()\n"},
    {"name": "twin-none-test-nested-renamed", "rule": "R13.50", "file": PYI,
     "expect": "silent",
     "old": _LOOP + _NONE_SKIP + "      p.default = d.to_pytd()\n    else:\n"
            "      p.default = pytd.AnythingType()\n",
     "new": "  for param, value in zip(reversed(params), reversed(defaults)):\n"
            "    if value is not None:\n"
            "      param.default = (\n"
            "          value.to_pytd() if isinstance(value, types.Pyval)\n"
            "          else pytd.AnythingType()\n      )\n"},
    {"name": "twin-locals-for-the-record-fields", "rule": "R13.50", "file": PYI,
     "expect": "silent",
     "old": "  _apply_defaults(posonly_params + pos_params, args.defaults)\n" + _KW_CALL,
     "new": "  positional = [*posonly_params, *pos_params]\n"
            "  kw_values = tuple(args.kw_defaults)\n"
            "  _apply_defaults(kwonly_params, kw_values)\n"
            "  _apply_defaults(positional, args.defaults)\n"},
    # ---- R13.51 must fire ----
    {"name": "init-on-any-non-class-result-of-new", "rule": "R13.51", "file": MIXIN,
     "expect": "fire", "old": _INIT_IF,
     "new": "      if not isinstance(val.data, Class):\n"},
    {"name": "init-class-test-disjoined", "rule": "R13.51", "file": MIXIN,
     "expect": "fire", "old": _INIT_IF,
     "new": "      if not isinstance(val.data, Class) or self == val.data.cls:\n"},
    {"name": "init-class-test-negated", "rule": "R13.51", "file": MIXIN,
     "expect": "fire", "old": _INIT_IF,
     "new": "      if isinstance(val.data, Class) or self == val.data.cls:\n        continue\n"
            "      else:\n"},
    {"name": "init-after-new-gets-the-new-args", "rule": "R13.51", "file": MIXIN,
     "expect": "fire",
     "old": _INIT_IF + "        node = self.call_init(node, val, args)\n",
     "new": _INIT_IF + "        node = self.call_init(node, val, new_args)\n"},
    # ---- R13.51 twins ----
    {"name": "twin-operands-swapped-early-continue", "rule": "R13.51", "file": MIXIN,
     "expect": "silent", "old": _INIT_IF + "        node = self.call_init(node, val, args)\n",
     "new": "      result_cls = val.data.cls\n"
            "      if isinstance(val.data, Class) or result_cls != self:\n"
            "        continue\n"
            "      node = self.call_init(node, val, args)\n"},
    {"name": "twin-nested-ifs-identity", "rule": "R13.51", "file": MIXIN,
     "expect": "silent", "old": _INIT_IF + "        node = self.call_init(node, val, args)\n",
     "new": "      if not isinstance(val.data, Class):\n"
            "        if val.data.cls is self:\n"
            "          node = self.call_init(node, val, args)\n"},
    {"name": "refuse-unknown-relation-between-self-and-result", "rule": "R13.51", "file": MIXIN,
     "expect": "error", "old": _INIT_IF,
     "new": "      if not isinstance(val.data, Class) and val.data.cls.compatible_with(self):\n"},
    {"name": "refuse-kw-pairing-under-a-condition", "rule": "R13.50", "file": PYI,
     "expect": "error", "old": _KW_CALL,
     "new": "  if kwonly_params:\n    _apply_defaults(kwonly_params, args.kw_defaults)\n"},
    {"name": "twin-isinstance-direction-via-helper", "rule": "R13.51", "file": MIXIN,
     "expect": "silent",
     "edits": [(MIXIN, _INIT_IF,
                "      if not isinstance(val.data, Class) and self._made_by_me(val):\n"),
               (MIXIN, "  def _call_new_and_init(\n",
                "  def _made_by_me(self, binding):\n"
                "    \"\"\"Whether binding holds an instance of this class.\"\"\"\n"
                "    return self in binding.data.cls.mro\n\n"
                "  def _call_new_and_init(\n")]},
]
