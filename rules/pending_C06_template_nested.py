"""PENDING (not loaded: fires on today's tree - believed to be a genuine
pytype defect, to be confirmed on a scratch build before it is activated).

R6.22 = R6.21 (rules/c06_template.py) with class headers whose bases are
parameterised by *nested* generics: `class M(Box[List[V]], Other[K])`.

Today: the stub reader's `AdjustTypeParameters._GetTemplateItems` recurses
into GenericType/UnionType parameters and finds V, so the re-read class has
the template [V, K]; the analyser's `_compute_template` only keeps a base's
parameter when it IS a TypeParameter (`isinstance(param, TypeParameter)`), so
the inferred class has the template [K].  Concrete input (scratch VM, rev
356618e):

    from typing import Generic, TypeVar, List
    K = TypeVar('K'); V = TypeVar('V')
    class Box(Generic[V]):
      def get(self) -> V: ...
    class Other(Generic[K]):
      def __init__(self, k: K): self.k = k
      def key(self) -> K: return self.k
    class M(Box[List[V]], Other[K]): pass
    m = M(1)
    k = m.key()

  module a:                 m: M[int]          k: int
  `import a` through a.pyi: a.m: a.M[int, Any] a.m.key(): Any   a.m.get(): list[int]

(and `def f() -> M[int, str]` in a is rejected with "M[K] expected 1
parameter, got 2" although M.__parameters__ == (V, K) at runtime).

To activate: rename to c06_template_nested.py once /repo is fixed (for
example `_compute_template` collecting the type parameters of a base's
arguments recursively, in the order `_GetTemplateItems` does).
"""
import itertools

from sa.core import rule, AnalysisError
from rules import c06_template as t


def _nested_headers():
  for a, b in itertools.permutations(t._TVARS[:2], 2):
    yield [("Box", (("list", (a,)),)), ("Other", (b,))]
    yield [("Box", (b,)), ("Other", (("list", (a,)),))]
    yield [("Box", (("dict", (a, b)),))]
    yield [("Box", (("list", (("list", (a,)),)),)), ("Pair", (b, a))]


@rule("R6.22", "C06", floor=1)
def r6_22(ctx):
  """Template of a class whose bases are parameterised by nested generics."""
  first, count, accepted = t.compare_headers(ctx, _nested_headers())
  if accepted == 0:
    raise AnalysisError("no nested class header is accepted by both sides")
  t.report(ctx, first, count, label="nested-")
