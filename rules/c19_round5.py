"""C19 / R19.50, R19.51 - what the plan is computed from.

R19.50 (deps_from_import_graph).  The runner orders a step after exactly the
dependencies this function emits for it, so "every stub a step reads has
already been produced" needs every node's emitted dependencies to contain
  (direct)      the source files among the node's own dependencies,
  (inherit)     for every stub among them, all of the stub map's entry,
and the stub map's entry of every stub of the node to contain
  (stub-direct)     those same source dependencies,
  (stub-transitive) the entries of the stubs among the dependencies,
for EVERY node: the propagation may not be filtered by what happened while
earlier nodes were planned.  Decided on the node loop (statement-level calls
of module-level helpers inlined, once-bound aliases of a map entry resolved):
each propagation site `T.extend(E)` / `T += E` / `for e in E: T.append(e)` of
the four kinds is reached through complete loops (a plain traversal of the
stub list, no `break`, no slice), its path condition - apart from what also
guards the emit - consists of de-duplication tests against the target itself
or a container that is fresh in this iteration and of presence tests on the
stub map, and reads no state that is created outside the node loop and
changed inside it (memory carried from node to node) other than the stub map
itself; inheritance precedes the emit; the stub map is created outside the
loop; the emitted dependency list is bound once per node, from the split of
the node's own dependencies.

R19.51 (resolved_file_to_module).  module_utils.Module recomposes the file a
step analyses as join(path, target).  The resolved file's path is its import
root followed by its short path, so the decomposition has to cut the short
path off at the END of the full path (slice by -len, removesuffix, rindex /
rfind / rpartition / rsplit(.., 1)); a cut anchored at the first occurrence
(partition, split, find, index), at all occurrences (replace) or at a
character set (rstrip/strip), or by the length of something else, recomposes
to a different file whenever the text of the short path also occurs earlier.
"""
import ast

from sa.core import rule, AnalysisError
from sa.pyindex import get_module, dotted, src
from sa import flow

from rules import _util_c16c19 as U

RUN = "pytype/tools/analyze_project/pytype_runner.py"
MODUTILS = "pytype/module_utils.py"
FN = "deps_from_import_graph"

_MUTATORS = {"add", "append", "extend", "update", "insert", "pop", "remove", "discard",
             "clear", "setdefault", "popitem", "sort", "reverse", "appendleft", "extendleft"}
_FULL_TRAVERSALS = {"sorted", "reversed", "list", "tuple", "set", "frozenset", "iter"}
_FRESH = {"set", "list", "dict", "frozenset"}


def _err(msg):
  raise AnalysisError(f"{FN}: {msg}")


class _Plan:
  pass


def _ancestors(parent, node, stop):
  out = []
  while node is not stop:
    if node not in parent:
      _err("statement outside the node loop")
    node = parent[node]
    out.append(node)
  return out


def _inside(parent, node, stop):
  while node in parent:
    node = parent[node]
    if node is stop:
      return True
  return False


def _build(ctx):
  mod = get_module(ctx, RUN)
  fn0 = mod.func(FN)
  only = {U.callee_name(s.value) for s in U.walk_scope(fn0)
          if isinstance(s, ast.Expr) and isinstance(s.value, ast.Call)} - {None}
  fn, parent, inlined = U.inline_local_calls(mod, fn0, depth=2, only=only)
  p = _Plan()
  p.mod, p.fn, p.parent, p.inlined = mod, fn, parent, inlined
  scope = list(U.walk_scope(fn))
  if any(isinstance(n, (ast.Yield, ast.YieldFrom)) for n in scope):
    _err("is a generator; the emitted (sources, deps) pairs are looked for as "
         "appends to the returned list")
  rets = [n for n in scope if isinstance(n, ast.Return)]
  if len(rets) != 1 or not isinstance(rets[0].value, ast.Name):
    _err("does not return one local list")
  p.result = rets[0].value.id
  emits = [n for n in scope if isinstance(n, ast.Call) and isinstance(n.func, ast.Attribute)
           and n.func.attr == "append" and isinstance(n.func.value, ast.Name)
           and n.func.value.id == p.result]
  if len(emits) != 1 or len(emits[0].args) != 1 or not isinstance(emits[0].args[0], ast.Tuple) \
      or len(emits[0].args[0].elts) != 2:
    _err(f"the (sources, deps) pair is not emitted by one `{p.result}.append((.., ..))`")
  p.emit = emits[0]
  p.emit_stmt = U.enclosing_stmt(parent, p.emit)
  # the node loop: outermost loop around the emit
  loops = [a for a in _ancestors(parent, p.emit_stmt, fn) if isinstance(a, (ast.For, ast.While))]
  if not loops or not isinstance(loops[-1], ast.For):
    _err("the emit is not inside a `for` loop over the import graph's nodes")
  p.loop = loop = loops[-1]
  if not (isinstance(loop.target, ast.Tuple) and len(loop.target.elts) == 2
          and all(isinstance(e, ast.Name) for e in loop.target.elts)):
    _err("the node loop does not bind (node, deps)")
  p.node_var, p.deps_var = (e.id for e in loop.target.elts)
  p.in_loop = [n for n in U.walk_scope(loop)]

  def plain(e):
    if isinstance(e, ast.Name):
      return e.id
    if isinstance(e, ast.Call) and isinstance(e.func, ast.Name) and e.func.id in _FULL_TRAVERSALS \
        and len(e.args) == 1 and not e.keywords and isinstance(e.args[0], ast.Name):
      return e.args[0].id
    _err(f"emitted pair element `{src(e)}` is not a local list (or tuple(<list>))")
  p.S, p.X = plain(p.emit.args[0].elts[0]), plain(p.emit.args[0].elts[1])

  # stores per name
  # stores per name (`xs += ..` on a once-bound list changes the list in place:
  # not a binding, but a change - see `mutated` below)
  p.stores_in, p.stores_out = {}, {}
  p.aug_in = set()
  for n in scope:
    if isinstance(n, ast.Name) and isinstance(n.ctx, (ast.Store, ast.Del)):
      if isinstance(parent.get(n), ast.AugAssign) and parent[n].target is n:
        if _inside(parent, n, loop):
          p.aug_in.add(n.id)
        continue
      d = p.stores_in if (n is loop.target or _inside(parent, n, loop)) else p.stores_out
      d.setdefault(n.id, []).append(n)
  for a in ast.walk(fn.args):
    if isinstance(a, ast.arg):
      p.stores_out.setdefault(a.arg, []).append(a)

  def split_of(name):
    """(sibling name, position, call) of the per-node 2-tuple assignment binding `name`."""
    sts = p.stores_in.get(name, [])
    if name in p.stores_out or len(sts) != 1:
      _err(f"`{name}` is not bound exactly once per node")
    tgt = parent[sts[0]]
    st = parent.get(tgt)
    if not (isinstance(tgt, ast.Tuple) and len(tgt.elts) == 2 and isinstance(st, ast.Assign)
            and len(st.targets) == 1 and isinstance(st.value, ast.Call)
            and all(isinstance(e, ast.Name) for e in tgt.elts)):
      _err(f"`{name}` is not bound by `<stubs>, <sources> = <split>(..)`")
    pos = tgt.elts.index(sts[0])
    return tgt.elts[1 - pos].id, pos, st
  p.SD, pos_x, p.x_assign = split_of(p.X)
  p.ST, pos_s, p.s_assign = split_of(p.S)
  if pos_x != pos_s or src(p.x_assign.value.func) != src(p.s_assign.value.func):
    _err("the node's files and its dependencies are not split by the same call with "
         "the results in the same order")
  for nm in (p.SD, p.ST):
    if nm in p.stores_out or len(p.stores_in.get(nm, [])) != 1:
      _err(f"`{nm}` is not bound exactly once per node")

  # carried state: bound outside the loop, changed inside it
  mutated = set(p.stores_in) | p.aug_in
  for n in p.in_loop:
    if isinstance(n, ast.Call) and isinstance(n.func, ast.Attribute) and n.func.attr in _MUTATORS:
      b = n.func.value
      while isinstance(b, (ast.Subscript, ast.Attribute)):
        b = b.value
      if isinstance(b, ast.Name):
        mutated.add(b.id)
    if isinstance(n, (ast.Subscript, ast.Attribute)) and isinstance(n.ctx, (ast.Store, ast.Del)):
      b = n
      while isinstance(b, (ast.Subscript, ast.Attribute)):
        b = b.value
      if isinstance(b, ast.Name):
        mutated.add(b.id)
  # once-bound aliases of a subscript (`entry = table[key]`)
  p.alias = {}
  for n in p.in_loop:
    if isinstance(n, ast.Assign) and len(n.targets) == 1 and isinstance(n.targets[0], ast.Name) \
        and isinstance(n.value, ast.Subscript) and isinstance(n.value.value, ast.Name):
      nm = n.targets[0].id
      if nm not in p.stores_out and len(p.stores_in.get(nm, [])) == 1:
        p.alias[nm] = n
  for nm, a in p.alias.items():
    if nm in mutated and isinstance(a.value.value, ast.Name):
      mutated.add(a.value.value.id)
  p.carried = {nm for nm in mutated if nm in p.stores_out}
  return p


def _resolve(p, e):
  """(base name, key name | None) of a list expression: `xs` / `table[k]`,
  through once-bound aliases of a table entry.  None: something else."""
  if isinstance(e, ast.Name) and e.id in p.alias:
    e = p.alias[e.id].value
  if isinstance(e, ast.Name):
    return (e.id, None)
  if isinstance(e, ast.Subscript) and isinstance(e.value, ast.Name) and isinstance(e.slice, ast.Name):
    return (e.value.id, e.slice.id)
  return None


def _for_binding(p, name, stmt):
  """The innermost enclosing `for <name> in ..` of stmt inside the node loop."""
  for a in _ancestors(p.parent, stmt, p.loop)[:-1]:
    if isinstance(a, ast.For) and isinstance(a.target, ast.Name) and a.target.id == name:
      return a
  return None


def _sites(p):
  """Propagation sites inside the node loop: (stmt, target, source, element loop)."""
  out = []
  for n in p.in_loop:
    tgt = source = eloop = None
    if isinstance(n, ast.Expr) and isinstance(n.value, ast.Call) \
        and isinstance(n.value.func, ast.Attribute) and len(n.value.args) == 1 \
        and not n.value.keywords:
      c = n.value
      if c.func.attr == "extend":
        tgt, source = _resolve(p, c.func.value), _resolve(p, c.args[0])
      elif c.func.attr == "append" and isinstance(c.args[0], ast.Name):
        eloop = _for_binding(p, c.args[0].id, n)
        if eloop is not None:
          tgt, source = _resolve(p, c.func.value), _resolve(p, eloop.iter)
    elif isinstance(n, ast.AugAssign) and isinstance(n.op, ast.Add):
      tgt, source = _resolve(p, n.target), _resolve(p, n.value)
    if tgt and source:
      out.append((n, tgt, source, eloop))
  return out


def _key_loop(p, key, stmt, over, what):
  """The `for key in <over>` loop around stmt; its traversal must be complete."""
  lp = _for_binding(p, key, stmt)
  if lp is None:
    return None, None
  it = lp.iter
  if isinstance(it, ast.Call) and isinstance(it.func, ast.Name) and it.func.id in _FULL_TRAVERSALS \
      and len(it.args) == 1 and not it.keywords:
    it = it.args[0]
  if isinstance(it, ast.Name):
    return lp, (None if it.id == over else "other")
  if isinstance(it, ast.Subscript) and isinstance(it.slice, ast.Slice) \
      and isinstance(it.value, ast.Name) and it.value.id == over:
    return lp, f"the loop over {what} traverses only the slice `{src(lp.iter)}`"
  return lp, "other"


def _breaks(lp):
  """`break` statements that leave loop `lp`."""
  out = []

  def walk(stmts, depth):
    for s in stmts:
      if isinstance(s, ast.Break) and depth == 0:
        out.append(s)
      inner = depth + (1 if isinstance(s, (ast.For, ast.While)) else 0)
      if isinstance(s, (ast.FunctionDef, ast.AsyncFunctionDef, ast.ClassDef)):
        continue
      for fld in ("body", "orelse", "finalbody"):
        blk = getattr(s, fld, None)
        if isinstance(blk, list) and blk and isinstance(blk[0], ast.stmt):
          walk(blk, depth if (fld == "orelse" and isinstance(s, (ast.For, ast.While))) else inner)
      for h in getattr(s, "handlers", []) or []:
        walk(h.body, inner)
      for c in getattr(s, "cases", []) or []:
        walk(c.body, inner)
  walk(lp.body, 0)
  return out


def _conj(test, pol):
  if isinstance(test, ast.BoolOp):
    if (isinstance(test.op, ast.And) and pol) or (isinstance(test.op, ast.Or) and not pol):
      for v in test.values:
        yield from _conj(v, pol)
      return
  if isinstance(test, ast.UnaryOp) and isinstance(test.op, ast.Not):
    yield from _conj(test.operand, not pol)
    return
  yield test, pol


def _fresh_dedup_container(p, name, elem, tgt):
  """`name` is created empty (or as a copy of the target) in this iteration and
  only ever gains the element being propagated."""
  if name in p.stores_out or len(p.stores_in.get(name, [])) != 1:
    return False
  st = p.parent[p.stores_in[name][0]]
  if not (isinstance(st, ast.Assign) and len(st.targets) == 1):
    return False
  v = st.value
  ok = (isinstance(v, (ast.List, ast.Set, ast.Dict)) and not (getattr(v, "elts", None) or
                                                             getattr(v, "keys", None))) or \
       (isinstance(v, ast.Call) and isinstance(v.func, ast.Name) and v.func.id in _FRESH
        and not v.keywords and (not v.args or (len(v.args) == 1 and _resolve(p, v.args[0]) == tgt)))
  if not ok:
    return False
  for n in p.in_loop:
    if isinstance(n, ast.Call) and isinstance(n.func, ast.Attribute) \
        and isinstance(n.func.value, ast.Name) and n.func.value.id == name \
        and n.func.attr in _MUTATORS:
      if n.func.attr not in ("add", "append") or len(n.args) != 1 \
          or not isinstance(n.args[0], ast.Name) or n.args[0].id != elem:
        return False
  return True


def _check_guards(p, stmt, tgt, eloop, table, shared):
  """None if the site's own path condition only de-duplicates / tests presence
  in the stub map; a reason if it reads carried state; AnalysisError else."""
  loopvars = set()
  for a in _ancestors(p.parent, stmt, p.loop)[:-1]:
    if isinstance(a, ast.For):
      loopvars |= flow.names_in(a.target)
    if isinstance(a, (ast.While, ast.Try, ast.With, ast.Match)):
      _err(f"`{src(stmt)}` sits in a `{type(a).__name__}` statement")
  elem = eloop.target.id if eloop is not None else None
  for test, pol in flow.guards(p.parent, stmt, stop=p.loop):
    if any(test is t and pol == q for t, q in shared):
      continue
    for t, q in _conj(test, pol):
      names = flow.names_in(t)
      mem = sorted((names & p.carried) - {table})
      if mem:
        return (f"the propagation is skipped depending on `{src(t)}`, which reads "
                f"{', '.join(mem)}: state created outside the node loop and changed inside it, "
                "so what one node receives depends on the nodes planned before it")
      if isinstance(t, ast.Compare) and len(t.ops) == 1 and isinstance(t.left, ast.Name) \
          and ((isinstance(t.ops[0], ast.NotIn) and q) or (isinstance(t.ops[0], ast.In) and not q)) \
          and elem is not None and t.left.id == elem:
        c = t.comparators[0]
        if _resolve(p, c) == tgt:
          continue
        if isinstance(c, ast.Name) and _fresh_dedup_container(p, c.id, elem, tgt):
          continue
      if names and names <= ({table} | loopvars) and table in names:
        continue          # presence / emptiness of a stub map entry
      _err(f"`{src(stmt)}` is conditional on `{src(t)}` (polarity {q}), which is neither a "
           "de-duplication test against the target / a container fresh in this iteration "
           "nor a presence test on the stub map")
  return None


def _precedes(p, a, b):
  """Statement a is executed before b in one iteration (lowest common block)."""
  ca = [a] + _ancestors(p.parent, a, p.loop)
  cb = [b] + _ancestors(p.parent, b, p.loop)
  for i, x in enumerate(ca[1:], 1):
    if x in cb:
      j = cb.index(x)
      ka, kb = ca[i - 1], cb[j - 1]
      for fld in ("body", "orelse", "finalbody"):
        blk = getattr(x, fld, None)
        if isinstance(blk, list) and ka in blk and kb in blk:
          return blk.index(ka) < blk.index(kb)
      _err("propagation and emit are in different arms of one statement")
  _err("no common block of propagation and emit")


@rule("R19.50", "C19", floor=5)
def r19_50(ctx):
  """Every node's emitted deps and stub-map entries receive all direct and stub-inherited source deps, unfiltered by state carried between nodes."""
  p = _build(ctx)
  line = lambda n: getattr(n, "lineno", p.fn.lineno)
  sites = _sites(p)
  # the stub map: the table that is both extended per stub and read per stub dep
  tables = {t[0] for _, t, s, _ in sites if t[1] is not None} | \
           {s[0] for _, t, s, _ in sites if s[1] is not None and t[0] == p.X}
  if len(tables) != 1:
    _err(f"the map from stubs to their source dependencies is not identified ({sorted(tables)})")
  table = tables.pop()

  # (0) the stub map lives across nodes
  inside = p.stores_in.get(table, [])
  outside = p.stores_out.get(table, [])
  if inside:
    ctx.bad(f"{FN}:stub-map", RUN, line(inside[0]),
            f"`{table}` is (re)bound inside the node loop: what a stub inherited when it was "
            "planned is gone when a later node depends on it", {"table": table})
  elif len(outside) != 1:
    _err(f"`{table}` is not bound exactly once before the node loop")
  else:
    ctx.ok(f"{FN}:stub-map", RUN, line(outside[0]),
           {"table": table, "carried": sorted(p.carried), "inlined": p.inlined})

  # (1) direct: the emitted list is the split of the node's own dependencies
  seen, todo = set(), [p.x_assign.value]
  while todo:
    e = todo.pop()
    for nm in flow.names_in(e):
      if nm in seen:
        continue
      seen.add(nm)
      for st in p.stores_in.get(nm, []):
        a = p.parent.get(st)
        while a is not None and not isinstance(a, (ast.stmt, ast.comprehension)):
          a = p.parent.get(a)
        if isinstance(a, ast.Assign):
          todo.append(a.value)
        elif isinstance(a, ast.comprehension):
          todo.append(a.iter)
  for nm in seen & p.carried - {table}:
    _err(f"the node's dependencies are computed from carried state `{nm}`")
  ctx.check(p.deps_var in seen, f"{FN}:direct", RUN, line(p.x_assign),
            f"the emitted dependency list `{p.X}` is not computed from the node's own "
            f"dependencies `{p.deps_var}`",
            {"deps": p.X, "from": src(p.x_assign.value), "reads": sorted(seen)})

  emit_guards = flow.guards(p.parent, p.emit_stmt, stop=p.loop)
  kinds = {"inherit": [], "stub-direct": [], "stub-transitive": []}
  for stmt, tgt, source, eloop in sites:
    if tgt == (p.X, None) and source[0] == table and source[1]:
      kinds["inherit"].append((stmt, tgt, source, eloop, [(source[1], p.SD, "the stub dependencies")]))
    elif tgt[0] == table and tgt[1] and source == (p.X, None):
      kinds["stub-direct"].append((stmt, tgt, source, eloop, [(tgt[1], p.ST, "the node's stubs")]))
    elif tgt[0] == table and tgt[1] and source[0] == table and source[1]:
      kinds["stub-transitive"].append((stmt, tgt, source, eloop,
                                       [(tgt[1], p.ST, "the node's stubs"),
                                        (source[1], p.SD, "the stub dependencies")]))
    elif tgt[0] in (p.X, table) or source[0] in (p.X, table):
      _err(f"`{src(stmt)}` moves dependencies in a way that is not one of the four propagations")
  for kind, found in kinds.items():
    if not found:
      _err(f"no statement of the node loop performs the `{kind}` propagation in an understood "
           "form (T.extend(E), T += E, for e in E: T.append(e))")
    for i, (stmt, tgt, source, eloop, keys) in enumerate(found):
      construct = f"{FN}:{kind}" + (f"#{i}" if i else "")
      reason = None
      loops = []
      for key, over, what in keys:
        lp, why = _key_loop(p, key, stmt, over, what)
        if lp is None or why == "other":
          _err(f"`{src(stmt)}`: `{key}` does not range over `{over}` ({what})")
        reason = reason or why
        loops.append(lp)
      if eloop is not None:
        loops.append(eloop)
      for lp in loops:
        if lp.orelse:
          _err("for/else around a propagation")
        brk = _breaks(lp)
        if brk and reason is None:
          reason = (f"the loop `for {src(lp.target)} in {src(lp.iter)}` can be left by `break` "
                    f"(line {brk[0].lineno}) before every element has been propagated")
      if reason is None:
        shared = emit_guards if kind == "inherit" else []
        if kind == "inherit" and p.alias.get(p.X) is not None:
          _err("emitted list is an alias")
        reason = _check_guards(p, stmt, tgt, eloop, table, shared)
      if reason is None and kind == "inherit":
        if not _precedes(p, stmt, p.emit_stmt):
          reason = (f"the pair is emitted before `{src(stmt)}`: the emitted tuple is a snapshot "
                    "that lacks the inherited dependencies")
      facts = {"site": src(stmt), "target": list(tgt), "source": list(source),
               "loops": [src(lp.iter) for lp in loops]}
      ctx.check(reason is None, construct, RUN, line(stmt), reason or "", facts)


# ------------------------------------------------------------------------------ R19.51

RESOLVE = "resolved_file_to_module"


def _expr_env(fn):
  """Once-bound locals of fn -> defining expression (tuple targets become
  `<value>[i]`)."""
  count, env = {}, {}
  for n in U.walk_scope(fn):
    if isinstance(n, ast.Name) and isinstance(n.ctx, (ast.Store, ast.Del)):
      count[n.id] = count.get(n.id, 0) + 1
  params = set(U.params_of(fn))
  for n in U.walk_scope(fn):
    if isinstance(n, ast.Assign) and len(n.targets) == 1:
      t = n.targets[0]
      if isinstance(t, ast.Name):
        env[t.id] = n.value
      elif isinstance(t, (ast.Tuple, ast.List)):
        for i, e in enumerate(t.elts):
          if isinstance(e, ast.Name):
            env[e.id] = ast.Subscript(value=n.value, slice=ast.Constant(value=i), ctx=ast.Load())
  return {k: v for k, v in env.items() if count.get(k) == 1 and k not in params}


class _Sub(ast.NodeTransformer):
  def __init__(self, env):
    self.env, self.depth = env, 0

  def visit_Name(self, node):
    if isinstance(node.ctx, ast.Load) and node.id in self.env and self.depth < 8:
      self.depth += 1
      import copy
      out = self.visit(copy.deepcopy(self.env[node.id]))
      self.depth -= 1
      return out
    return node


def _norm(fn, e, env):
  import copy
  return ast.fix_missing_locations(_Sub(env).visit(copy.deepcopy(e)))


def _classify_cut(e, S, T):
  """'end' if e is S with T cut off at the end; a reason string if e is a
  different, understood cut; None if not understood."""
  s = src
  is_s = lambda x: s(x) == S
  is_t = lambda x: s(x) == T
  len_of = lambda x, w: isinstance(x, ast.Call) and isinstance(x.func, ast.Name) and \
      x.func.id == "len" and len(x.args) == 1 and s(x.args[0]) == w
  meth = lambda x: x.func.attr if isinstance(x, ast.Call) and isinstance(x.func, ast.Attribute) \
      and is_s(x.func.value) else None
  idx = lambda x: x.slice.value if isinstance(x, ast.Subscript) and \
      isinstance(x.slice, ast.Constant) else None
  # S[:k]
  if isinstance(e, ast.Subscript) and is_s(e.value) and isinstance(e.slice, ast.Slice):
    sl = e.slice
    if sl.lower is not None and not (isinstance(sl.lower, ast.Constant) and sl.lower.value == 0) \
        or sl.step is not None or sl.upper is None:
      return f"`{s(e)}` is not a prefix of the full path"
    k = sl.upper
    if isinstance(k, ast.UnaryOp) and isinstance(k.op, ast.USub) and isinstance(k.operand, ast.Call):
      if len_of(k.operand, T):
        return "end"
      if len_of(k.operand, S):
        return None
      return (f"`{s(e)}` cuts off the length of `{s(k.operand)}`, which is not the length of "
              "the short path stored as the target")
    if isinstance(k, ast.BinOp) and isinstance(k.op, ast.Sub) and len_of(k.left, S):
      if len_of(k.right, T):
        return "end"
      return f"`{s(e)}` cuts off the length of something that is not the stored target"
    if len_of(k, T):
      return f"`{s(e)}` keeps the first len(target) characters instead of removing the last"
    m = meth(k)
    if m in ("rindex", "rfind") and k.args and is_t(k.args[0]) and len(k.args) == 1:
      return "end"
    if m in ("index", "find") and k.args and is_t(k.args[0]):
      return (f"`{s(e)}` cuts at the FIRST occurrence of the short path; when its text also "
              "occurs earlier in the full path the root is truncated")
    return None
  m = meth(e)
  if m == "removesuffix" and len(e.args) == 1 and is_t(e.args[0]):
    return "end"
  if m in ("replace",) and e.args and is_t(e.args[0]):
    return f"`{s(e)}` removes every occurrence of the short path's text, not the trailing one"
  if m in ("rstrip", "strip", "lstrip") and e.args and is_t(e.args[0]):
    return f"`{s(e)}` strips a character set, not the short path"
  if m == "removeprefix":
    return f"`{s(e)}` removes a prefix"
  if isinstance(e, ast.Subscript) and idx(e) is not None:
    inner, i = e.value, idx(e)
    mi = meth(inner)
    if mi in ("rpartition",) and len(inner.args) == 1 and is_t(inner.args[0]) and i == 0:
      return "end"
    if mi == "rsplit" and len(inner.args) == 2 and is_t(inner.args[0]) and \
        isinstance(inner.args[1], ast.Constant) and inner.args[1].value == 1 and i == 0:
      return "end"
    if mi in ("partition", "split") and inner.args and is_t(inner.args[0]) and i == 0:
      return (f"`{s(e)}` cuts at the FIRST occurrence of the short path; when its text also "
              "occurs earlier in the full path (a directory named like the file) the import "
              "root is truncated and path + target names a file that does not exist")
    if mi in ("partition", "split", "rpartition", "rsplit") and inner.args and is_t(inner.args[0]):
      return f"`{s(e)}` does not select the part before the short path"
  return None


@rule("R19.51", "C19", floor=3)
def r19_51(ctx):
  """A resolved file is split into Module(path, target) by cutting its short path off the END of its full path, so that join(path, target) is the file again."""
  mod = get_module(ctx, RUN)
  fn = mod.func(RESOLVE)
  params = U.params_of(fn)
  if len(params) != 1:
    raise AnalysisError(f"{RESOLVE}: expected one parameter (the resolved file)")
  f = params[0]
  calls = [c for c in ast.walk(fn) if isinstance(c, ast.Call)
           and (dotted(c.func) or "").split(".")[-1] == "Module"]
  if len(calls) != 1:
    raise AnalysisError(f"{RESOLVE}: expected exactly one Module(..) construction")
  call = calls[0]
  mu = get_module(ctx, MODUTILS)
  fields = [n.target.id for n in mu.cls("Module").body
            if isinstance(n, ast.AnnAssign) and isinstance(n.target, ast.Name)]
  if fields[:2] != ["path", "target"]:
    raise AnalysisError("module_utils.Module: fields no longer start with path, target")
  if any(isinstance(a, ast.Starred) for a in call.args) or any(k.arg is None for k in call.keywords):
    raise AnalysisError(f"{RESOLVE}: Module(..) built from * / ** arguments")
  given = dict(zip(fields, call.args))
  given.update({k.arg: k.value for k in call.keywords})
  if "path" not in given or "target" not in given:
    raise AnalysisError(f"{RESOLVE}: Module(..) without path / target")
  env = _expr_env(fn)
  path_e = _norm(fn, given["path"], env)
  target_e = _norm(fn, given["target"], env)
  S, T = f"{f}.path", f"{f}.short_path"

  # (a) the stored target is the resolved file's short path
  t_src = src(target_e)
  if t_src != T and not (isinstance(target_e, ast.Attribute) and src(target_e.value) == f):
    raise AnalysisError(f"{RESOLVE}: target `{t_src}` is not an attribute of the resolved file")
  ctx.check(t_src == T, f"{RESOLVE}:target", RUN, call.lineno,
            f"Module.target is `{t_src}`, not the short path the import root is cut by",
            {"target": t_src})

  # (b) the import root is the full path minus that suffix
  verdict = _classify_cut(path_e, S, T)
  if verdict is None:
    raise AnalysisError(
        f"{RESOLVE}: the import root `{src(path_e)}` is not an understood cut of `{S}` by "
        f"`{f}.short_path` (understood: S[:-len(T)], S[:len(S)-len(T)], removesuffix, "
        "rindex/rfind, rpartition, rsplit(T, 1); and their first-occurrence counterparts)")
  ctx.check(verdict == "end", f"{RESOLVE}:root", RUN, call.lineno,
            verdict if verdict != "end" else "", {"path": src(path_e), "full": S, "short": T})

  # (c) the recomposition used for the step's input
  fp = U.method(mu, "Module", "full_path")
  rets = [n for n in U.walk_scope(fp) if isinstance(n, ast.Return)]
  if len(rets) != 1 or rets[0].value is None:
    raise AnalysisError("Module.full_path: not a single return")
  v = rets[0].value
  parts = None
  if isinstance(v, ast.Call) and (dotted(v.func) or "").split(".")[-1] == "join" and not v.keywords:
    parts = [src(a) for a in v.args]
  elif isinstance(v, ast.BinOp) and isinstance(v.op, ast.Add):
    parts = [src(v.left), src(v.right)]
  if parts is None:
    raise AnalysisError(f"Module.full_path: `{src(v)}` is neither join(..) nor a concatenation")
  ctx.check(parts == ["self.path", "self.target"], "Module.full_path", MODUTILS, fp.lineno,
            f"full_path is composed of {parts}, not of (path, target)", {"parts": parts})


# ------------------------------------------------------------------------------ variants

_INHERIT_OLD = """      for stub in stub_deps:
        source_deps.extend(stubs_to_source_deps[stub])
      modules.append((tuple(sources), tuple(source_deps)))
"""
_STUBS_OLD = """    for stub in stubs:
      stubs_to_source_deps[stub].extend(source_deps)
      for stub_dep in stub_deps:
        stubs_to_source_deps[stub].extend(stubs_to_source_deps[stub_dep])
"""
_MAP_OLD = """  stubs_to_source_deps = collections.defaultdict(list)
  modules = []  # final output
"""
_CUT_OLD = "  path = full_path[:-len(target)]\n"

VARIANTS = [
    # R19.50 must fire
    {"name": "r19_50-stub-transitive-once-per-project", "rule": "R19.50", "file": RUN,
     "edits": [(RUN, _MAP_OLD, _MAP_OLD + "  expanded = set()\n"),
               (RUN, _STUBS_OLD, """    for stub in stubs:
      stubs_to_source_deps[stub].extend(source_deps)
      for stub_dep in stub_deps:
        if stub_dep in expanded:
          continue
        expanded.add(stub_dep)
        stubs_to_source_deps[stub].extend(stubs_to_source_deps[stub_dep])
""")], "expect": "fire"},
    {"name": "r19_50-inherit-first-stub-only", "rule": "R19.50", "file": RUN,
     "old": _INHERIT_OLD, "new": """      for stub in stub_deps:
        source_deps.extend(stubs_to_source_deps[stub])
        break
      modules.append((tuple(sources), tuple(source_deps)))
""", "expect": "fire"},
    {"name": "r19_50-emit-before-inherit", "rule": "R19.50", "file": RUN,
     "old": _INHERIT_OLD, "new": """      modules.append((tuple(sources), tuple(source_deps)))
      for stub in stub_deps:
        source_deps.extend(stubs_to_source_deps[stub])
""", "expect": "fire"},
    {"name": "r19_50-stub-map-per-node", "rule": "R19.50", "file": RUN,
     "edits": [(RUN, "  stubs_to_source_deps = collections.defaultdict(list)\n", ""),
               (RUN, "    stubs, sources = split_files(_get_filenames(node))\n",
                "    stubs, sources = split_files(_get_filenames(node))\n"
                "    stubs_to_source_deps = collections.defaultdict(list)\n")],
     "expect": "fire"},
    {"name": "r19_50-budget-counter", "rule": "R19.50", "file": RUN,
     "edits": [(RUN, _MAP_OLD, _MAP_OLD + "  budget = [1000]\n"),
               (RUN, _INHERIT_OLD, """      for stub in stub_deps:
        if budget[0] > 0:
          budget[0] -= 1
          source_deps.extend(stubs_to_source_deps[stub])
      modules.append((tuple(sources), tuple(source_deps)))
""")], "expect": "fire"},
    # R19.50 twins
    {"name": "twin-r19_50-dedup-per-node", "rule": "R19.50", "file": RUN,
     "old": _INHERIT_OLD, "new": """      listed = set(source_deps)
      for stub in stub_deps:
        for dep in stubs_to_source_deps[stub]:
          if dep not in listed:
            listed.add(dep)
            source_deps.append(dep)
      modules.append((tuple(sources), tuple(source_deps)))
""", "expect": "silent"},
    {"name": "twin-r19_50-helper-and-alias", "rule": "R19.50", "file": RUN,
     "edits": [(RUN, "def deps_from_import_graph(import_graph):\n", """def _record(table, own_stubs, dep_stubs, dep_sources):
  for s in own_stubs:
    entry = table[s]
    entry += dep_sources
    for d in dep_stubs:
      entry.extend(table[d])


def deps_from_import_graph(import_graph):
"""), (RUN, _STUBS_OLD, "    _record(stubs_to_source_deps, stubs, stub_deps, source_deps)\n")],
     "expect": "silent"},
    {"name": "twin-r19_50-renamed-guard-clause", "rule": "R19.50", "file": RUN,
     "old": """    if sources:
      # Typeshed's third-party stubs may have dependencies on external packages.
      # Any source files that depend on these stubs inherit their dependencies.
""" + _INHERIT_OLD, "new": """    if not sources:
      continue
    for pyi in sorted(stub_deps):
      source_deps += stubs_to_source_deps[pyi]
    modules.append((tuple(sources), tuple(source_deps)))
""", "expect": "silent"},
    # R19.51 must fire
    {"name": "r19_51-find-first-occurrence", "rule": "R19.51", "file": RUN,
     "old": _CUT_OLD, "new": "  path = full_path[:full_path.find(target)]\n", "expect": "fire"},
    {"name": "r19_51-replace-all", "rule": "R19.51", "file": RUN,
     "old": _CUT_OLD, "new": "  path = full_path.replace(target, '')\n", "expect": "fire"},
    {"name": "r19_51-cut-by-other-length", "rule": "R19.51", "file": RUN,
     "old": _CUT_OLD, "new": "  path = full_path[:-len(path_utils.basename(full_path))]\n",
     "expect": "fire"},
    {"name": "r19_51-target-is-basename-attr", "rule": "R19.51", "file": RUN,
     "old": "  target = f.short_path\n  path = full_path[:-len(target)]\n",
     "new": "  target = f.short_path\n  path = full_path[:-len(target)]\n  target = f.module_name\n",
     "expect": "error"},
    # R19.51 twins
    {"name": "twin-r19_51-explicit-length", "rule": "R19.51", "file": RUN,
     "old": _CUT_OLD, "new": "  path = full_path[:len(full_path) - len(target)]\n",
     "expect": "silent"},
    {"name": "twin-r19_51-inline-rpartition", "rule": "R19.51", "file": RUN,
     "edits": [(RUN, "  full_path = f.path\n  target = f.short_path\n" + _CUT_OLD,
                "  full_path = f.path\n  root, _, short = f.path.rpartition(f.short_path)\n"),
               (RUN, "      path=path, target=target, name=name, kind=f.__class__.__name__)",
                "      root, f.short_path, name=name, kind=f.__class__.__name__)")],
     "expect": "silent"},
    {"name": "twin-r19_51-removesuffix", "rule": "R19.51", "file": RUN,
     "old": _CUT_OLD, "new": "  path = full_path.removesuffix(target)\n", "expect": "silent"},
]
