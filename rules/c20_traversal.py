"""C20 extension: the Any/Never stub filter visits every annotated node.

libcst's transformer protocol: `visit_X(node)` returning False means "do not
visit the children of this X" (None counts as True); `on_visit` is the generic
hook behind it.  RemoveAnyNeverTransformer does its work in leave_FunctionDef /
leave_AnnAssign, so a pruned subtree keeps its `-> Any` / `x: Never`
annotations and libcst then merges them into the source.

R20.20: in RemoveAnyNeverTransformer and every base class it has inside
merge_pyi.py, a `visit_X` override for a node class X that can (transitively,
by the libcst field declarations, not descending below the node classes whose
children libcst's own stub reader TypeCollector skips: today FunctionDef)
contain a FunctionDef or an AnnAssign must return True/None on every path; `on_visit` / `on_visit_attribute` may not be
overridden at all.  A `return False` or a computed return value is a
violation: the subtree of such an X is not filtered.
"""
import ast

from sa.core import rule, AnalysisError
from sa.pyindex import dotted, src, try_fold, walk_no_nested
from sa import flow
from rules import c20 as base

MP = base.MP
_CARRIERS = ("FunctionDef", "AnnAssign")   # nodes with a return/variable annotation
_SENTINEL = object()


def _collector_cuts(model):
  """Node classes below which libcst's own stub reader (TypeCollector in
  codemod/visitors/_apply_type_annotations.py) never looks: its visit_X
  returns False on every path.  Annotations there are never merged, so the
  filter need not reach them either."""
  import os
  path = os.path.join(model.root, "codemod", "visitors", "_apply_type_annotations.py")
  try:
    with open(path, encoding="utf-8") as f:
      tree = ast.parse(f.read())
  except (OSError, SyntaxError) as e:
    raise AnalysisError(f"libcst reference {path}: {e}") from e
  cls = [c for c in tree.body if isinstance(c, ast.ClassDef) and c.name == "TypeCollector"]
  if len(cls) != 1:
    raise AnalysisError("libcst reference: class TypeCollector not found")
  cuts = set()
  for st in cls[0].body:
    if isinstance(st, ast.FunctionDef) and st.name.startswith("visit_") and \
        st.name[6:] in model.classes:
      rets = _return_values(st)
      if rets and all(v is not None and isinstance(v, ast.Constant) and v.value is False
                      for _, v in rets):
        cuts.add(st.name[6:])
  return cuts


def _containers(model):
  """libcst node classes whose subtree can contain a FunctionDef/AnnAssign
  that libcst's stub reader gets to see."""
  cuts = _collector_cuts(model)

  def atoms(ts, out):
    for a in ts:
      if isinstance(a, tuple):
        atoms(a[1], out)
      elif isinstance(a, str) and a in model.classes:
        out.update(model.cone(a))
  child = {}
  for name in model.classes:
    kids = set()
    if name not in cuts:
      for c in model.mro_names(name):
        for ann in model.classes[c]["fields"].values():
          atoms(model.typeset(ann), kids)
    child[name] = kids
  reach = set(_CARRIERS)
  changed = True
  while changed:
    changed = False
    for name, kids in child.items():
      if name not in reach and kids & reach:
        reach.add(name)
        changed = True
  # a carrier is in `reach` as a carrier; is it also a container?
  containers = {n for n in reach if child[n] & reach}
  return containers, cuts


def _return_values(fn):
  """[(Return node | None for falling off the end, value expr | None)]."""
  out = [(r, r.value) for r in walk_no_nested(fn) if isinstance(r, ast.Return)]
  ex = flow.flow(fn, lambda u: ()).exits
  if any(k == "end" for k, _, _ in ex):
    out.append((None, None))
  return out


@rule("R20.20", "C20", floor=2)
def r20_20(ctx):
  """No visit_* override of the Any/Never filter prunes a subtree that can
  hold a return or variable annotation."""
  m = base._model(ctx)
  mod, model = m.mod, base._cst(ctx)
  reach, cuts = _containers(model)
  need = {"Module", "ClassDef", "IndentedBlock", "SimpleStatementLine", "If"}
  ctx.check(need <= reach, "libcst-reference:containers-of-annotated-nodes", MP, 0,
            f"the libcst field declarations no longer say that {sorted(need - reach)} "
            "can contain a FunctionDef/AnnAssign: reference model broken",
            {"containers": len(reach), "sample": sorted(reach)[:12],
             "stub_reader_never_descends_into": sorted(cuts)})
  chain = base._local_mro(mod, base._ANY_FILTER)
  for cname in chain:
    overrides, pruned = [], []
    for mname, fn in sorted(mod.methods(cname).items()):
      if mname in ("on_visit", "on_visit_attribute"):
        pruned.append((fn, mname, "overrides libcst's generic visit hook: every "
                       "node kind goes through it"))
        continue
      if not mname.startswith("visit_"):
        continue
      X = mname[len("visit_"):]
      if X not in model.classes:
        # visit_X_attr hooks of libcst (`visit_ClassDef_body`) return None
        if any(X.startswith(k + "_") for k in model.classes):
          continue
        raise AnalysisError(f"{cname}.{mname}: libcst has no node class {X}")
      overrides.append(mname)
      if X not in reach:
        continue   # nothing with an annotation of its own below such a node
      for r, v in _return_values(fn):
        if v is None:
          continue   # None counts as True
        val = try_fold(v, mod=mod, default=_SENTINEL)
        if val is not _SENTINEL:
          if val is True or val is None:
            continue
          if not val:
            pruned.append((r, mname, f"returns {src(v)}: the children of every {X} "
                           "are skipped"))
            continue
          continue   # a truthy constant
        pruned.append((r, mname, f"returns the computed value `{src(v)[:60]}`: the "
                       f"children of an {X} for which it is false are skipped"))
    construct = f"{cname}:visits-every-annotated-node"
    if not pruned:
      ctx.ok(construct, MP, mod.cls(cname).lineno,
             {"visit_overrides": overrides, "mro_in_module": chain})
    for node, mname, why in pruned:
      ctx.bad(f"{construct}:{mname}", MP, getattr(node, "lineno", mod.cls(cname).lineno),
              f"{cname}.{mname} {why}; FunctionDef/AnnAssign nodes below it never "
              f"reach {base._ANY_FILTER}'s leave_FunctionDef/leave_AnnAssign, so "
              "their bare `Any`/`Never` annotations stay in the stub and are "
              "merged into the source",
              {"method": mname, "class": cname})


_CLS = "class RemoveAnyNeverTransformer(cst.CSTTransformer):\n"
_DOC_END = ("  effect that all downstream code starts to get treated as unreachable.\n"
            "  \"\"\"\n")

VARIANTS = [
    {"name": "seeded-C20-r2m1", "rule": "R20.20", "patch": "seeded/C20-r2m1/patch.diff",
     "expect": "fire"},
    {"name": "filter-skips-class-bodies", "rule": "R20.20", "file": MP,
     "expect": "fire", "old": _DOC_END,
     "new": _DOC_END + "\n  def visit_IndentedBlock(self, node: cst.IndentedBlock) -> bool:\n"
            "    # stubs have no nested functions\n    return False\n"},
    {"name": "twin-filter-skips-function-bodies-like-libcst-does", "rule": "R20.20", "file": MP,
     "expect": "silent", "old": _DOC_END,
     "new": _DOC_END + "\n  def visit_FunctionDef(self, node: cst.FunctionDef) -> bool:\n"
            "    # stubs have no nested functions; libcst does not read them either\n"
            "    return False\n"},
    {"name": "filter-skips-private-classes-via-on_visit", "rule": "R20.20", "file": MP,
     "expect": "fire", "old": _DOC_END,
     "new": _DOC_END + "\n  def on_visit(self, node: cst.CSTNode) -> bool:\n"
            "    if isinstance(node, cst.ClassDef) and node.name.value.startswith(\"_\"):\n"
            "      return False\n    return super().on_visit(node)\n"},
    {"name": "filter-skips-else-branches", "rule": "R20.20", "file": MP,
     "expect": "fire", "old": _DOC_END,
     "new": _DOC_END + "\n  def visit_If(self, node: cst.If) -> bool | None:\n"
            "    if node.orelse is None:\n      return None\n    return bool(self._depth)\n"},
    {"name": "twin-filter-counts-classes-and-keeps-visiting", "rule": "R20.20", "file": MP,
     "expect": "silent", "old": _DOC_END,
     "new": _DOC_END + "\n  def visit_ClassDef(self, node: cst.ClassDef) -> bool:\n"
            "    self._classes_seen = getattr(self, \"_classes_seen\", 0) + 1\n"
            "    return True\n"},
    {"name": "twin-filter-prunes-annotation-free-nodes", "rule": "R20.20", "file": MP,
     "expect": "silent", "old": _DOC_END,
     "new": _DOC_END + "\n  def visit_Import(self, node: cst.Import) -> bool:\n"
            "    return False\n\n"
            "  def visit_ClassDef(self, node: cst.ClassDef) -> None:\n"
            "    pass\n"},
    {"name": "twin-common-base-without-pruning", "rule": "R20.20", "expect": "silent",
     "edits": [
         (MP, _CLS, "class _StubFilter(cst.CSTTransformer):\n"
          "  \"\"\"Base class of the transformers that drop annotations from the stub.\"\"\"\n\n"
          "  def visit_ClassDef(self, node: cst.ClassDef) -> bool:\n"
          "    return True\n\n\n"
          "class RemoveAnyNeverTransformer(_StubFilter):\n"),
         (MP, "class RemoveTrivialTypesTransformer(cst.CSTTransformer):\n",
          "class RemoveTrivialTypesTransformer(_StubFilter):\n")]},
]
