"""C15 - any compilable source is analysed to a result.

Decides: opcode dispatch exhaustiveness (per supported bytecode version), the
compile-error chain of io.check_or_generate_pyi, the compiler sub-process
protocol, operand-slot access in the byte_* handlers, the opcode constructor
protocol and the function-call error dispatcher.  Does NOT decide the absence
of internal exceptions in general (unbounded).
"""
import ast
import copy
import builtins
import re

from sa.core import rule, AnalysisError
from sa.pyindex import get_module, dotted, src, calls_in, fold, try_fold, \
    all_py_files, Unfoldable, walk_no_nested
from sa import flow

from rules import _opcodes as O
from rules import _util_c16c19 as U
from refs import opcode_refs as REF

EXPLANATION = (
    "Static necessary conditions for 'analysis of a compilable source ends in "
    "a result, never in an internal exception', read from the AST of "
    "pyc/opcodes.py, vm.py, vm_utils.py, io.py, pyc/compiler.py, "
    "pyc/compile_bytecode.py, pyc/pyc.py, constant_folding.py, "
    "blocks/process_blocks.py, errors/errors.py and errors/error_types.py, "
    "with pycnite's opcode tables (3.8-3.12) as the reference enumeration of "
    "what a .pyc can contain.  R15.1: every opcode name of every version has "
    "a class in opcodes.py (found by the globals() lookup of _make_opcodes) "
    "and the class it resolves to through for_python_version has a "
    "VirtualMachine handler named by run_instruction's getattr dispatch "
    "(`getattr(self, f'<prefix>{op.name}')` in run_instruction itself or in a "
    "method of the VirtualMachine it calls with the opcode, two levels; "
    "EXTENDED_ARG, never yielded by the reader, is the listed exception); "
    "synthetic opcodes built by pytype itself are included.  R15.2 "
    "(check_or_generate_pyi is read with the module-level helpers it delegates "
    "to inlined - statement calls, `x = f(..)` with one trailing return, tail "
    "calls; check_py / generate_pyi stay calls): the first "
    "handler of check_or_generate_pyi's try that catches CompileError / "
    "ConstantError / IndentationError / SyntaxError builds the 3-tuple "
    "consumed by errorlog.python_compiler_error from attributes those "
    "exceptions really have; UsageError is re-raised; no handler with a "
    "different body is dead behind an earlier superclass handler.  R15.3: "
    "the status byte compile_bytecode writes for success / failure makes the "
    "reader in compiler.py return <buf>[1:] / raise CompileError: the tail of "
    "compile_src_string_to_pyc_string from the read of <buf>[0] is evaluated "
    "for concrete status values (tests ==, !=, in, not in, and/or/not over the "
    "status and constants; if/elif chains and guard clauses alike; any other "
    "test is an analysis error); _COMPILE_ERROR_RE parses what "
    "str(SyntaxError) produces (host CPython) and CompileError takes error / "
    "filename / line from groups 1/2/3 (group(k) calls or names unpacked from "
    "match.groups()); the sub-process argv has the length and order main() "
    "expects.  R15.4/R15.7: `op.arg`/`op.argval` is only read where the "
    "opcode class has the slot (HAS_ARGUMENT), including reads reached through "
    "helper methods, vm_utils helpers and isinstance-guarded reads in other "
    "modules.  R15.5: every concrete FailedFunctionCall/DictKeyMissing "
    "subclass reaches an arm of errors.invalid_function_call before its "
    "`raise AssertionError`.  R15.6: HAS_ARGUMENT <=> OpcodeWithArg base, and "
    "every constructor call passes a number of arguments __init__ accepts.  "
    "R15.8: every handler takes (state, op) - as many arguments as the call "
    "of the looked-up handler (or of a plain copy of it) in run_instruction "
    "passes - and returns a state on every path.  R15.10: for every attribute that vm.py / vm_utils.py / "
    "pattern_matching.py hand to len(), iteration, subscripting, `in` or "
    "*-unpacking as `<x>.attr` with no test of `<x>.attr` on the path (nor "
    "earlier in the same and/if-else expression), every `<recv>.attr = RHS` "
    "in pytype/abstract/ and pytype/overlays/ is checked: the RHS is "
    "classified nonnull / nullable / unknown (None literal, `a or b` by its "
    "last operand, if-else arms, locals through reaching definitions incl. a "
    "`= None` initialisation that a loop may not overwrite, None-default "
    "parameters, getattr(.., None), and `self.m()` through the returns of "
    "the method found along the class's bases); a definitely nullable "
    "assignment to `self.attr` that can still be in force when the method "
    "ends (may-flow) and is not followed by `if self.attr is None: <assign "
    "or leave>` is a violation, unknown never is.  Attributes are matched by "
    "name only (consumer and assignment may belong to different classes).  "
    "R15.11: every `.splitlines()`, `.split('\\n')` and re.split call of the "
    "package (non-test) is classified by what indexes its result (directly, "
    "through the local or the self attribute it is bound to): a "
    "splitlines() list indexed by a computed position is a violation unless "
    "triaged (two .pyi-text sites), because splitlines also cuts at \\x0b "
    "\\x0c \\x1c-\\x1e \\x85 \\u2028 \\u2029, which CPython's tokenizer keeps "
    "inside a line; in the modules that handle the analysed source "
    "(preprocess, directors/, errors/, blocks/, pyc/, vm, io) a "
    "split('\\n') list indexed by position must be cut from text whose "
    "\\r\\n / \\r were rewritten to \\n first (or by a re.split on all three "
    "line ends), since CPython numbers lines at \\r\\n and lone \\r too.  "
    "R15.20/R15.21 (rules/c15_folding.py): hashing a folded constant's value "
    "is covered by a TypeError handler; `.__name__` of a type component only "
    "under tag 'prim'.  R15.22 (same file): constant_folding's value-or-type "
    "router (found by its dataflow role: returns constant_to_var(<p>.value) on "
    "one exit, passes <p> on to build_folded_type on another; today "
    "build_pyval) is *evaluated* with rules/_peval.py for falsy and truthy, "
    "flat and nested tuple constants under both tags such a constant can "
    "carry ('tuple' from LOAD_CONST, 'prim' after LIST_EXTEND re-tags the "
    "elements of a constant tuple): every constant that carries a value must "
    "leave through the value route, because the `typ`/`elements` of raw code "
    "constants are not canonical (the producers are located each run; if none "
    "is left the premise is gone -> analysis error).  Truthiness instead of "
    "`is not None`, or dropping 'tuple' from the routed tags, is a violation "
    "(`[(), (1,), (1, 2)]` -> KeyError).  R15.23 "
    "(rules/c15_directive_order.py): _LineSet.start_range raises an uncaught "
    "ValueError for a line below the last transition (self._transitions[-1], "
    "also when read through a once-bound local alias of the list); "
    "Director._parse_src_tree feeds it "
    "comment.line in the iteration order of visitor.structured_comment_groups "
    "and of each group; so the parser's ordered dict and every merged group "
    "must stay ascending: the direction (ascending/descending relative to the "
    "dict) of the key lists of _add_structured_comment_group is tracked "
    "through reversed()/append/insert(0)/.reverse()/[::-1]/sorted(key=start "
    "line) and both consuming loops (move_to_end, extend) must run ascending; "
    "the seed must follow the raw comments' order.  Blind spots of R15.23: "
    "*which* keys are collected (completeness of keys_to_move), that comments "
    "inside one seeded group are ascending, and that tokenize delivers "
    "comments by ascending line are not checked.  Blind spot of R15.22: scalar "
    "constants sent down the type route only lose their literal value (no "
    "crash), so they are not required; other consumers of non-canonical "
    "constants than the router are not searched.  A further folding rule "
    "(rules/pending_c15_elements_kind.py, not loaded) currently reports a "
    "genuine pytype defect (`x = [*{1: 2}]` -> TypeError in the LIST_EXTEND "
    "arm) and waits for the fix.  Not "
    "decided: exceptions raised inside handlers for reasons other "
    "than these (the abstract interpreter is not bounded by a static "
    "argument).")
ASSUMPTIONS = [
    "pycnite.mapping.get_mapping(v) for v in 3.8..3.12 enumerates every opcode "
    "name a .pyc of that version can contain; pycnite.bytecode never yields "
    "EXTENDED_ARG",
    "exception classes from outside the repository and the builtins "
    "(libcst.ParserSyntaxError) derive directly from Exception",
    "str(SyntaxError) of the host CPython 3.12 has the same '<msg> (<file>, "
    "line <n>)' shape in every supported target version",
    "helpers are followed two call levels deep (self.*, vm_utils.*); operand "
    "reads through other aliases of `op` are not seen",
    "R15.10: len(None), iterating None and None[i] raise TypeError; a method "
    "that can fall off its end or `return None` is None-able; attributes "
    "assigned outside abstract/ and overlays/ (or through setattr) are not "
    "seen",
    "R15.11: CPython ends a source line at \\n, \\r\\n and \\r only; "
    "str.splitlines() additionally at \\x0b \\x0c \\x1c \\x1d \\x1e \\x85 "
    "\\u2028 \\u2029; callers of preprocess.augment_annotations do not "
    "normalise newlines (io.generate_pyi passes the caller's string through); "
    "line lists passed on through a call or an alias are not followed; "
    "errors.Error locates lines by scanning for '\\n' itself (no list) and is "
    "not covered",
    "R15.22: rules/_peval.py evaluates the router's tests on host sample "
    "values; _Constant.tag is the property `typ[0]`; state the test does not "
    "read (ctx, state) is unknown and must not decide the route",
    "R15.23: OrderedDict/dict iterate in insertion order, move_to_end(k) "
    "re-appends k; groups of base LineRanges do not overlap, so ascending "
    "start lines imply ascending comment lines across groups; a ValueError "
    "raised under Director.__init__ is not caught before io's generic handler",
]

VM = O.VM
OPC = O.OPCODES
IO = "pytype/io.py"
COMPILER = "pytype/pyc/compiler.py"
COMPILE_BC = "pytype/pyc/compile_bytecode.py"
ERRORS = "pytype/errors/errors.py"
ERROR_TYPES = "pytype/errors/error_types.py"
CONST_FOLD = "pytype/constant_folding.py"
PROCESS_BLOCKS = "pytype/blocks/process_blocks.py"


def _pycnite_names(version):
  from pycnite import mapping  # reference table, not pytype code
  try:
    m = mapping.get_mapping(version)
  except Exception as e:  # pylint: disable=broad-except
    raise AnalysisError(f"pycnite has no opcode mapping for {version}: {e}") from e
  return m


def _handlers(ctx):
  prefix = U.dispatch_prefix(ctx)
  methods, external = O.vm_methods(ctx)
  if external:
    raise AnalysisError(
        f"{VM}: VirtualMachine has bases defined outside vm.py ({external}); "
        "handlers there are not visible to this analysis")
  return prefix, methods


def _synthetic_sites(ctx, tab):
  """(class name, call node, file) for opcodes constructed by pytype itself."""
  out = []
  mod = tab.mod
  for n in ast.walk(mod.tree):
    if isinstance(n, ast.Call) and isinstance(n.func, ast.Name) and \
        n.func.id in tab.class_nodes and (
            n.func.id in tab.opcode_classes or n.func.id in (O.ROOT, O.ARG_ROOT)):
      out.append((n.func.id, n, OPC))
  cf = get_module(ctx, CONST_FOLD)
  for n in ast.walk(cf.tree):
    if isinstance(n, ast.Call):
      names = O.class_names(ctx, cf, n.func)
      if names and len(names) == 1:
        out.append((next(iter(names)), n, CONST_FOLD))
  return out


# -- R15.1 ------------------------------------------------------------------------

@rule("R15.1", "C15", floor=590)
def r15_1(ctx):
  """Every opcode of every version has a class and a dispatch target."""
  tab = O.opcode_table(ctx)
  prefix, methods = _handlers(ctx)
  # the name -> class lookup of _make_opcodes
  mk = tab.mod.func("_make_opcodes")
  gname = None
  for st in ast.walk(mk):
    if isinstance(st, ast.Assign) and isinstance(st.value, ast.Call) and \
        dotted(st.value.func) == "globals" and len(st.targets) == 1 and \
        isinstance(st.targets[0], ast.Name):
      gname = st.targets[0].id
  looked = []
  for c in calls_in(mk):
    f = c.func
    if isinstance(f, ast.Attribute) and f.attr == "for_python_version" and \
        isinstance(f.value, ast.Subscript):
      base = f.value.value
      is_globals = (isinstance(base, ast.Name) and base.id == gname) or (
          isinstance(base, ast.Call) and dotted(base.func) == "globals")
      key = dotted(f.value.slice)
      looked.append((is_globals, key, len(c.args)))
  if len(looked) != 1:
    raise AnalysisError(
        f"{OPC}: _make_opcodes no longer looks classes up as "
        "`globals()[op.name].for_python_version(version)`")
  is_globals, key, nargs = looked[0]
  ctx.check(is_globals and key is not None and key.endswith(".name") and nargs == 1,
            "lookup:_make_opcodes", OPC, mk.lineno,
            "_make_opcodes must look the class up by opcode name in this "
            "module's globals and specialise it with for_python_version",
            {"globals": is_globals, "key": key})
  for version in O.VERSIONS:
    names = sorted(set(_pycnite_names(version).values()))
    if len(names) < 100:
      raise AnalysisError(f"pycnite mapping for {version} has only {len(names)} names")
    vs = f"{version[0]}.{version[1]}"
    for name in names:
      construct = f"{name}@{vs}"
      if name not in tab.class_nodes or name not in tab.opcode_classes:
        ctx.bad(construct, OPC, 0,
                f"opcode {name} of Python {vs} has no class in opcodes.py: "
                "_make_opcodes raises KeyError on the first such instruction",
                {"version": vs})
        continue
      oc = tab.resolve(name, version)
      hname = prefix + oc.name
      facts = {"class_line": oc.line, "handler": hname}
      if hname in methods:
        facts["handler_line"] = methods[hname].lineno
        ctx.ok(construct, VM, methods[hname].lineno, facts)
      elif name in REF.NEVER_YIELDED:
        facts["exception"] = "folded into the next instruction by the reader"
        ctx.ok(construct, OPC, oc.line, facts)
      else:
        ctx.bad(construct, VM, 0,
                f"no VirtualMachine.{hname}: run_instruction raises "
                f"VirtualMachineError('Unknown opcode') for Python {vs} code "
                f"containing {name}", facts)
  seen = set()
  for cname, call, rel in _synthetic_sites(ctx, tab):
    if cname in (O.ROOT, O.ARG_ROOT) or cname in seen:
      continue
    seen.add(cname)
    for version in O.VERSIONS[-1:]:
      oc = tab.resolve(cname, version)
      hname = prefix + oc.name
      ctx.check(hname in methods, f"synthetic:{cname}", rel, call.lineno,
                f"{cname} instances are created by pytype itself but there is "
                f"no VirtualMachine.{hname}", {"created_in": rel, "handler": hname})


# -- R15.2 ------------------------------------------------------------------------

def _module_file(ctx, dotted_mod):
  rel = dotted_mod.replace(".", "/") + ".py"
  return rel if ctx.exists(rel) else None


def _resolve_exc(ctx, mod, expr, depth=0):
  """-> (ident, ancestors(set of idents incl. self), classinfo|None).

  ident: builtin name, 'rel:Class' for repo classes, 'ext:dotted' otherwise.
  classinfo for repo classes: (PyModule, ClassDef); for builtins the class.
  """
  if depth > 6:
    raise AnalysisError("exception alias chain too deep")
  d = dotted(expr)
  if d is None:
    raise AnalysisError(f"{mod.rel}: exception type `{src(expr)}` is computed")
  parts = d.split(".")
  if len(parts) == 1:
    name = parts[0]
    if name in mod.classes:
      return _class_exc(ctx, mod, mod.classes[name], depth)
    if name in mod.assigns:
      return _resolve_exc(ctx, mod, mod.assigns[name], depth + 1)
    if name in mod.imports:
      tgt = mod.imports[name]
      if "." in tgt:
        m, n = tgt.rsplit(".", 1)
        rel = _module_file(ctx, m)
        if rel:
          other = get_module(ctx, rel)
          return _resolve_exc(ctx, other, ast.Name(id=n, ctx=ast.Load()), depth + 1)
      return f"ext:{tgt}", {f"ext:{tgt}", "Exception", "BaseException", "object"}, None
    cls = getattr(builtins, name, None)
    if isinstance(cls, type) and issubclass(cls, BaseException):
      return name, {c.__name__ for c in cls.__mro__}, cls
    raise AnalysisError(f"{mod.rel}: exception type {name} not resolved")
  alias, attr = parts[0], parts[-1]
  tgt = mod.imports.get(alias)
  if tgt is None:
    raise AnalysisError(f"{mod.rel}: `{d}`: {alias} is not an imported module")
  full = ".".join([tgt] + parts[1:-1])
  rel = _module_file(ctx, full)
  if rel is None:
    ident = f"ext:{full}.{attr}"
    return ident, {ident, "Exception", "BaseException", "object"}, None
  other = get_module(ctx, rel)
  return _resolve_exc(ctx, other, ast.Name(id=attr, ctx=ast.Load()), depth + 1)


def _class_exc(ctx, mod, node, depth):
  ident = f"{mod.rel}:{node.name}"
  anc = {ident}
  for b in node.bases:
    _, a, _ = _resolve_exc(ctx, mod, b, depth + 1)
    anc |= a
  return ident, anc, (mod, node)


def _self_attrs_always_set(ctx, mod, node, depth=0):
  """Attributes of `self` definitely assigned by __init__ (must analysis)."""
  init = None
  for st in node.body:
    if isinstance(st, ast.FunctionDef) and st.name == "__init__":
      init = st
  out = set()
  for st in node.body:
    if isinstance(st, ast.Assign):
      out |= {t.id for t in st.targets if isinstance(t, ast.Name)}
    elif isinstance(st, ast.AnnAssign) and isinstance(st.target, ast.Name) \
        and st.value is not None:
      out.add(st.target.id)
  if init is not None:
    selfname = init.args.args[0].arg

    def gen(unit):
      facts = []
      if isinstance(unit, (ast.Assign, ast.AnnAssign, ast.AugAssign)):
        targets = unit.targets if isinstance(unit, ast.Assign) else [unit.target]
        for t in targets:
          for e in ([t] if not isinstance(t, ast.Tuple) else t.elts):
            if isinstance(e, ast.Attribute) and isinstance(e.value, ast.Name) \
                and e.value.id == selfname:
              facts.append(e.attr)
      return facts

    f = flow.flow(init, gen, mode="must")
    states = [st for kind, _, st in f.exits if kind in ("return", "end") and st is not None]
    if states:
      acc = set(states[0])
      for s in states[1:]:
        acc &= set(s)
      out |= acc
  if init is None and depth < 4:
    for b in node.bases:
      try:
        _, _, info = _resolve_exc(ctx, mod, b)
      except AnalysisError:
        continue
      if isinstance(info, tuple):
        out |= _self_attrs_always_set(ctx, info[0], info[1], depth + 1)
  return out


def _has_attr(ctx, info, ident, attr):
  """True/False/None(unknown) - does an instance of the exception have attr."""
  if info is None:
    return None
  if isinstance(info, tuple):
    if attr in _self_attrs_always_set(ctx, info[0], info[1]):
      return True
    return hasattr(Exception(), attr)
  try:
    return hasattr(info(), attr)
  except Exception:  # pylint: disable=broad-except
    return None


def _norm_body(h):
  """Handler body dump with the bound exception name normalised."""
  class Ren(ast.NodeTransformer):
    def visit_Name(self, n):  # pylint: disable=invalid-name
      if h.name and n.id == h.name:
        return ast.copy_location(ast.Name(id="__exc__", ctx=n.ctx), n)
      return n
  import copy
  return [ast.dump(Ren().visit(copy.deepcopy(s))) for s in h.body]


def _once_bound_const(mod, name):
  """The value node of a module-level name bound exactly once in the module."""
  stores = [n for n in ast.walk(mod.tree) if isinstance(n, ast.Name) and n.id == name
            and isinstance(n.ctx, (ast.Store, ast.Del))]
  if len(stores) != 1 or name not in mod.assigns or name in mod.functions or name in mod.classes:
    return None
  return mod.assigns[name]


def _expand_table_handler(mod, h, var):
  """`except TYPES as e: var = describe(x, e)` driven by a module-level ordered
  table - TYPES = tuple(t for t, .. in TABLE), describe = `for t, a, b in
  TABLE: if isinstance(e, t): return (x, getattr(e, a), getattr(e, b))` then
  raise - is the chain `except <t1> as e: var = (x, e.<a1>, e.<b1>)`, `except
  <t2> ...` in table order (an exception caught by the tuple is an instance of
  some row's type, and the first row that matches decides, exactly like the
  first matching except clause).  Returns the synthetic handlers, [h] when the
  handler is not of that kind, AnalysisError when it is but is not understood."""
  if not isinstance(h.type, ast.Name) or dotted(h.type) in mod.classes or \
      dotted(h.type) in mod.imports or h.type.id not in mod.assigns:
    return [h]
  val = _once_bound_const(mod, h.type.id)
  if isinstance(val, (ast.Name, ast.Attribute)):
    return [h]       # a plain alias: _resolve_exc follows it

  def refuse(msg):
    raise AnalysisError(f"{mod.rel}: `except {h.type.id}`: {msg}")
  if not (isinstance(val, ast.Call) and dotted(val.func) == "tuple" and len(val.args) == 1
          and not val.keywords and isinstance(val.args[0], (ast.GeneratorExp, ast.ListComp))):
    refuse(f"exception type `{src(val)[:80]}` is computed" if val is not None
           else "the name is not bound once at module level")
  comp = val.args[0]
  g = comp.generators[0]
  if len(comp.generators) != 1 or g.ifs or g.is_async or not isinstance(g.iter, ast.Name) or \
      not isinstance(g.target, ast.Tuple) or not all(isinstance(e, ast.Name) for e in g.target.elts) \
      or not isinstance(comp.elt, ast.Name):
    refuse("the comprehension computing the exception types is not understood")
  cols = [e.id for e in g.target.elts]
  if cols.count(comp.elt.id) != 1:
    refuse("the comprehension computing the exception types is not understood")
  tcol, table_name = cols.index(comp.elt.id), g.iter.id
  table = _once_bound_const(mod, table_name)
  if not isinstance(table, (ast.Tuple, ast.List)) or not table.elts or not all(
      isinstance(r, ast.Tuple) and len(r.elts) == len(cols) for r in table.elts):
    refuse(f"the table {table_name} is not a literal of {len(cols)}-tuples bound once")
  # the handler body: var = describe(x, e)
  if not (len(h.body) == 1 and isinstance(h.body[0], ast.Assign) and len(h.body[0].targets) == 1
          and dotted(h.body[0].targets[0]) == var and isinstance(h.body[0].value, ast.Call)
          and h.name):
    refuse(f"the handler does not bind `{var}` to the result of one helper call")
  call = h.body[0].value
  helper = U.callee_of(mod, call)
  if helper is None or call.keywords or any(isinstance(a, ast.Starred) for a in call.args):
    refuse(f"`{src(call)[:60]}` is not a plain call of a module-level helper")
  ps = U.params_of(helper)
  if len(ps) != len(call.args) or helper.args.vararg or helper.args.kwarg or helper.args.kwonlyargs \
      or helper.decorator_list:
    refuse(f"{helper.name}: signature / call mismatch")
  arg_of = dict(zip(ps, call.args))
  exc_ps = [p for p, a in arg_of.items() if dotted(a) == h.name]
  if len(exc_ps) != 1 or any(dotted(a) is None for a in call.args):
    refuse(f"`{src(call)[:60]}`: the arguments are not the exception and plain names")
  exc_p = exc_ps[0]
  body = [st for st in helper.body if not (isinstance(st, ast.Expr) and isinstance(st.value, ast.Constant))]
  ok = len(body) == 2 and isinstance(body[0], ast.For) and isinstance(body[1], ast.Raise) \
      and not body[0].orelse and dotted(body[0].iter) == table_name \
      and isinstance(body[0].target, ast.Tuple) and len(body[0].target.elts) == len(cols) \
      and all(isinstance(e, ast.Name) for e in body[0].target.elts) and len(body[0].body) == 1
  if ok:
    lcols = [e.id for e in body[0].target.elts]
    iff = body[0].body[0]
    ok = isinstance(iff, ast.If) and not iff.orelse and len(iff.body) == 1 \
        and isinstance(iff.body[0], ast.Return) and isinstance(iff.body[0].value, ast.Tuple) \
        and src(iff.test) == f"isinstance({exc_p}, {lcols[tcol]})" \
        and len(set(lcols + ps)) == len(lcols) + len(ps)
  if not ok:
    refuse(f"{helper.name} is not `for <row> in {table_name}: if isinstance(<exc>, <type>): "
           "return (<tuple>)` followed by raise")
  out = []
  for row in table.elts:
    elts = []
    for e in iff.body[0].value.elts:
      if isinstance(e, ast.Name) and e.id in arg_of and e.id != exc_p:
        elts.append(copy.deepcopy(arg_of[e.id]))
      elif isinstance(e, ast.Call) and dotted(e.func) == "getattr" and len(e.args) == 2 \
          and not e.keywords and dotted(e.args[0]) == exc_p and isinstance(e.args[1], ast.Name) \
          and e.args[1].id in lcols and e.args[1].id != lcols[tcol]:
        attr = row.elts[lcols.index(e.args[1].id)]
        if not (isinstance(attr, ast.Constant) and isinstance(attr.value, str)
                and attr.value.isidentifier()):
          refuse(f"table cell `{src(attr)}` is not an attribute name")
        elts.append(ast.Attribute(value=ast.Name(id=h.name, ctx=ast.Load()), attr=attr.value,
                                  ctx=ast.Load()))
      else:
        refuse(f"{helper.name}: tuple element `{src(e)}` is not understood")
    new = ast.ExceptHandler(
        type=copy.deepcopy(row.elts[tcol]), name=h.name,
        body=[ast.Assign(targets=[ast.Name(id=var, ctx=ast.Store())],
                         value=ast.Tuple(elts=elts, ctx=ast.Load()))])
    for n in ast.walk(new):
      ast.copy_location(n, h)
    out.append(new)
  return out


@rule("R15.2", "C15", floor=12)
def r15_2(ctx):
  """Compile errors become a python-compiler-error; nothing is shadowed."""
  mod = get_module(ctx, IO)
  # module-level helpers the function hands parts of the except-chain / the
  # fallback result to (`return _make_failed_result(.., compiler_error, ..)`)
  # are read inline
  fn, _, _ = U.inline_local_calls(mod, mod.func("check_or_generate_pyi"), depth=2,
                                  skip=("check_py", "generate_pyi"))
  tries = [n for n in ast.walk(fn) if isinstance(n, ast.Try)
           and any((dotted(c.func) or "").split(".")[-1] in ("check_py", "generate_pyi")
                   for st in n.body for c in calls_in(st))]
  if len(tries) != 1:
    raise AnalysisError(f"{IO}: the try around check_py/generate_pyi not found")
  tr = tries[0]
  called = {(dotted(c.func) or "").split(".")[-1] for st in tr.body for c in calls_in(st)}
  if not {"check_py", "generate_pyi"} <= called:
    raise AnalysisError(f"{IO}: try body calls {sorted(called)}; expected both "
                        "check_py and generate_pyi")
  # consumer: errorlog.python_compiler_error(*<var>)
  cons = [c for c in calls_in(fn) if (dotted(c.func) or "").endswith(".python_compiler_error")]
  if len(cons) != 1 or len(cons[0].args) != 1 or \
      not isinstance(cons[0].args[0], ast.Starred) or \
      not isinstance(cons[0].args[0].value, ast.Name) or cons[0].keywords:
    raise AnalysisError(f"{IO}: python_compiler_error(*<triple>) call not found")
  var = cons[0].args[0].value.id
  emod = get_module(ctx, ERRORS)
  pce = None
  for cname, cnode in emod.classes.items():
    for st in cnode.body:
      if isinstance(st, ast.FunctionDef) and st.name == "python_compiler_error":
        pce = st
  if pce is None:
    raise AnalysisError(f"{ERRORS}: python_compiler_error not found")
  if pce.args.vararg or pce.args.kwonlyargs:
    raise AnalysisError(f"{ERRORS}: python_compiler_error has a non-plain signature")
  n_params = len(pce.args.args) - 1
  n_required = n_params - len(pce.args.defaults)

  handlers = []
  for h in [x for h0 in tr.handlers for x in _expand_table_handler(mod, h0, var)]:
    if h.type is None:
      types = [("BaseException", {"BaseException", "object"}, BaseException)]
    elif isinstance(h.type, ast.Tuple):
      types = [_resolve_exc(ctx, mod, e) for e in h.type.elts]
    else:
      types = [_resolve_exc(ctx, mod, h.type)]
    handlers.append((h, types))

  def first_catcher(ancestors):
    for h, types in handlers:
      if any(t[0] in ancestors for t in types):
        return h
    return None

  required = [
      ("pyc.CompileError", f"{COMPILER}:CompileError"),
      ("constant_folding.ConstantError", f"{CONST_FOLD}:ConstantError"),
      ("IndentationError", "IndentationError"),
      ("SyntaxError", "SyntaxError"),
  ]
  # canonical class info of each required exception
  req_info = {}
  req_info[f"{COMPILER}:CompileError"] = _class_exc(
      ctx, get_module(ctx, COMPILER), get_module(ctx, COMPILER).cls("CompileError"), 0)
  req_info[f"{CONST_FOLD}:ConstantError"] = _class_exc(
      ctx, get_module(ctx, CONST_FOLD), get_module(ctx, CONST_FOLD).cls("ConstantError"), 0)
  for b in ("IndentationError", "SyntaxError"):
    cls = getattr(builtins, b)
    req_info[b] = (b, {c.__name__ for c in cls.__mro__}, cls)
  # pyc.CompileError must be the compiler's class (re-export)
  pycmod = get_module(ctx, "pytype/pyc/pyc.py")
  ident, _, _ = _resolve_exc(ctx, pycmod, ast.Name(id="CompileError", ctx=ast.Load()))
  ctx.check(ident == f"{COMPILER}:CompileError", "reexport:pyc.CompileError",
            "pytype/pyc/pyc.py", 0,
            f"pyc.CompileError resolves to {ident}, not to the class "
            "compiler.compile_src_string_to_pyc_string raises",
            {"resolves_to": ident})

  for label, ident in required:
    _, anc, info = req_info[ident]
    h = first_catcher(anc)
    construct = f"compile-error:{label}"
    if h is None:
      ctx.bad(construct, IO, tr.lineno, f"no handler catches {label}")
      continue
    assigns = [st for st in h.body if isinstance(st, ast.Assign)
               and any(isinstance(t, ast.Name) and t.id == var for t in st.targets)]
    reraises = any(isinstance(n, ast.Raise) for st in h.body for n in ast.walk(st))
    facts = {"caught_by": src(h.type) if h.type else "bare", "line": h.lineno}
    if len(assigns) != 1 or reraises or not isinstance(assigns[0].value, ast.Tuple):
      ctx.bad(construct, IO, h.lineno,
              f"{label} is first caught by `except {facts['caught_by']}`, which "
              f"does not build the `{var}` tuple passed to python_compiler_error",
              facts)
      continue
    tup = assigns[0].value
    facts["tuple"] = src(tup)
    if not n_required <= len(tup.elts) <= n_params:
      ctx.bad(construct, IO, h.lineno,
              f"`{var}` has {len(tup.elts)} elements but python_compiler_error "
              f"takes {n_params}", facts)
      continue
    missing = []
    for e in tup.elts:
      for n in ast.walk(e):
        if isinstance(n, ast.Attribute) and isinstance(n.value, ast.Name) and \
            h.name and n.value.id == h.name:
          if _has_attr(ctx, info, ident, n.attr) is False:
            missing.append(n.attr)
    facts["missing_attrs"] = missing
    ctx.check(not missing, construct, IO, h.lineno,
              f"the handler reads {missing} which a {label} instance does not "
              "have: AttributeError while reporting the compile error", facts)

  # UsageError is re-raised
  umod = get_module(ctx, "pytype/utils.py")
  _, anc, _ = _class_exc(ctx, umod, umod.cls("UsageError"), 0)
  h = first_catcher(anc)
  ok = h is not None and len(h.body) == 1 and isinstance(h.body[0], ast.Raise) \
      and h.body[0].exc is None
  ctx.check(ok, "reraise:utils.UsageError", IO, h.lineno if h else tr.lineno,
            "utils.UsageError must be re-raised by the first handler that "
            "catches it", {"caught_by": src(h.type) if h is not None and h.type else None})

  # dead handlers with a different body
  for i, (h, types) in enumerate(handlers):
    label = src(h.type) if h.type else "bare"
    shadow = None
    for h2, types2 in handlers[:i]:
      ids2 = {t[0] for t in types2}
      if all(t[1] & ids2 for t in types):
        shadow = h2
        break
    if shadow is None:
      ctx.ok(f"handler:{label}", IO, h.lineno, {"reachable": True})
      continue
    same = _norm_body(h) == _norm_body(shadow)
    ctx.check(same, f"handler:{label}", IO, h.lineno,
              f"`except {label}` can never run: every exception it names is "
              f"caught by the earlier `except {src(shadow.type) if shadow.type else ''}` "
              "which does something else",
              {"shadowed_by": src(shadow.type) if shadow.type else "bare",
               "same_body": same})


# -- R15.3 ------------------------------------------------------------------------

def _first_status_write(stmts, outname):
  for st in stmts:
    if isinstance(st, ast.Expr) and isinstance(st.value, ast.Call):
      c = st.value
      if isinstance(c.func, ast.Attribute) and c.func.attr == "write" and \
          dotted(c.func.value) == outname and len(c.args) == 1:
        v = try_fold(c.args[0])
        if isinstance(v, bytes):
          return v, st.lineno
        return None, st.lineno
  return None, 0


class _StatusReader:
  """compile_src_string_to_pyc_string's decoding of the status byte."""

  def __init__(self, mod, fn):
    self.mod, self.fn = mod, fn
    # the status: `<buf>[0]`, possibly bound once to a local
    subs = [n for n in ast.walk(fn) if isinstance(n, ast.Subscript)
            and isinstance(n.value, ast.Name) and try_fold(n.slice) == 0
            and isinstance(n.ctx, ast.Load)]
    bufs = {n.value.id for n in subs}
    if len(bufs) != 1:
      raise AnalysisError(f"{COMPILER}: the status byte `<buf>[0]` of "
                          f"compile_src_string_to_pyc_string was not recognised ({sorted(bufs)})")
    self.buf = bufs.pop()
    self.status_names = set()
    first = None
    for st in fn.body:
      hit = any(n in subs for n in ast.walk(st))
      if hit and first is None:
        first = st
      if isinstance(st, ast.Assign) and len(st.targets) == 1 and isinstance(st.targets[0], ast.Name) \
          and st.value in subs:
        nm = st.targets[0].id
        stores = [n for n in ast.walk(fn) if isinstance(n, ast.Name) and n.id == nm
                  and isinstance(n.ctx, (ast.Store, ast.Del))]
        if len(stores) != 1:
          raise AnalysisError(f"{COMPILER}: status local `{nm}` is re-bound")
        self.status_names.add(nm)
    if first is None:
      raise AnalysisError(f"{COMPILER}: the status byte is not read at the top level of "
                          "compile_src_string_to_pyc_string")
    self.tail = fn.body[fn.body.index(first):]

  def _is_status(self, e):
    return (isinstance(e, ast.Name) and e.id in self.status_names) or (
        isinstance(e, ast.Subscript) and dotted(e.value) == self.buf and try_fold(e.slice) == 0)

  def _val(self, e, v):
    if self._is_status(e):
      return v
    if isinstance(e, (ast.Tuple, ast.List, ast.Set)):
      return tuple(self._val(x, v) for x in e.elts)
    c = try_fold(e, mod=self.mod, default=_NOVAL)
    if c is _NOVAL:
      raise AnalysisError(f"{COMPILER}: status test operand `{src(e)}` is not a constant")
    return c

  def _test(self, t, v):
    if isinstance(t, ast.BoolOp):
      vals = [self._test(x, v) for x in t.values]
      return all(vals) if isinstance(t.op, ast.And) else any(vals)
    if isinstance(t, ast.UnaryOp) and isinstance(t.op, ast.Not):
      return not self._test(t.operand, v)
    if isinstance(t, ast.Compare) and len(t.ops) == 1:
      l, r = self._val(t.left, v), self._val(t.comparators[0], v)
      op = t.ops[0]
      if isinstance(op, (ast.Eq, ast.Is)):
        return l == r
      if isinstance(op, (ast.NotEq, ast.IsNot)):
        return l != r
      if isinstance(op, ast.In):
        return l in r
      if isinstance(op, ast.NotIn):
        return l not in r
    raise AnalysisError(f"{COMPILER}: status test `{src(t)}` is not understood")

  def _run(self, stmts, v, env):
    for st in stmts:
      if isinstance(st, ast.If):
        r = self._run(st.body if self._test(st.test, v) else st.orelse, v, env)
        if r is not None:
          return r
      elif isinstance(st, ast.Return):
        e = st.value
        while isinstance(e, ast.Name) and e.id in env:
          e = env[e.id]
        ok = isinstance(e, ast.Subscript) and dotted(e.value) == self.buf \
            and isinstance(e.slice, ast.Slice) and try_fold(e.slice.lower) == 1 \
            and e.slice.upper is None and e.slice.step is None
        return ("ok" if ok else "other-return", st.lineno)
      elif isinstance(st, ast.Raise):
        name = (dotted(st.exc.func) or "") if isinstance(st.exc, ast.Call) else (
            dotted(st.exc) or "") if st.exc is not None else ""
        return ("error" if name.split(".")[-1] == "CompileError" else "invalid", st.lineno)
      elif isinstance(st, ast.Assign) and len(st.targets) == 1 and isinstance(st.targets[0], ast.Name):
        env[st.targets[0].id] = st.value
      elif isinstance(st, (ast.Expr, ast.Assert, ast.AnnAssign, ast.Pass)):
        continue
      else:
        raise AnalysisError(f"{COMPILER}: statement at line {st.lineno} in the status "
                            "decoding of compile_src_string_to_pyc_string is not understood")
    return None

  def action(self, v):
    """('ok' | 'error' | 'invalid' | 'other-return' | 'falls-through', line)."""
    r = self._run(self.tail, v, {})
    return r if r is not None else ("falls-through", self.fn.lineno)

  def values(self, kind):
    return [v for v in range(0, 8) if self.action(v)[0] == kind]


_NOVAL = object()


@rule("R15.3", "C15", floor=9)
def r15_3(ctx):
  """Writer and reader of the compile sub-process agree."""
  wmod = get_module(ctx, COMPILE_BC)
  wfn = wmod.func("compile_src_to_pyc")
  wparams = [a.arg for a in wfn.args.args]
  tries = [n for n in ast.walk(wfn) if isinstance(n, ast.Try)
           and any(dotted(c.func) == "compile" for st in n.body for c in calls_in(st))]
  if len(tries) != 1 or len(tries[0].handlers) != 1 or not tries[0].orelse:
    raise AnalysisError(f"{COMPILE_BC}: compile_src_to_pyc is not "
                        "`try: compile(..) except: <status 1> else: <status 0>`")
  tr = tries[0]
  out_candidates = {dotted(c.func.value) for c in calls_in(wfn)
                    if isinstance(c.func, ast.Attribute) and c.func.attr == "write"}
  out_candidates &= set(wparams)
  if len(out_candidates) != 1:
    raise AnalysisError(f"{COMPILE_BC}: output stream parameter not identified")
  outname = out_candidates.pop()
  w_err, l_err = _first_status_write(tr.handlers[0].body, outname)
  w_ok, l_ok = _first_status_write(tr.orelse, outname)
  if w_err is None or w_ok is None:
    raise AnalysisError(f"{COMPILE_BC}: status byte writes not found")

  rmod = get_module(ctx, COMPILER)
  rfn = rmod.func("compile_src_string_to_pyc_string")
  # What the reader does with each status value is *evaluated*: the tail of
  # the function (from the statement that reads <buf>[0]) is run for concrete
  # status values, taking the `if` arms whose tests (==, !=, in, not in, and/or/
  # not over the status and constants) come out true, up to the first return /
  # raise.  `if s == 0: return .. elif s == 1: raise .. else: raise OSError`,
  # guard clauses and `match`-free dispatch tables of ifs all read the same.
  reader = _StatusReader(rmod, rfn)

  def as_int(v):
    return v[0] if isinstance(v, bytes) and len(v) == 1 else v

  for kind, wv, wl in (("ok", w_ok, l_ok), ("error", w_err, l_err)):
    got, rl = reader.action(as_int(wv)) if len(wv) == 1 else ("invalid", 0)
    accepted = reader.values(kind)
    ctx.check(len(wv) == 1 and got == kind, f"status:{kind}",
              COMPILE_BC, wl,
              f"writer emits {wv!r} for '{kind}' but the reader treats that status as "
              f"'{got}' (its '{kind}' path is taken for {accepted}): every compilation "
              "ends in OSError('invalid result') or in the wrong arm",
              {"writer": repr(wv), "reader": repr(accepted), "reader_line": rl})
  ctx.check(w_ok != w_err, "status:distinct", COMPILE_BC, l_ok,
            "success and failure write the same status byte",
            {"ok": repr(w_ok), "error": repr(w_err)})

  # -- the error text: str(err) ... _COMPILE_ERROR_RE
  wr = [c for st in tr.handlers[0].body for c in calls_in(st)
        if isinstance(c.func, ast.Attribute) and c.func.attr == "write"]
  ename = tr.handlers[0].name
  payload_ok = any(
      isinstance(n, ast.Call) and dotted(n.func) == "str" and len(n.args) == 1
      and dotted(n.args[0]) == ename for c in wr for n in ast.walk(c))
  ctx.check(payload_ok, "payload:str(err)", COMPILE_BC, tr.handlers[0].lineno,
            "the failure payload must be str(<exception>) - the text "
            "_COMPILE_ERROR_RE is written for", {"exception_name": ename})

  rx = rmod.const("_COMPILE_ERROR_RE")
  if not (isinstance(rx, ast.Call) and dotted(rx.func) == "re.compile" and rx.args):
    raise AnalysisError(f"{COMPILER}: _COMPILE_ERROR_RE is not re.compile(<str>)")
  pat = try_fold(rx.args[0], mod=rmod)
  if not isinstance(pat, str) or len(rx.args) > 1 or rx.keywords:
    raise AnalysisError(f"{COMPILER}: _COMPILE_ERROR_RE pattern/flags not foldable")
  import re._parser as rp  # pylint: disable=import-outside-toplevel
  import re._constants as rc  # pylint: disable=import-outside-toplevel
  try:
    parsed = rp.parse(pat)
  except re.error as e:
    ctx.bad("regex:_COMPILE_ERROR_RE", COMPILER, rx.lineno, f"pattern does not compile: {e}")
    return
  ngroups = parsed.state.groups - 1
  items = list(parsed)
  lit = ""
  before = {}
  inner = {}
  for op, av in items:
    if op is rc.LITERAL:
      lit += chr(av)
    elif op is rc.SUBPATTERN:
      before[av[0]] = lit
      inner[av[0]] = list(av[3])
      lit = ""
    else:
      lit = "" if op is not rc.AT else lit
  g3 = inner.get(3, [])
  digits = (len(g3) == 1 and g3[0][0] is rc.MAX_REPEAT and g3[0][1][0] >= 1
            and list(g3[0][1][2]) == [(rc.IN, [(rc.CATEGORY, rc.CATEGORY_DIGIT)])])
  ctx.check(ngroups == 3 and digits and before.get(3, "").endswith(", line "),
            "regex:structure", COMPILER, rx.lineno,
            "_COMPILE_ERROR_RE must have three groups, the last `\\d+` preceded "
            "by the literal ', line '",
            {"pattern": pat, "groups": ngroups, "before_group3": before.get(3)})
  # the regex against what the host CPython's str(SyntaxError) really produces
  samples = [("invalid syntax", "foo.py", 3), ("'(' was never closed (detected at line 9)", "mod.py", 120),
             ("unindent does not match any outer indentation level", "<>", 1)]
  crx = re.compile(pat)
  bad = []
  for msg, fname, line in samples:
    text = str(SyntaxError(msg, (fname, line, 1, "x")))
    m = crx.match(text)
    got = m.groups() if m else None
    if got != (msg, fname, str(line)):
      bad.append({"text": text, "groups": got})
  ctx.check(not bad, "regex:host-SyntaxError-str", COMPILER, rx.lineno,
            "_COMPILE_ERROR_RE does not split str(SyntaxError) into (message, "
            f"file, line): {bad[:1]}", {"samples": len(samples), "mismatches": bad})
  # CompileError.__init__ uses group 1/2/3 as error/filename/line
  init = rmod.func("CompileError.__init__")
  uses = {}
  # locals unpacked from `<match>.groups()`: name -> group number
  unpacked = {}
  for st in ast.walk(init):
    if isinstance(st, ast.Assign) and len(st.targets) == 1 and \
        isinstance(st.targets[0], ast.Tuple) and isinstance(st.value, ast.Call) and \
        isinstance(st.value.func, ast.Attribute) and st.value.func.attr == "groups" \
        and not st.value.args and not st.value.keywords:
      for i, e in enumerate(st.targets[0].elts):
        if isinstance(e, ast.Name):
          stores = [n for n in ast.walk(init) if isinstance(n, ast.Name) and n.id == e.id
                    and isinstance(n.ctx, (ast.Store, ast.Del))]
          if len(stores) == 1:
            unpacked[e.id] = i + 1
  for st in ast.walk(init):
    if isinstance(st, ast.Assign) and len(st.targets) == 1 and \
        isinstance(st.targets[0], ast.Attribute):
      for c in calls_in(st.value):
        if isinstance(c.func, ast.Attribute) and c.func.attr == "group" and c.args:
          uses[st.targets[0].attr] = (try_fold(c.args[0]), src(st.value))
      for n in ast.walk(st.value):
        if isinstance(n, ast.Name) and n.id in unpacked:
          uses[st.targets[0].attr] = (unpacked[n.id], src(st.value))
  ok = {k: v[0] for k, v in uses.items()} == {"error": 1, "filename": 2, "line": 3} \
      and uses["line"][1].startswith("int(")
  ctx.check(ok, "regex:group-use", COMPILER, init.lineno,
            "CompileError must take error/filename/line from groups 1/2/3 "
            f"(line as int); found {uses}", {"uses": {k: v[1] for k, v in uses.items()}})

  # -- argv of the sub-process
  cmd = None
  for st in ast.walk(rfn):
    if isinstance(st, ast.Assign) and any(dotted(t) == "cmd" for t in st.targets):
      cmd = st
  if cmd is None or not isinstance(cmd.value, ast.BinOp) or \
      not isinstance(cmd.value.right, ast.List):
    raise AnalysisError(f"{COMPILER}: `cmd = python_exe + [...]` not found")
  elts = cmd.value.right.elts
  dash = [i for i, e in enumerate(elts) if isinstance(e, ast.Constant) and e.value == "-"]
  if len(dash) != 1:
    raise AnalysisError(f"{COMPILER}: the '-' (script on stdin) marker not found in cmd")
  after = elts[dash[0] + 1:]
  main = wmod.func("main")
  want = None
  for n in ast.walk(main):
    if isinstance(n, ast.Compare) and len(n.ops) == 1 and \
        isinstance(n.left, ast.Call) and dotted(n.left.func) == "len" and \
        n.left.args and dotted(n.left.args[0]) == "sys.argv":
      want = (type(n.ops[0]).__name__, try_fold(n.comparators[0]))
  idx = {}
  for c in calls_in(main):
    for k in c.keywords:
      if isinstance(k.value, ast.Subscript) and dotted(k.value.value) == "sys.argv":
        idx[k.arg] = try_fold(k.value.slice)
  if want is None or want[0] != "NotEq" or not idx:
    raise AnalysisError(f"{COMPILE_BC}: main()'s argv handling not recognised")
  ctx.check(want[1] == len(after) + 1 and sorted(idx.values()) == list(range(1, want[1])),
            "argv:count", COMPILER, cmd.lineno,
            f"the parent passes {len(after)} arguments after '-', main() "
            f"requires len(sys.argv) == {want[1]} and reads {idx}",
            {"passed": [src(e) for e in after], "main_reads": idx})
  by_pos = {v: k for k, v in idx.items()}
  order_ok = len(after) == 3 and by_pos.get(3) == "mode" and dotted(after[2]) == "mode" \
      and by_pos.get(2) == "filename" and "filename" in flow.names_in(after[1]) \
      and by_pos.get(1) == "data_file" and isinstance(after[0], ast.Attribute) \
      and after[0].attr == "name"
  ctx.check(order_ok, "argv:order", COMPILER, cmd.lineno,
            "argument order (source file, display filename, mode) differs "
            "between the parent and main()",
            {"passed": [src(e) for e in after], "main_reads": idx})


# -- R15.4 ------------------------------------------------------------------------

def _versions_of(name, tab):
  """Versions in which an opcode of this name can be seen by a handler."""
  vs = [v for v in O.VERSIONS if name in set(_pycnite_names(v).values())]
  return vs


def _lacks_argument(tab, name, versions=None):
  """Versions (as strings) in which the resolved class has no arg/argval slot."""
  has_arg = tab.bit("HAS_ARGUMENT")
  out = []
  for v in (versions or O.VERSIONS):
    oc = tab.resolve(name, v)
    if not (oc.flags & has_arg) or not oc.with_arg_base:
      out.append(f"{v[0]}.{v[1]}")
  return out


@rule("R15.4", "C15", floor=190)
def r15_4(ctx):
  """A handler reads op.arg/op.argval only if the opcode class has the slot."""
  tab = O.opcode_table(ctx)
  prefix, methods = _handlers(ctx)
  n_readers = 0
  for hname, fn in sorted(methods.items()):
    if not hname.startswith(prefix):
      continue
    opname = hname[len(prefix):]
    if opname not in tab.opcode_classes:
      continue  # not reachable through run_instruction's dispatch (see R15.9)
    reads = O.arg_reads(ctx, fn, methods)
    reads = [(p, g) for p, g in reads if g is None or opname in g]
    paths = sorted({p for p, _ in reads})
    if not reads:
      ctx.ok(opname, VM, fn.lineno, {})
      continue
    n_readers += 1
    versions = _versions_of(opname, tab) or list(O.VERSIONS)
    lacking = _lacks_argument(tab, opname, versions)
    facts = {"reads": paths, "versions": [f"{v[0]}.{v[1]}" for v in versions],
             "no_slot_in": lacking}
    if lacking and len(lacking) < len(versions):
      raise AnalysisError(
          f"{VM}: {hname} reads the operand but {opname} has the operand slot "
          f"only in some versions ({lacking} lack it); a version-dependent "
          "read is outside what this rule understands")
    ctx.check(not lacking, opname, VM, fn.lineno,
              f"{hname} reads op.{paths[0]} but class {opname} has no "
              "HAS_ARGUMENT / OpcodeWithArg base: the instance has no such slot "
              "(AttributeError inside analysis)", facts)
  if n_readers < 60:
    raise AnalysisError(f"{VM}: only {n_readers} handlers were seen reading "
                        "their operand; the reader idiom has changed")


# -- R15.5 ------------------------------------------------------------------------

@rule("R15.5", "C15", floor=11)
def r15_5(ctx):
  """errors.invalid_function_call has an arm for every raisable call error."""
  tmod = get_module(ctx, ERROR_TYPES)
  emod = get_module(ctx, ERRORS)
  roots = ("FailedFunctionCall", "DictKeyMissing")
  for r in roots:
    tmod.cls(r)
  parents = {}
  for name, node in tmod.classes.items():
    parents[name] = [dotted(b) for b in node.bases if dotted(b)]

  def ancestors(n, acc=None):
    acc = acc if acc is not None else set()
    for p in parents.get(n, []):
      if p not in acc:
        acc.add(p)
        ancestors(p, acc)
    return acc

  family = sorted(n for n in tmod.classes
                  if n in roots or ancestors(n) & set(roots))
  fn = None
  for cname, cnode in emod.classes.items():
    for st in cnode.body:
      if isinstance(st, ast.FunctionDef) and st.name == "invalid_function_call":
        fn = st
  if fn is None:
    raise AnalysisError(f"{ERRORS}: invalid_function_call not found")
  errparam = fn.args.args[2].arg if len(fn.args.args) >= 3 else None
  # the if/elif chain that ends in `raise AssertionError`
  chain = None
  for st in fn.body:
    if isinstance(st, ast.If):
      node, arms = st, []
      while True:
        arms.append(node)
        if len(node.orelse) == 1 and isinstance(node.orelse[0], ast.If):
          node = node.orelse[0]
        else:
          break
      tail = node.orelse
      if any(isinstance(n, ast.Raise) and n.exc is not None and
             "AssertionError" in src(n.exc) for s in tail for n in ast.walk(s)) or \
          any(isinstance(s, ast.Assert) and try_fold(s.test) is False for s in tail):
        chain = arms
  if chain is None:
    # no failing arm at all: nothing can reach an AssertionError
    for n in family:
      ctx.ok(n, ERRORS, fn.lineno, {"failing_arm": False})
    return
  alias = None
  for a, tgt in emod.imports.items():
    if tgt == "pytype.errors.error_types":
      alias = a
  armed = set()
  for arm in chain:
    t = arm.test
    ok = isinstance(t, ast.Call) and dotted(t.func) == "isinstance" and \
        len(t.args) == 2 and dotted(t.args[0]) == errparam
    if not ok:
      raise AnalysisError(f"{ERRORS}: invalid_function_call arm `{src(t)[:60]}` "
                          "is not `isinstance(error, error_types.X)`")
    classes = t.args[1].elts if isinstance(t.args[1], ast.Tuple) else [t.args[1]]
    for c in classes:
      d = dotted(c) or ""
      if alias and d.startswith(alias + "."):
        armed.add(d[len(alias) + 1:])
      else:
        raise AnalysisError(f"{ERRORS}: arm class `{d}` is not from error_types")
  # direct instantiations of arm-less base classes (thorough: whole package)
  instantiated = set()
  scan = all_py_files(ctx) if ctx.tier == "thorough" else [
      "pytype/abstract/function.py", "pytype/abstract/_function_base.py",
      "pytype/abstract/_pytd_function.py", "pytype/abstract/_instances.py",
      "pytype/vm_utils.py", ERROR_TYPES]
  unarmed_bases = [n for n in family
                   if n not in armed and not (ancestors(n) & armed)]
  if unarmed_bases:
    for rel in scan:
      if rel.endswith("_test.py") or "/test_data/" in rel or not ctx.exists(rel):
        continue
      try:
        text = ctx.read(rel)
      except AnalysisError:
        continue
      if not any(b + "(" in text for b in unarmed_bases):
        continue
      try:
        m = get_module(ctx, rel)
      except AnalysisError:
        continue
      for c in calls_in(m.tree):
        d = (dotted(c.func) or "").split(".")[-1]
        if d in unarmed_bases:
          par = m.parent.get(c)
          instantiated.add(d)
  subclasses = {n: [m for m in tmod.classes if n in parents.get(m, [])] for n in family}
  for n in family:
    node = tmod.classes[n]
    covered = n in armed or bool(ancestors(n) & armed)
    facts = {"arm": n if n in armed else sorted(ancestors(n) & armed) or None}
    if covered:
      ctx.ok(n, ERROR_TYPES, node.lineno, facts)
      continue
    abstract = bool(subclasses[n]) and n not in instantiated
    facts.update({"abstract_base": abstract, "subclasses": subclasses[n]})
    ctx.check(abstract, n, ERROR_TYPES, node.lineno,
              f"error_types.{n} has no arm in errors.invalid_function_call: "
              "reporting such a failed call raises AssertionError inside "
              "analysis", facts)


# -- R15.6 ------------------------------------------------------------------------

def _init_arity(tab, clsname):
  """(min, max) positional arguments (without self) __init__ of clsname accepts."""
  for c in tab.chain(clsname):
    for st in c.body:
      if isinstance(st, ast.FunctionDef) and st.name == "__init__":
        a = st.args
        if a.vararg or a.kwonlyargs or a.kwarg or a.posonlyargs:
          raise AnalysisError(f"{OPC}: {c.name}.__init__ has a non-plain signature")
        n = len(a.args) - 1
        return n - len(a.defaults), n, c.name
  raise AnalysisError(f"{OPC}: no __init__ found for {clsname}")


@rule("R15.6", "C15", floor=200)
def r15_6(ctx):
  """HAS_ARGUMENT <=> OpcodeWithArg base; constructor calls fit __init__."""
  tab = O.opcode_table(ctx)
  has_arg = tab.bit("HAS_ARGUMENT")
  helpers = tab.helpers()
  for name in sorted(tab.opcode_classes):
    node = tab.class_nodes[name]
    if any(isinstance(st, ast.FunctionDef) and st.name == "__init__" for st in node.body):
      raise AnalysisError(f"{OPC}: opcode class {name} defines its own __init__")
    seen = set()
    for v in O.VERSIONS:
      oc = tab.resolve(name, v)
      key = (oc.line, oc.flags, oc.with_arg_base)
      if key in seen:
        continue
      seen.add(key)
      construct = name if not oc.versioned else f"{name}@{v[0]}.{v[1]}"
      flag = bool(oc.flags & has_arg)
      ctx.check(flag == oc.with_arg_base, construct, OPC, oc.line,
                f"{name}: HAS_ARGUMENT is {flag} but the class "
                f"{'derives' if oc.with_arg_base else 'does not derive'} from "
                "OpcodeWithArg: _make_opcodes calls the constructor with the "
                "wrong number of arguments (TypeError)",
                {"HAS_ARGUMENT": flag, "OpcodeWithArg": oc.with_arg_base})
  # _make_opcodes: `if cls.has_argument(): cls(<7>) else: cls(<5>)`
  mk = tab.mod.func("_make_opcodes")
  found = None
  for n in ast.walk(mk):
    if isinstance(n, ast.If) and isinstance(n.test, ast.Call) and \
        isinstance(n.test.func, ast.Attribute) and not n.test.args:
      recv = dotted(n.test.func.value)
      h = n.test.func.attr
      then_calls = [c for st in n.body for c in calls_in(st) if dotted(c.func) == recv]
      else_calls = [c for st in n.orelse for c in calls_in(st) if dotted(c.func) == recv]
      if len(then_calls) == 1 and len(else_calls) == 1:
        found = (h, then_calls[0], else_calls[0], n)
  if found is None:
    raise AnalysisError(f"{OPC}: _make_opcodes' `if cls.has_argument(): cls(..) "
                        "else: cls(..)` not found")
  h, c_arg, c_noarg, ifnode = found
  if h not in helpers:
    raise AnalysisError(f"{OPC}: _make_opcodes branches on unknown helper {h}")
  hf = helpers[h][0]
  sem_ok = all(bool(hf(f)) == bool(f & has_arg) for f in range(0, 2 * max(tab.consts.values())))
  ctx.check(sem_ok, "_make_opcodes:branch", OPC, ifnode.lineno,
            f"_make_opcodes chooses the constructor by {h}(), which does not "
            "test HAS_ARGUMENT", {"helper": h})
  lo_a, hi_a, _ = _init_arity(tab, O.ARG_ROOT)
  lo_n, hi_n, _ = _init_arity(tab, O.ROOT)

  def nargs(c):
    if any(isinstance(a, ast.Starred) for a in c.args) or c.keywords:
      raise AnalysisError(f"{OPC}: constructor call `{src(c)[:50]}` uses */keywords")
    return len(c.args)

  ctx.check(lo_a <= nargs(c_arg) <= hi_a, "_make_opcodes:ctor-with-arg", OPC,
            c_arg.lineno, f"{nargs(c_arg)} arguments passed, "
            f"OpcodeWithArg.__init__ takes {lo_a}..{hi_a}",
            {"passed": nargs(c_arg), "accepts": [lo_a, hi_a]})
  ctx.check(lo_n <= nargs(c_noarg) <= hi_n, "_make_opcodes:ctor-no-arg", OPC,
            c_noarg.lineno, f"{nargs(c_noarg)} arguments passed, "
            f"Opcode.__init__ takes {lo_n}..{hi_n}",
            {"passed": nargs(c_noarg), "accepts": [lo_n, hi_n]})
  # the operand really is passed on
  passes = [src(a) for a in c_arg.args[-2:]]
  ctx.check(all(p.endswith(".arg") or p.endswith(".argval") for p in passes) and
            len(set(passes)) == 2 and passes[0].endswith(".arg"),
            "_make_opcodes:operand-forwarded", OPC, c_arg.lineno,
            f"the last two constructor arguments are {passes}, expected the "
            "reader's (arg, argval)", {"passed": passes})
  n = 0
  for cname, call, rel in _synthetic_sites(ctx, tab):
    lo, hi, owner = _init_arity(tab, cname)
    n += 1
    fnode = get_module(ctx, rel).enclosing_function(call)
    construct = f"ctor:{cname}@{fnode.name if fnode is not None else rel}"
    ctx.check(lo <= nargs(call) <= hi, construct, rel, call.lineno,
              f"{cname}(...) is called with {nargs(call)} arguments but "
              f"{owner}.__init__ takes {lo}..{hi}: TypeError during analysis",
              {"passed": nargs(call), "accepts": [lo, hi]})
  if n < 3:
    raise AnalysisError("fewer than 3 synthetic opcode constructions found")


# -- R15.7 ------------------------------------------------------------------------

@rule("R15.7", "C15", floor=8)
def r15_7(ctx):
  """isinstance-guarded operand reads outside the handlers name slotted classes."""
  tab = O.opcode_table(ctx)
  files = [CONST_FOLD, PROCESS_BLOCKS, "pytype/blocks/blocks.py", VM,
           "pytype/vm_utils.py", OPC]
  for rel in files:
    mod = get_module(ctx, rel)
    for n in ast.walk(mod.tree):
      if not (isinstance(n, ast.Attribute) and n.attr in ("arg", "argval")
              and isinstance(n.value, ast.Name) and isinstance(n.ctx, ast.Load)):
        continue
      fn = mod.enclosing_function(n)
      if fn is None:
        continue
      guard = O.isinstance_guard(ctx, mod, n, n.value.id, fn)
      if not guard:
        continue
      owner = fn.name
      par = mod.parent.get(fn)
      if isinstance(par, ast.ClassDef):
        owner = f"{par.name}.{fn.name}"
      for cname in sorted(guard):
        if cname not in tab.opcode_classes:
          if cname in (O.ARG_ROOT,):
            continue
          if cname == O.ROOT:
            ctx.bad(f"{rel.split('/')[-1]}:{owner}:{cname}", rel, n.lineno,
                    f"reads .{n.attr} knowing only isinstance(.., Opcode)")
          continue
        versions = _versions_of(cname, tab) or list(O.VERSIONS)
        lacking = _lacks_argument(tab, cname, versions)
        ctx.check(not lacking, f"{rel.split('/')[-1]}:{owner}:{cname}", rel, n.lineno,
                  f"{owner} reads {n.value.id}.{n.attr} under "
                  f"isinstance(.., {cname}), but {cname} has no operand slot in "
                  f"{lacking}: AttributeError inside analysis",
                  {"attr": n.attr, "no_slot_in": lacking})


# -- R15.8 ------------------------------------------------------------------------

def _callable_problem(hname, fn, npass, caller):
  """None if `fn` can be called with npass arguments and returns a value."""
  a = fn.args
  if fn.decorator_list:
    raise AnalysisError(f"{VM}: {hname} is decorated; call protocol unknown")
  lo = len(a.args) - 1 - len(a.defaults)
  hi = len(a.args) - 1 if not a.vararg else 10 ** 6
  if not lo <= npass <= hi:
    return (f"{hname} takes {lo}..{hi} arguments but {caller} calls it with "
            f"{npass} (TypeError inside analysis)")
  f = flow.flow(fn, lambda u: (), mode="must")
  falls = [k for k, _, st in f.exits if k == "end" and st is not None]
  none_ret = [n for k, n, st in f.exits if k == "return" and (
      n.value is None or (isinstance(n.value, ast.Constant) and n.value.value is None))]
  is_gen = any(isinstance(n, (ast.Yield, ast.YieldFrom)) for n in ast.walk(fn))
  if falls or none_ret or is_gen:
    return (f"{hname} can finish without returning a state (falls off the end "
            f"or returns None); {caller} then uses None as the frame state "
            "(AttributeError inside analysis)")
  return None


@rule("R15.8", "C15", floor=190)
def r15_8(ctx):
  """Handlers are callable as fn(state, op) and return a state on every path."""
  tab = O.opcode_table(ctx)
  prefix, methods = _handlers(ctx)
  mod = get_module(ctx, VM)
  # (methods of the VirtualMachine that run_instruction hands the look-up to
  # are read inline: `handler = self._get_opcode_handler(op)`)
  run, _, _ = U.inline_local_calls(mod, mod.func("VirtualMachine.run_instruction"), depth=2)
  # how the handler is called
  callee = None
  for st in ast.walk(run):
    if isinstance(st, ast.Assign) and isinstance(st.value, ast.Call) and \
        dotted(st.value.func) == "getattr" and len(st.targets) == 1:
      callee = dotted(st.targets[0])
  # plain copies of the looked-up handler (`handler = found`)
  names = {callee} if callee else set()
  changed = True
  while changed:
    changed = False
    for st in ast.walk(run):
      if isinstance(st, ast.Assign) and len(st.targets) == 1 and isinstance(st.value, ast.Name) \
          and st.value.id in names and dotted(st.targets[0]) not in names \
          and isinstance(st.targets[0], ast.Name):
        names.add(st.targets[0].id)
        changed = True
  calls = [c for c in calls_in(run) if dotted(c.func) in names]
  if len(calls) != 1 or calls[0].keywords or any(
      isinstance(a, ast.Starred) for a in calls[0].args):
    raise AnalysisError(f"{VM}: the `bytecode_fn(state, op)` call in "
                        "run_instruction was not recognised")
  npass = len(calls[0].args)
  for hname, fn in sorted(methods.items()):
    if not hname.startswith(prefix):
      continue
    opname = hname[len(prefix):]
    if opname not in tab.opcode_classes:
      continue
    problem = _callable_problem(hname, fn, npass, "run_instruction")
    facts = {"params": len(fn.args.args) - 1}
    ctx.check(problem is None, opname, VM, fn.lineno, problem or "", facts)


# -- R15.9 ------------------------------------------------------------------------

@rule("R15.9", "C15", floor=17)
def r15_9(ctx):
  """CALL_INTRINSIC_1/2: every intrinsic name the reader can produce has a handler."""
  from pycnite import mapping  # reference table
  import opcode as host_opcode
  tab = O.opcode_table(ctx)
  prefix, methods = _handlers(ctx)
  refs = {}
  for k, attr, host in ((1, "PYTHON_3_12_INTRINSIC_1_DESCS", "_intrinsic_1_descs"),
                        (2, "PYTHON_3_12_INTRINSIC_2_DESCS", "_intrinsic_2_descs")):
    names = list(getattr(mapping, attr, []))
    if not names:
      raise AnalysisError(f"pycnite.mapping.{attr} not found")
    hostnames = list(getattr(host_opcode, host, []))
    if hostnames and hostnames != names:
      raise AnalysisError(
          f"reference tables disagree: pycnite {attr} != host opcode.{host}")
    refs[k] = names
  for k, names in refs.items():
    hname = f"{prefix}CALL_INTRINSIC_{k}"
    fn = methods.get(hname)
    if fn is None:
      raise AnalysisError(f"{VM}: {hname} not found")
    opparam = fn.args.args[2].arg
    sub = None
    for n in ast.walk(fn):
      if isinstance(n, ast.Call) and dotted(n.func) == "getattr" and \
          len(n.args) >= 2 and isinstance(n.args[1], ast.JoinedStr):
        js = n.args[1]
        if len(js.values) == 2 and isinstance(js.values[0], ast.Constant) and \
            isinstance(js.values[1], ast.FormattedValue) and \
            dotted(js.values[1].value) == f"{opparam}.argval":
          sub = js.values[0].value
    target = None
    for st in ast.walk(fn):
      if isinstance(st, ast.Assign) and isinstance(st.value, ast.Call) and \
          dotted(st.value.func) == "getattr" and len(st.targets) == 1:
        target = dotted(st.targets[0])
    calls = [c for c in calls_in(fn) if target and dotted(c.func) == target]
    if sub is None or len(calls) != 1 or calls[0].keywords:
      raise AnalysisError(f"{VM}: {hname}'s getattr dispatch on op.argval was "
                          "not recognised")
    npass = len(calls[0].args)
    for name in names:
      target_fn = methods.get(sub + name)
      construct = f"CALL_INTRINSIC_{k}:{name}"
      if target_fn is None:
        ctx.bad(construct, VM, fn.lineno,
                f"no VirtualMachine.{sub}{name}: {hname} raises "
                "VirtualMachineError('Unknown intrinsic function')",
                {"handler": sub + name})
        continue
      problem = _callable_problem(sub + name, target_fn, npass, hname)
      ctx.check(problem is None, construct, VM, target_fn.lineno, problem or "",
                {"handler": sub + name, "line": target_fn.lineno})


# -- R15.10 -----------------------------------------------------------------------
# An attribute of an abstract value that the VM hands to len() / iteration /
# indexing without a None test must never be assigned something None-able.

_SEQ_CONSUMER_FILES = ("pytype/vm_utils.py", "pytype/vm.py",
                       "pytype/pattern_matching.py")
_ABS_DIRS = ("pytype/abstract/", "pytype/overlays/")
_SEQ_FUNCS = {"len", "tuple", "list", "set", "frozenset", "sorted", "enumerate",
              "zip", "iter", "reversed", "sum", "min", "max", "any", "all"}
_NONNULL_FUNCS = {"tuple", "list", "set", "frozenset", "dict", "sorted", "str",
                  "int", "bool", "len", "repr", "float", "bytes", "reversed",
                  "enumerate", "zip", "map", "filter", "range", "type", "id",
                  "hash", "isinstance", "sum", "abs", "format"}


def _abs_files(ctx):
  return [f for f in all_py_files(ctx)
          if f.startswith(_ABS_DIRS) and not f.endswith("_test.py")
          and not f.rsplit("/", 1)[-1].startswith("test_")]


def _mentions(node, text):
  return any(src(n) == text for n in ast.walk(node)
             if isinstance(n, (ast.Attribute, ast.Name)))


def _seq_consumers(ctx):
  """attr -> [(file, line, how, receiver text, guarded)] for `X.attr` used as a
  sized/iterable/subscriptable object in the VM files."""
  out = {}
  for rel in _SEQ_CONSUMER_FILES:
    mod = get_module(ctx, rel)
    for n in ast.walk(mod.tree):
      hits = []
      if isinstance(n, ast.Call) and dotted(n.func) in _SEQ_FUNCS:
        hits = [(a, f"{dotted(n.func)}()") for a in n.args[:1]]
      elif isinstance(n, (ast.For, ast.AsyncFor, ast.comprehension)):
        hits = [(n.iter, "iteration")]
      elif isinstance(n, ast.Subscript) and isinstance(n.ctx, ast.Load):
        hits = [(n.value, "subscript")]
      elif isinstance(n, ast.Starred) and isinstance(n.ctx, ast.Load):
        hits = [(n.value, "*unpack")]
      elif isinstance(n, ast.Compare) and len(n.ops) == 1 and \
          isinstance(n.ops[0], (ast.In, ast.NotIn)):
        hits = [(n.comparators[0], "in")]
      for e, how in hits:
        if not (isinstance(e, ast.Attribute) and isinstance(
            e.value, (ast.Name, ast.Attribute)) and dotted(e)):
          continue
        text = src(e)
        anchor = n if not isinstance(n, ast.comprehension) else mod.parent[n]
        st = mod.enclosing_stmt(anchor)
        guarded = any(_mentions(t, text) for t, _ in flow.guards(mod.parent, st))
        # guards inside the expression: `x.a and len(x.a)`, `.. if x.a else ..`,
        # and comprehension conditions
        cur = anchor
        while not guarded and cur is not st and cur in mod.parent:
          par = mod.parent[cur]
          if isinstance(par, ast.BoolOp):
            i = par.values.index(cur) if cur in par.values else 0
            guarded = any(_mentions(v, text) for v in par.values[:i])
          elif isinstance(par, ast.IfExp) and cur is not par.test:
            guarded = _mentions(par.test, text)
          cur = par
        if isinstance(st, (ast.If, ast.While)) and not guarded and \
            _within(mod, anchor, st.test) is False:
          pass
        out.setdefault(e.attr, []).append(
            {"file": rel, "line": getattr(anchor, "lineno", st.lineno), "how": how,
             "expr": text, "guarded": guarded})
  return out


def _within(mod, node, root):
  while node is not None:
    if node is root:
      return True
    node = mod.parent.get(node)
  return False


class _Nullness:
  """nonnull / nullable / unknown for an expression (never guesses nullable)."""

  def __init__(self, ctx):
    self.ctx = ctx
    self._classes = None
    self._summ = {}
    self._rd = {}

  def classes(self):
    if self._classes is None:
      self._classes = {}
      for rel in _abs_files(self.ctx):
        mod = get_module(self.ctx, rel)
        for n in ast.walk(mod.tree):
          if isinstance(n, ast.ClassDef):
            self._classes.setdefault(n.name, []).append((mod, n))
    return self._classes

  def resolve_method(self, mod, cls, name, depth=0, seen=None):
    """The def of `name` found along the bases of cls (by class name)."""
    seen = seen or set()
    if cls in seen or depth > 8:
      return None
    seen.add(cls)
    for st in cls.body:
      if isinstance(st, ast.FunctionDef) and st.name == name:
        return mod, st
    for b in cls.bases:
      bn = (dotted(b) or "").split(".")[-1]
      cands = self.classes().get(bn, [])
      same = [c for c in cands if c[0] is mod] or cands
      if len(same) == 1:
        r = self.resolve_method(same[0][0], same[0][1], name, depth + 1, seen)
        if r:
          return r
    return None

  def summary(self, mod, fn, depth):
    key = fn
    if key in self._summ:
      return self._summ[key]
    self._summ[key] = "unknown"   # recursion guard
    if any(isinstance(n, (ast.Yield, ast.YieldFrom)) for n in walk_no_nested(fn)) or \
        isinstance(fn, ast.AsyncFunctionDef) or fn.decorator_list:
      return "unknown"
    rets = [n for n in walk_no_nested(fn) if isinstance(n, ast.Return)]
    res = []
    if not flow.terminates(fn.body):
      res.append("nullable")
    for r in rets:
      res.append("nullable" if r.value is None else self.of(mod, r.value, r, depth + 1))
    out = "nullable" if "nullable" in res else (
        "nonnull" if res and all(x == "nonnull" for x in res) else "unknown")
    self._summ[key] = out
    return out

  def rd(self, fn):
    if fn not in self._rd:
      from rules._pytd_schema import reaching
      self._rd[fn] = reaching(fn)
    return self._rd[fn]

  def of(self, mod, e, stmt, depth=0):
    if depth > 5:
      return "unknown"
    if isinstance(e, ast.Constant):
      return "nullable" if e.value is None else "nonnull"
    if isinstance(e, (ast.Tuple, ast.List, ast.Set, ast.Dict, ast.ListComp, ast.SetComp,
                      ast.DictComp, ast.GeneratorExp, ast.JoinedStr, ast.Lambda,
                      ast.Compare)):
      return "nonnull"
    if isinstance(e, ast.NamedExpr):
      return self.of(mod, e.value, stmt, depth + 1)
    if isinstance(e, ast.BoolOp):
      vals = [self.of(mod, v, stmt, depth + 1) for v in e.values]
      if isinstance(e.op, ast.Or):
        return vals[-1]
      return "nullable" if "nullable" in vals else (
          "nonnull" if all(v == "nonnull" for v in vals) else "unknown")
    if isinstance(e, ast.IfExp):
      # an arm that the condition itself talks about is not decided
      vals = ["unknown" if _mentions(e.test, src(arm)) and not isinstance(arm, ast.Constant)
              else self.of(mod, arm, stmt, depth + 1) for arm in (e.body, e.orelse)]
      return "nullable" if "nullable" in vals else (
          "nonnull" if all(v == "nonnull" for v in vals) else "unknown")
    if isinstance(e, ast.BinOp):
      return "nonnull"   # an operator result; None has no operators
    if isinstance(e, ast.Call):
      d = dotted(e.func)
      if d in _NONNULL_FUNCS:
        return "nonnull"
      if d == "getattr" and len(e.args) == 3:
        return self.of(mod, e.args[2], stmt, depth + 1) if isinstance(
            e.args[2], ast.Constant) and e.args[2].value is None else "unknown"
      if isinstance(e.func, ast.Attribute) and isinstance(e.func.value, ast.Name):
        fn = mod.enclosing_function(stmt)
        meth = fn
        while meth is not None and not isinstance(mod.parent.get(meth), ast.ClassDef):
          meth = mod.enclosing_function(meth)
        if meth is not None and not isinstance(meth, ast.Lambda) and meth.args.args \
            and e.func.value.id == meth.args.args[0].arg:
          r = self.resolve_method(mod, mod.parent[meth], e.func.attr)
          if r:
            return self.summary(r[0], r[1], depth)
      return "unknown"
    if isinstance(e, ast.Name):
      fn = mod.enclosing_function(stmt)
      if fn is None or isinstance(fn, ast.Lambda):
        return "unknown"
      for t, pol in flow.guards(mod.parent, stmt):
        if _mentions(t, e.id):
          return "unknown"   # tested on the path: not decided
      from rules._pytd_schema import defs_at
      defs = defs_at(self.rd(fn), stmt, e.id)
      if not defs:
        a = fn.args
        pos = a.posonlyargs + a.args
        dflt = dict(zip([p.arg for p in pos[len(pos) - len(a.defaults):]], a.defaults))
        dflt.update({p.arg: d for p, d in zip(a.kwonlyargs, a.kw_defaults) if d is not None})
        d = dflt.get(e.id)
        if isinstance(d, ast.Constant) and d.value is None:
          return "nullable"
        return "unknown"
      vals = []
      for d in defs:
        v = None
        if isinstance(d, ast.Assign) and len(d.targets) == 1 and \
            isinstance(d.targets[0], ast.Name) and d.targets[0].id == e.id:
          v = d.value
        vals.append(self.of(mod, v, d, depth + 1) if v is not None and d is not stmt
                    else "unknown")
      return "nullable" if "nullable" in vals else (
          "nonnull" if all(v == "nonnull" for v in vals) else "unknown")
    return "unknown"


def _attr_store(t, recv=None):
  return isinstance(t, ast.Attribute) and isinstance(t.value, ast.Name) and \
      isinstance(t.ctx, ast.Store) and (recv is None or t.value.id == recv)


def _repaired(mod, d, recv, attr):
  """A later `if <recv>.<attr> is None:` / `if not <recv>.<attr>:` in an
  enclosing block whose body (re)assigns the attribute or leaves."""
  want = {f"{recv}.{attr} is None", f"not {recv}.{attr}", f"{recv}.{attr} == None"}
  node = d
  while node in mod.parent:
    par = mod.parent[node]
    for fld in ("body", "orelse", "finalbody"):
      blk = getattr(par, fld, None)
      if isinstance(blk, list) and node in blk:
        for later in blk[blk.index(node) + 1:]:
          if isinstance(later, ast.If) and src(later.test) in want:
            if flow.terminates(later.body):
              return True
            for s in later.body:
              if isinstance(s, ast.Assign) and any(
                  _attr_store(t, recv) and t.attr == attr for t in s.targets):
                return True
    if isinstance(par, (ast.FunctionDef, ast.AsyncFunctionDef)):
      break
    node = par
  return False


@rule("R15.10", "C15", floor=30)
def r15_10(ctx):
  """Sequence-like attributes of abstract values are never left None."""
  consumers = _seq_consumers(ctx)
  if "match_args" not in consumers:
    raise AnalysisError("vm_utils: the len()/slice use of <cls>.match_args was "
                        "not found (anchor of R15.10)")
  nul = _Nullness(ctx)
  n_sites = 0
  for rel in _abs_files(ctx):
    mod = get_module(ctx, rel)
    for fn in ast.walk(mod.tree):
      if not isinstance(fn, (ast.FunctionDef, ast.AsyncFunctionDef)):
        continue
      stores = {}
      for n in walk_no_nested(fn):
        if isinstance(n, ast.Assign):
          for t in n.targets:
            if _attr_store(t) and t.attr in consumers:
              stores.setdefault((t.value.id, t.attr), []).append(n)
      if not stores:
        continue
      selfname = fn.args.args[0].arg if fn.args.args and isinstance(
          mod.parent.get(fn), ast.ClassDef) else None
      qual = O_qual(mod, fn)
      for (recv, attr), assigns in sorted(stores.items()):
        open_uses = [c for c in consumers[attr] if not c["guarded"]]
        cls_of = {a: nul.of(mod, a.value, a) for a in assigns}
        facts = {"attribute": attr, "receiver": recv,
                 "assigned": [f"{src(a.value)[:50]} -> {cls_of[a]}" for a in assigns],
                 "unguarded_consumers": [f"{c['file']}:{c['line']} {c['how']} {c['expr']}"
                                         for c in open_uses][:4]}
        n_sites += 1
        construct = f"{rel.removeprefix('pytype/')}:{qual}:{recv}.{attr}"
        if not open_uses:
          ctx.ok(construct, rel, assigns[0].lineno, facts | {"note": "every consumer tests it"})
          continue
        bad = [a for a in assigns if cls_of[a] == "nullable"]
        if recv == selfname and bad:
          # only the definitions that can still be in force when the method ends
          def gen(unit, attr=attr, recv=recv):
            if isinstance(unit, ast.Assign) and any(
                _attr_store(t, recv) and t.attr == attr for t in unit.targets):
              return {unit}
            return None

          def kill(unit, attr=attr, recv=recv):
            if isinstance(unit, ast.Assign) and any(
                _attr_store(t, recv) and t.attr == attr for t in unit.targets):
              return lambda fact: True
            return None
          fl = flow.flow(fn, gen, kill, mode="may")
          live = set()
          for kind, _, st in fl.exits:
            if kind in ("return", "end") and st:
              live |= set(st)
          bad = [a for a in bad if a in live and not _repaired(mod, a, recv, attr)]
        if bad:
          b = bad[0]
          ctx.bad(f"{construct}:may-be-None", rel, b.lineno,
                  f"{qual} can leave `{recv}.{attr}` None (`{src(b.value)[:70]}` "
                  "is None on some path and nothing after it supplies a "
                  f"default), but {open_uses[0]['file']}:{open_uses[0]['line']} "
                  f"applies {open_uses[0]['how']} to `{open_uses[0]['expr']}` "
                  "without a None test: TypeError inside the analysis", facts)
        else:
          ctx.ok(construct, rel, assigns[0].lineno, facts)
  if n_sites == 0:
    raise AnalysisError("no assignment to a consumed attribute found under "
                        f"{_ABS_DIRS}")


def O_qual(mod, node):
  parts = [node.name]
  cur = node
  while cur in mod.parent:
    cur = mod.parent[cur]
    if isinstance(cur, (ast.FunctionDef, ast.AsyncFunctionDef, ast.ClassDef)):
      parts.append(cur.name)
  return ".".join(reversed(parts))


# -- R15.11 -----------------------------------------------------------------------
# A list of source lines that is indexed by a line number (ast / tokenize /
# opcode numbering) must be cut exactly where CPython ends a line: at \n, \r\n
# and \r - nowhere else.

# str.splitlines() also cuts at \x0b \x0c \x1c \x1d \x1e \x85    
# (reference: CPython's str.splitlines documentation / unicodeobject.c)
_SOURCE_LINE_FILES = ("pytype/preprocess.py", "pytype/io.py", "pytype/vm.py",
                      "pytype/vm_utils.py", "pytype/tracer_vm.py", "pytype/analyze.py",
                      "pytype/context.py", "pytype/constant_folding.py")
_SOURCE_LINE_DIRS = ("pytype/directors/", "pytype/errors/", "pytype/blocks/",
                     "pytype/pyc/")
# splitlines() results indexed by a position, triaged: (file, function) -> why
# a misnumbered line cannot become an internal failure of an *analysis*
_SPLITLINES_INDEXED_OK = {
    ("pytype/pyi/parser.py", "_fix_src"):
        "stub (.pyi) text, not the analysed source: a separator character in "
        "a stub only makes the keyword-renaming workaround patch the wrong "
        "line, and the stub is then rejected with the original ParseError",
    ("pytype/pyi/types.py", "ParseError.at"):
        "stub (.pyi) text: picks the line quoted in a ParseError message; "
        "IndexError is caught, a wrong line only changes the quoted text",
}


def _line_split_kind(call):
  """'splitlines' / 'split-newline' / 're-split' for a call that cuts text into
  lines, else None."""
  f = call.func
  if isinstance(f, ast.Attribute) and f.attr == "splitlines":
    return "splitlines"
  if isinstance(f, ast.Attribute) and f.attr == "split" and len(call.args) >= 1 and \
      isinstance(call.args[0], ast.Constant) and call.args[0].value in ("\n", b"\n"):
    return "split-newline"
  if dotted(f) == "re.split" and len(call.args) >= 2 and \
      isinstance(call.args[0], ast.Constant) and isinstance(call.args[0].value, str) \
      and "\n" in _unescape(call.args[0].value):
    return "re-split"
  return None


def _unescape(pat):
  return pat.replace("\\r", "\r").replace("\\n", "\n")


def _is_position(sl):
  """The subscript is computed (not [0], [-1], [2:], [:3])."""
  if isinstance(sl, ast.Slice):
    return any(b is not None and try_fold(b) is None for b in (sl.lower, sl.upper, sl.step))
  return try_fold(sl) is None


def _position_uses(mod, call):
  """Subscripts with a computed index applied to the result of `call`
  (directly, through the local or through the self attribute it is bound to)."""
  par = mod.parent.get(call)
  uses = []
  if isinstance(par, ast.Subscript) and par.value is call:
    if _is_position(par.slice):
      uses.append(par)
    return uses
  if not (isinstance(par, (ast.Assign, ast.AnnAssign)) and par.value is call):
    return uses
  targets = par.targets if isinstance(par, ast.Assign) else [par.target]
  fn = mod.enclosing_function(call)
  for t in targets:
    if isinstance(t, ast.Name) and fn is not None:
      scope = fn
    elif isinstance(t, ast.Attribute) and isinstance(t.value, ast.Name):
      scope = fn
      while scope is not None and not isinstance(mod.parent.get(scope), ast.ClassDef):
        scope = mod.enclosing_function(scope)
      scope = mod.parent.get(scope) if scope is not None else None
    else:
      continue
    if scope is None:
      continue
    want = src(t)
    for n in ast.walk(scope):
      if isinstance(n, ast.Subscript) and src(n.value) == want and _is_position(n.slice):
        uses.append(n)
  return uses


def _normalises_newlines(expr):
  """The expression rewrites \\r\\n / \\r to \\n (str.replace / re.sub)."""
  for n in ast.walk(expr):
    if isinstance(n, ast.Call) and n.args and isinstance(n.args[0], ast.Constant) \
        and isinstance(n.args[0].value, str):
      name = n.func.attr if isinstance(n.func, ast.Attribute) else dotted(n.func)
      if name in ("replace", "sub") and "\r" in _unescape(n.args[0].value):
        return True
  return False


def _receiver_normalised(mod, call):
  recv = call.func.value if isinstance(call.func, ast.Attribute) else call.args[1]
  if _normalises_newlines(recv):
    return True
  if isinstance(recv, ast.Name):
    fn = mod.enclosing_function(call)
    if fn is None or isinstance(fn, ast.Lambda):
      return False
    from rules._pytd_schema import reaching, defs_at
    defs = defs_at(reaching(fn), mod.enclosing_stmt(call), recv.id)
    return bool(defs) and all(
        isinstance(d, ast.Assign) and _normalises_newlines(d.value) for d in defs)
  return False


@rule("R15.11", "C15", floor=14)
def r15_11(ctx):
  """Line lists indexed by line numbers are cut where CPython cuts lines."""
  n = 0
  for rel in all_py_files(ctx):
    base = rel.rsplit("/", 1)[-1]
    if base.endswith("_test.py") or base.startswith("test_") or "/tests/" in rel:
      continue
    text = ctx.read(rel)
    if "splitlines" not in text and ".split(" not in text:
      continue
    mod = get_module(ctx, rel)
    counts = {}
    for call in calls_in(mod.tree):
      kind = _line_split_kind(call)
      if kind is None:
        continue
      qual = O_qual(mod, mod.enclosing_function(call)) if isinstance(
          mod.enclosing_function(call), (ast.FunctionDef, ast.AsyncFunctionDef)) \
          else "<module>"
      k = (qual, kind)
      counts[k] = counts.get(k, 0) + 1
      construct = f"{rel.removeprefix('pytype/')}:{qual}:{kind}" + (
          f"#{counts[k]}" if counts[k] > 1 else "")
      uses = _position_uses(mod, call)
      facts = {"call": src(call)[:60], "kind": kind,
               "indexed_by": sorted({src(u.slice) for u in uses})}
      n += 1
      if not uses:
        ctx.ok(construct, rel, call.lineno, facts | {"note": "not indexed by a computed position"})
        continue
      where = f"{uses[0].lineno}: [{src(uses[0].slice)}]"
      if kind == "splitlines":
        why = _SPLITLINES_INDEXED_OK.get((rel, qual))
        if why is None:
          ctx.bad(f"{construct}:position-indexed", rel, call.lineno,
                  f"the list made by `{src(call)[:50]}` is indexed by a computed "
                  f"position (line {where}); str.splitlines() also cuts at form "
                  "feed, \\x0b, \\x1c-\\x1e, \\x85, \\u2028 and \\u2029, which are "
                  "legal inside a Python line, so after such a character every "
                  "ast/tokenize/opcode line number addresses the wrong element "
                  "(wrong line rewritten or reported, IndexError past the end)",
                  facts)
        else:
          ctx.ok(construct, rel, call.lineno, facts | {"triaged": why})
        continue
      in_domain = rel in _SOURCE_LINE_FILES or rel.startswith(_SOURCE_LINE_DIRS)
      if kind == "re-split":
        pat = _unescape(call.args[0].value)
        ok = "\r\n" in pat and pat.replace("\r\n", "").count("\r") >= 1
        ctx.check(ok or not in_domain, f"{construct}:pattern", rel, call.lineno,
                  f"re.split({call.args[0].value!r}, ..) does not cut at each of "
                  "\\r\\n, \\r and \\n, but its result is indexed by line number",
                  facts)
        continue
      if in_domain and not _receiver_normalised(mod, call):
        ctx.bad(f"{construct}:no-newline-normalisation", rel, call.lineno,
                f"`{src(call)[:50]}` is indexed by line number (line {where}) but "
                "the text is not normalised first: CPython also ends a line at "
                "\\r\\n and at a lone \\r, so for such a source the ast line "
                "numbers and this list disagree (a \\r stays inside the element, "
                "or the list is shorter than the numbering: IndexError)", facts)
      else:
        ctx.ok(construct, rel, call.lineno, facts | {"analysed_source": in_domain})
  if n == 0:
    raise AnalysisError("no line-splitting call found under pytype/")


_ET = ERROR_TYPES
_CLASSES = "pytype/abstract/_classes.py"
_MATCH_ARGS = "    self.match_args = self._convert_str_tuple(\"__match_args__\") or ()\n"
PREPROCESS = "pytype/preprocess.py"
_SPLIT_TODAY = '    lines = re.split(r"(\\r\\n|\\r|\\n)", src)\n'


def _pre_split(split_stmts, join='"\\n"'):
  """augment_annotations re-spelled: `lines` built by split_stmts (one entry per
  line, no separator entries), indexed by the ast line number, joined by join."""
  return [(PREPROCESS, _SPLIT_TODAY, split_stmts),
          (PREPROCESS, "      line = lines[2 * i].encode(\"utf-8\")\n",
           "      line = lines[i].encode(\"utf-8\")\n"),
          (PREPROCESS, "      lines[2 * i] = (line[:col]", "      lines[i] = (line[:col]"),
          (PREPROCESS, "    src = \"\".join(lines)\n", f"    src = {join}.join(lines)\n")]


# -- refactored shapes (behaviour-preserving, see benign/C15-r*) used by variants ----

_READER_OLD = ("  first_byte = bytecode[0]\n"
               "  if first_byte == 0:  # compile OK\n"
               "    return bytecode[1:]\n"
               "  elif first_byte == 1:  # compile error\n"
               "    code = bytecode[1:]  # type: bytes\n"
               "    raise CompileError(utils.native_str(code))\n"
               "  else:\n"
               "    raise OSError(\"_compile.py produced invalid result\")\n")


def _reader_guards(valid="(0, 1)", err="status == 1"):
  """the status decoding written as guard clauses (C15-r3)."""
  return (COMPILER, _READER_OLD,
          "  status = bytecode[0]\n"
          f"  if status not in {valid}:\n"
          "    raise OSError(\"_compile.py produced invalid result\")\n"
          "  payload = bytecode[1:]  # type: bytes\n"
          f"  if {err}:  # compile error\n"
          "    raise CompileError(utils.native_str(payload))\n"
          "  return payload  # compile OK\n")


_INIT_OLD = ("    if match:\n"
             "      self.error = match.group(1)\n"
             "      self.filename = match.group(2)\n"
             "      self.line = int(match.group(3))\n"
             "    else:\n"
             "      self.error = msg\n"
             "      self.filename = None\n"
             "      self.line = 1\n")


def _init_groups(order="error, filename, line", line="int(line)"):
  return (COMPILER, _INIT_OLD,
          "    if not match:\n"
          "      self.error = msg\n"
          "      self.filename = None\n"
          "      self.line = 1\n"
          "      return\n"
          f"    {order} = match.groups()\n"
          "    self.error = error\n"
          "    self.filename = filename\n"
          f"    self.line = {line}\n")


_DISPATCH_OLD = ("    bytecode_fn = getattr(self, f\"byte_{op.name}\", None)\n"
                 "    if bytecode_fn is None:\n"
                 "      raise VirtualMachineError(f\"Unknown opcode: {op.name}\")\n"
                 "    state = bytecode_fn(state, op)\n")


def _dispatch_helper(prefix="byte_", call="opcode_handler(state, op)"):
  """the handler look-up moved into a method of the VM (C15-r2)."""
  return [(VM, _DISPATCH_OLD,
           "    opcode_handler = self._get_opcode_handler(op)\n"
           f"    state = {call}\n"),
          (VM, "  def _run_frame_blocks(self, frame, node, annotated_locals):\n",
           "  def _get_opcode_handler(self, op):\n"
           f"    opcode_handler = getattr(self, f\"{prefix}{{op.name}}\", None)\n"
           "    if opcode_handler is None:\n"
           "      raise VirtualMachineError(f\"Unknown opcode: {op.name}\")\n"
           "    return opcode_handler\n\n"
           "  def _run_frame_blocks(self, frame, node, annotated_locals):\n")]


_FALLBACK_OLD = ("  ctx = context.Context(options, loader, src=src)\n"
                 "  if compiler_error:\n"
                 "    ctx.errorlog.python_compiler_error(*compiler_error)\n"
                 "  ast = pytd_builtins.GetDefaultAst(\n"
                 "      parser.PyiOptions.from_toplevel_options(options)\n"
                 "  )\n"
                 "  result = pytd_builtins.DEFAULT_SRC + other_error_info\n"
                 "  return AnalysisResult(ctx, ast, result)\n")

# the fallback result built by a module-level helper called in tail position (C15-r1)
_FALLBACK_HELPER = [
    (IO, _FALLBACK_OLD,
     "  return _make_failed_analysis_result(\n"
     "      options, loader, src, compiler_error, other_error_info\n  )\n"),
    (IO, "def _write_pyi_output(options, contents, filename):\n",
     "def _make_failed_analysis_result(options, loader, src, compiler_error, other_error_info):\n"
     + _FALLBACK_OLD + "\n\ndef _write_pyi_output(options, contents, filename):\n"),
]

_EXCEPT_CHAIN = (
    "  except pyc.CompileError as e:\n"
    "    compiler_error = (options.input, e.line, e.error)\n"
    "  except constant_folding.ConstantError as e:\n"
    "    compiler_error = (options.input, e.lineno, e.message)\n"
    "  except IndentationError as e:\n"
    "    compiler_error = (options.input, e.lineno, e.msg)\n"
    "  except libcst.ParserSyntaxError as e:\n"
    "    # TODO(rechen): We can get rid of this branch once we delete\n"
    "    # directors.parser_libcst.\n"
    "    compiler_error = (options.input, e.raw_line, e.message)\n"
    "  except SyntaxError as e:\n"
    "    compiler_error = (options.input, e.lineno, e.msg)\n")
_TABLE_ROWS = ('(pyc.CompileError, "line", "error")', '(constant_folding.ConstantError, "lineno", "message")',
               '(IndentationError, "lineno", "msg")', '(libcst.ParserSyntaxError, "raw_line", "message")',
               '(SyntaxError, "lineno", "msg")')


def _error_table(rows=_TABLE_ROWS, types="tuple(\n    exc_type for exc_type, _, _ in _COMPILER_ERROR_ATTRIBUTES\n)",
                 test="isinstance(e, exc_type)"):
  """The five compile-error handlers as one table-driven handler (the shape of
  benign/C15-b3r1), with room for a defect."""
  return [
      (IO, "@_set_verbosity_from(posarg=0)\ndef check_or_generate_pyi(options)",
       "_COMPILER_ERROR_ATTRIBUTES = (\n" + "".join(f"    {r},\n" for r in rows) + ")\n"
       f"_COMPILER_ERROR_TYPES = {types}\n\n\n"
       "def _describe_compiler_error(filename, e):\n"
       "  for exc_type, line_attr, message_attr in _COMPILER_ERROR_ATTRIBUTES:\n"
       f"    if {test}:\n"
       "      return (filename, getattr(e, line_attr), getattr(e, message_attr))\n"
       '  raise AssertionError(f"Not a compiler error: {e!r}")\n\n\n'
       "@_set_verbosity_from(posarg=0)\ndef check_or_generate_pyi(options)"),
      (IO, _EXCEPT_CHAIN,
       "  except _COMPILER_ERROR_TYPES as e:\n"
       "    compiler_error = _describe_compiler_error(options.input, e)\n")]


VARIANTS = [
    # benign/C15-b3r1: the compile-error handlers driven by a module-level table
    {"name": "twin-benign-C15-b3r1-error-table", "rule": "R15.2",
     "patch": "benign/C15-b3r1/patch.diff", "expect": "silent"},
    {"name": "twin-error-table", "rule": "R15.2", "expect": "silent", "edits": _error_table()},
    {"name": "error-table-wrong-attribute", "rule": "R15.2", "expect": "fire",
     "edits": _error_table(rows=_TABLE_ROWS[:4] + ('(SyntaxError, "line", "msg")',))},
    {"name": "error-table-lacks-constant-error", "rule": "R15.2", "expect": "fire",
     "edits": _error_table(rows=_TABLE_ROWS[:1] + _TABLE_ROWS[2:])},
    # a broader row first: every compile error is described with attributes it lacks
    {"name": "error-table-broad-row-first", "rule": "R15.2", "expect": "fire",
     "edits": _error_table(rows=('(Exception, "lineno", "msg")',) + _TABLE_ROWS)},
    {"name": "error-table-types-from-other-expression", "rule": "R15.2", "expect": "error",
     "edits": _error_table(types="tuple(r[0] for r in _COMPILER_ERROR_ATTRIBUTES[1:])")},
    {"name": "error-table-helper-tests-type-identity", "rule": "R15.2", "expect": "error",
     "edits": _error_table(test="type(e) is exc_type")},
    # -- R15.1
    {"name": "delete-byte_END_SEND", "rule": "R15.1", "file": VM, "expect": "fire",
     "old": "  def byte_END_SEND(self, state, op):",
     "new": "  def _disabled_END_SEND(self, state, op):"},
    {"name": "rename-byte_COPY", "rule": "R15.1", "file": VM, "expect": "fire",
     "old": "  def byte_COPY(self, state, op):",
     "new": "  def byte_COPY_ITEM(self, state, op):"},
    {"name": "opcode-class-renamed", "rule": "R15.1", "file": OPC, "expect": "fire",
     "old": "class END_SEND(Opcode):", "new": "class END_SEND_OP(Opcode):"},
    {"name": "dispatch-prefix-typo", "rule": "R15.1", "file": VM, "expect": "fire",
     "old": 'f"byte_{op.name}"', "new": 'f"bytes_{op.name}"'},
    {"name": "versioned-class-gets-new-name", "rule": "R15.1", "expect": "fire",
     "edits": [
         (OPC, "      class YIELD_VALUE(Opcode):  # pylint: disable=redefined-outer-name",
          "      class YIELD_VALUE_PRE312(Opcode):  # pylint: disable=redefined-outer-name"),
         (OPC, "      return YIELD_VALUE\n", "      return YIELD_VALUE_PRE312\n")]},
    {"name": "synthetic-handler-deleted", "rule": "R15.1", "file": VM, "expect": "fire",
     "old": "  def byte_SETUP_EXCEPT_311(self, state, op):",
     "new": "  def _setup_except_311(self, state, op):"},
    {"name": "twin-handler-moved-to-mixin", "rule": "R15.1", "expect": "silent",
     "edits": [
         (VM, "  def byte_NOP(self, state, op):\n    return state\n\n", ""),
         (VM, "class VirtualMachine:\n",
          "class _NopMixin:\n\n  def byte_NOP(self, state, op):\n    return state\n\n\n"
          "class VirtualMachine(_NopMixin):\n")]},
    {"name": "twin-handler-alias", "rule": "R15.1", "file": VM, "expect": "silent",
     "old": "  def byte_END_FOR(self, state, op):\n    # No-op in pytype. See comment in `byte_FOR_ITER` for details.\n    return state\n",
     "new": "  byte_END_FOR = byte_NOP\n"},
    # -- R15.2
    {"name": "constant-error-handler-widened-to-Exception", "rule": "R15.2", "file": IO,
     "expect": "fire", "old": "  except constant_folding.ConstantError as e:",
     "new": "  except Exception as e:"},
    {"name": "compile-error-attribute-typo", "rule": "R15.2", "file": IO, "expect": "fire",
     "old": "compiler_error = (options.input, e.line, e.error)",
     "new": "compiler_error = (options.input, e.lineno, e.error)"},
    {"name": "triple-loses-filename", "rule": "R15.2", "file": IO, "expect": "fire",
     "old": "compiler_error = (options.input, e.lineno, e.message)",
     "new": "compiler_error = (e.lineno, e.message)"},
    {"name": "usage-error-swallowed", "rule": "R15.2", "file": IO, "expect": "fire",
     "old": "  except utils.UsageError:\n    raise\n  except pyc.CompileError as e:",
     "new": "  except pyc.CompileError as e:"},
    {"name": "syntax-error-handler-removed", "rule": "R15.2", "file": IO, "expect": "fire",
     "old": "  except SyntaxError as e:\n    compiler_error = (options.input, e.lineno, e.msg)\n",
     "new": ""},
    {"name": "skipfile-shadowed-by-exception", "rule": "R15.2", "expect": "fire",
     "edits": [
         (IO, "  except directors.SkipFileError:\n    other_error_info = \"# skip-file found, file not analyzed\"\n", ""),
         (IO, "      raise\n  else:\n    return AnalysisResult(ctx, ast, result)",
          "      raise\n  except directors.SkipFileError:\n    other_error_info = \"# skip-file found, file not analyzed\"\n"
          "  else:\n    return AnalysisResult(ctx, ast, result)")]},
    {"name": "twin-syntaxerror-before-indentationerror", "rule": "R15.2", "expect": "silent",
     "edits": [
         (IO, "    compiler_error = (options.input, e.raw_line, e.message)\n  except SyntaxError as e:",
          "    compiler_error = (options.input, e.raw_line, e.message)\n  except IndentationError as e:"),
         (IO, "    compiler_error = (options.input, e.lineno, e.message)\n  except IndentationError as e:",
          "    compiler_error = (options.input, e.lineno, e.message)\n  except SyntaxError as e:")]},
    {"name": "twin-merged-tuple-handler", "rule": "R15.2", "expect": "silent",
     "edits": [
         (IO, "  except SyntaxError as e:\n    compiler_error = (options.input, e.lineno, e.msg)\n", ""),
         (IO, "  except IndentationError as e:", "  except (IndentationError, SyntaxError) as e:")]},
    # -- R15.3
    {"name": "writer-error-status-2", "rule": "R15.3", "file": COMPILE_BC, "expect": "fire",
     "old": 'output.write(b"\\1")', "new": 'output.write(b"\\2")'},
    {"name": "reader-error-status-2", "rule": "R15.3", "file": COMPILER, "expect": "fire",
     "old": "elif first_byte == 1:", "new": "elif first_byte == 2:"},
    {"name": "writer-ok-status-as-text", "rule": "R15.3", "file": COMPILE_BC, "expect": "fire",
     "old": 'output.write(b"\\0")', "new": 'output.write(b"0")'},
    {"name": "regex-line-group-not-digits", "rule": "R15.3", "file": COMPILER, "expect": "fire",
     "old": 'r"^(.*) \\((.*), line (\\d+)\\)$"', "new": 'r"^(.*) \\((.*), line (.*)\\)$"'},
    {"name": "regex-colon-format", "rule": "R15.3", "file": COMPILER, "expect": "fire",
     "old": 'r"^(.*) \\((.*), line (\\d+)\\)$"', "new": 'r"^(.*) \\((.*):(\\d+)\\)$"'},
    {"name": "regex-groups-swapped-in-init", "rule": "R15.3", "file": COMPILER, "expect": "fire",
     "old": "self.error = match.group(1)\n      self.filename = match.group(2)",
     "new": "self.error = match.group(2)\n      self.filename = match.group(1)"},
    {"name": "argv-mode-not-passed", "rule": "R15.3", "file": COMPILER, "expect": "fire",
     "old": 'cmd = python_exe + ["-E", "-", fi.name, filename or fi.name, mode]',
     "new": 'cmd = python_exe + ["-E", "-", fi.name, filename or fi.name]'},
    {"name": "argv-main-expects-5", "rule": "R15.3", "file": COMPILE_BC, "expect": "fire",
     "old": "if len(sys.argv) != 4:", "new": "if len(sys.argv) != 5:"},
    {"name": "payload-repr-instead-of-str", "rule": "R15.3", "file": COMPILE_BC, "expect": "fire",
     "old": 'output.write(str(err).encode("utf-8"))',
     "new": 'output.write(repr(err).encode("utf-8"))'},
    {"name": "twin-hex-escape-and-direct-subscript", "rule": "R15.3", "expect": "silent",
     "edits": [
         (COMPILE_BC, 'output.write(b"\\1")', 'output.write(b"\\x01")'),
         (COMPILER, "  first_byte = bytecode[0]\n  if first_byte == 0:", "  if bytecode[0] == 0:"),
         (COMPILER, "elif first_byte == 1:", "elif bytecode[0] == 1:")]},
    # -- R15.4
    {"name": "get_awaitable-reads-its-311-argument", "rule": "R15.4", "file": VM, "expect": "fire",
     "old": '    """Implementation of the GET_AWAITABLE opcode."""\n    state, obj = state.pop()',
     "new": '    """Implementation of the GET_AWAITABLE opcode."""\n    log.debug("where=%r", op.arg)\n    state, obj = state.pop()'},
    {"name": "copy-loses-operand-slot", "rule": "R15.4", "file": OPC, "expect": "fire",
     "old": "class COPY(OpcodeWithArg):\n  _FLAGS = HAS_ARGUMENT",
     "new": "class COPY(Opcode):\n  _FLAGS = 0"},
    {"name": "argless-handler-uses-closure-helper", "rule": "R15.4", "file": VM, "expect": "fire",
     "old": "  def byte_PUSH_NULL(self, state, op):\n    return self._push_null(state)",
     "new": "  def byte_PUSH_NULL(self, state, op):\n    vm_utils.load_closure_cell(state, op, False, self.ctx)\n    return self._push_null(state)"},
    {"name": "twin-guarded-helper-read", "rule": "R15.4", "file": VM, "expect": "silent",
     "old": "  def byte_PUSH_NULL(self, state, op):\n    return self._push_null(state)",
     "new": "  def byte_PUSH_NULL(self, state, op):\n    assert not self.is_setup_except(op)\n    return self._push_null(state)"},
    {"name": "twin-resume-drops-unused-operand", "rule": "R15.4", "file": OPC, "expect": "silent",
     "old": "class RESUME(OpcodeWithArg):\n  _FLAGS = HAS_ARGUMENT",
     "new": "class RESUME(Opcode):\n  _FLAGS = 0"},
    # -- R15.5
    {"name": "duplicate-keyword-arm-removed", "rule": "R15.5", "file": ERRORS, "expect": "fire",
     "old": "    elif isinstance(error, error_types.DuplicateKeyword):\n      self.duplicate_keyword(stack, error.name, error.bad_call, error.duplicate)\n",
     "new": ""},
    {"name": "new-binder-error-without-arm", "rule": "R15.5", "file": _ET, "expect": "fire",
     "old": "class WrongArgCount(InvalidParameters):",
     "new": "class StarArgsMismatch(FailedFunctionCall):\n  \"\"\"New error.\"\"\"\n\n\nclass WrongArgCount(InvalidParameters):"},
    {"name": "twin-subclass-covered-by-base-arm", "rule": "R15.5", "file": _ET, "expect": "silent",
     "old": "class WrongArgCount(InvalidParameters):",
     "new": "class TooManyPositionals(WrongArgCount):\n  \"\"\"Refinement.\"\"\"\n\n\nclass WrongArgCount(InvalidParameters):"},
    # -- R15.6
    {"name": "swap-wrong-base", "rule": "R15.6", "file": OPC, "expect": "fire",
     "old": "class SWAP(OpcodeWithArg):", "new": "class SWAP(Opcode):"},
    {"name": "resume-flag-dropped-base-kept", "rule": "R15.6", "file": OPC, "expect": "fire",
     "old": "class RESUME(OpcodeWithArg):\n  _FLAGS = HAS_ARGUMENT",
     "new": "class RESUME(OpcodeWithArg):\n  _FLAGS = 0"},
    {"name": "synthetic-pop_block-gets-operands", "rule": "R15.6", "file": OPC, "expect": "fire",
     "old": "pop_op = POP_BLOCK(-1, end_op.line, end_op.endline, end_op.col, end_op.endcol)",
     "new": "pop_op = POP_BLOCK(-1, end_op.line, end_op.endline, end_op.col, end_op.endcol, -1, -1)"},
    {"name": "make_opcodes-branches-on-has_nargs", "rule": "R15.6", "file": OPC, "expect": "fire",
     "old": "    if cls.has_argument():", "new": "    if cls.has_nargs():"},
    {"name": "has_argument-tests-wrong-constant", "rule": "R15.6", "file": OPC, "expect": "fire",
     "old": "    return bool(cls._FLAGS & HAS_ARGUMENT)", "new": "    return bool(cls._FLAGS & HAS_NARGS)"},
    {"name": "twin-flags-reordered", "rule": "R15.6", "file": OPC, "expect": "silent",
     "old": "_FLAGS = HAS_ARGUMENT | HAS_CONST | NO_NEXT", "new": "_FLAGS = NO_NEXT | HAS_CONST | HAS_ARGUMENT"},
    # -- R15.7
    {"name": "guard-names-argless-class", "rule": "R15.7", "file": PROCESS_BLOCKS, "expect": "fire",
     "old": "if isinstance(op, opcodes.LOAD_NAME) and op.argval == \"__name__\":",
     "new": "if isinstance(op, opcodes.LOAD_BUILD_CLASS) and op.argval == \"__name__\":"},
    {"name": "build_string-loses-operand-slot", "rule": "R15.7", "file": OPC, "expect": "fire",
     "old": "class BUILD_STRING(OpcodeWithArg):  # Arg: Number of items\n  _FLAGS = HAS_ARGUMENT",
     "new": "class BUILD_STRING(Opcode):  # Arg: Number of items\n  _FLAGS = 0"},
    {"name": "twin-guard-with-tuple", "rule": "R15.7", "file": PROCESS_BLOCKS, "expect": "silent",
     "old": "if isinstance(op, opcodes.LOAD_NAME) and op.argval == \"__name__\":",
     "new": "if isinstance(op, (opcodes.LOAD_NAME, opcodes.LOAD_GLOBAL)) and op.argval == \"__name__\":"},
    # -- R15.8
    {"name": "end_send-forgets-return", "rule": "R15.8", "file": VM, "expect": "fire",
     "old": "    # Implements `del STACK[-2]`. Used to clean up when a generator exits.\n    state, top = state.pop()\n    return state.set_top(top)",
     "new": "    # Implements `del STACK[-2]`. Used to clean up when a generator exits.\n    state, top = state.pop()\n    state.set_top(top)"},
    {"name": "cache-handler-wrong-arity", "rule": "R15.8", "file": VM, "expect": "fire",
     "old": "  def byte_CACHE(self, state, op):\n    # No stack or type effects\n    del op\n",
     "new": "  def byte_CACHE(self, state):\n    # No stack or type effects\n"},
    {"name": "twin-both-branches-return", "rule": "R15.8", "file": VM, "expect": "silent",
     "old": "  def byte_NOP(self, state, op):\n    return state\n",
     "new": "  def byte_NOP(self, state, op):\n    if op.line:\n      return state\n    else:\n      return state.forward_cfg_node(\"nop\")\n"},
    # -- R15.9
    {"name": "intrinsic-handler-renamed", "rule": "R15.9", "file": VM, "expect": "fire",
     "old": "  def byte_INTRINSIC_TYPEALIAS(self, state):",
     "new": "  def byte_INTRINSIC_TYPE_ALIAS(self, state):"},
    {"name": "intrinsic-handler-takes-op", "rule": "R15.9", "file": VM, "expect": "fire",
     "old": "  def byte_INTRINSIC_PRINT(self, state):",
     "new": "  def byte_INTRINSIC_PRINT(self, state, op):"},
    {"name": "twin-intrinsic-default-argument", "rule": "R15.9", "file": VM, "expect": "silent",
     "old": "  def byte_INTRINSIC_PRINT(self, state):",
     "new": "  def byte_INTRINSIC_PRINT(self, state, op=None):"},
    # -- R15.10
    {"name": "seeded-C15-m1", "rule": "R15.10", "patch": "seeded/C15-m1/patch.diff",
     "expect": "fire"},
    {"name": "pytd-class-match-args-loses-default", "rule": "R15.10", "file": _CLASSES,
     "expect": "fire",
     "old": "    elif self.load_lazy_attribute(\"__match_args__\"):\n" + _MATCH_ARGS.replace("    self", "      self"),
     "new": "    elif self.load_lazy_attribute(\"__match_args__\"):\n"
            "      self.match_args = self._convert_str_tuple(\"__match_args__\")\n"},
    {"name": "dataclass-match-args-none-when-empty", "rule": "R15.10",
     "file": "pytype/overlays/dataclass_overlay.py", "expect": "fire",
     "old": "    cls.match_args = tuple(attr.name for attr in attrs)\n",
     "new": "    cls.match_args = tuple(attr.name for attr in attrs) if attrs else None\n"},
    {"name": "match-args-searched-in-a-loop-that-may-not-assign", "rule": "R15.10",
     "file": _CLASSES, "expect": "fire",
     "old": "    self.slots = self._convert_str_tuple(\"__slots__\")\n" + _MATCH_ARGS,
     "new": "    self.slots = self._convert_str_tuple(\"__slots__\")\n"
            "    found = None\n"
            "    for key in (\"__match_args__\",):\n"
            "      if key in self.members:\n"
            "        found = self._convert_str_tuple(key)\n"
            "    self.match_args = found\n"},
    {"name": "twin-default-spelled-tuple-call", "rule": "R15.10", "file": _CLASSES,
     "expect": "silent",
     "old": "    self.slots = self._convert_str_tuple(\"__slots__\")\n" + _MATCH_ARGS,
     "new": "    self.slots = self._convert_str_tuple(\"__slots__\")\n"
            "    self.match_args = self._convert_str_tuple(\"__match_args__\") or tuple()\n"},
    {"name": "twin-none-repaired-by-following-test", "rule": "R15.10", "file": _CLASSES,
     "expect": "silent",
     "old": "    self.slots = self._convert_str_tuple(\"__slots__\")\n" + _MATCH_ARGS,
     "new": "    self.slots = self._convert_str_tuple(\"__slots__\")\n"
            "    self.match_args = self._convert_str_tuple(\"__match_args__\")\n"
            "    if self.match_args is None:\n      self.match_args = ()\n"},
    {"name": "twin-conditional-expression-default", "rule": "R15.10", "file": _CLASSES,
     "expect": "silent",
     "old": "    self.slots = self._convert_str_tuple(\"__slots__\")\n" + _MATCH_ARGS,
     "new": "    self.slots = self._convert_str_tuple(\"__slots__\")\n"
            "    declared = self._convert_str_tuple(\"__match_args__\")\n"
            "    self.match_args = declared if declared is not None else ()\n"},
    # -- R15.11 (the `twin-` variants also normalise the newlines in
    # preprocess.augment_annotations, the defect the rule reports on the
    # reference tree, so that they are silent there)
    {"name": "seeded-C15-m2", "rule": "R15.11", "patch": "seeded/C15-m2/patch.diff",
     "expect": "fire"},
    # the same change as seeded/C15-m2 as a text edit (the patch's context
    # lines went stale when preprocess.py was repaired for D45)
    {"name": "seeded-C15-m2-as-text-edit", "rule": "R15.11", "expect": "fire",
     "edits": _pre_split("    lines = src.splitlines(keepends=True)\n", join='""')},
    {"name": "trace-source-lines-by-splitlines", "rule": "R15.11",
     "file": "pytype/tools/traces/source.py", "expect": "fire",
     "old": "    self._lines = src.split(\"\\n\")\n",
     "new": "    self._lines = src.splitlines()\n"},
    {"name": "error-text-line-picked-from-splitlines", "rule": "R15.11",
     "file": ERRORS, "expect": "fire",
     "old": "          self._src[point_idx[0] : point_idx[-1]]\n          + \"\\n\"\n",
     "new": "          self._src.splitlines()[self._line - 1]\n          + \"\\n\"\n"},
    {"name": "preprocess-plain-splitlines", "rule": "R15.11", "expect": "fire",
     "edits": _pre_split("    lines = src.splitlines()\n")},
    {"name": "preprocess-split-newline-only", "rule": "R15.11", "expect": "fire",
     "edits": _pre_split("    lines = src.split(\"\\n\")\n")},
    {"name": "twin-normalise-then-split", "rule": "R15.11", "expect": "silent",
     "edits": _pre_split(
         "    lines = src.replace(\"\\r\\n\", \"\\n\").replace(\"\\r\", \"\\n\").split(\"\\n\")\n")},
    {"name": "twin-normalised-text-in-a-local", "rule": "R15.11", "expect": "silent",
     "edits": _pre_split(
         "    text = re.sub(r\"\\r\\n?\", \"\\n\", src)\n    lines = text.split(\"\\n\")\n")},
    {"name": "twin-splitlines-only-counted", "rule": "R15.11", "file": PREPROCESS,
     "expect": "silent", "old": _SPLIT_TODAY,
     "new": "    log_rows = len(src.splitlines())\n" + _SPLIT_TODAY},
    {"name": "twin-cpython-line-ends-by-re-split", "rule": "R15.11", "expect": "silent",
     "edits": _pre_split("    lines = re.split(\"\\r\\n|\\r|\\n\", src)\n")},
    # -- behaviour-preserving refactorings (whole patches) must stay silent
    {"name": "twin-benign-C15-r1-io-helpers", "rule": "R15.2",
     "patch": "benign/C15-r1/patch.diff", "expect": "silent"},
    {"name": "twin-benign-C15-r2-run-instruction-split", "rule": "R15.8",
     "patch": "benign/C15-r2/patch.diff", "expect": "silent"},
    {"name": "twin-benign-C15-r3-guard-clauses", "rule": "R15.3",
     "patch": "benign/C15-r3/patch.diff", "expect": "silent"},
    {"name": "twin-benign-C15-r4", "rule": "R15.1",
     "patch": "benign/C15-r4/patch.diff", "expect": "silent"},
    # -- the same defects, seeded into the refactored shapes
    {"name": "twin-reader-guard-clauses", "rule": "R15.3", "expect": "silent",
     "edits": [_reader_guards()]},
    {"name": "guard-clause-reader-arms-swapped", "rule": "R15.3", "expect": "fire",
     "edits": [_reader_guards(err="status == 0")]},
    {"name": "guard-clause-reader-rejects-error-status", "rule": "R15.3", "expect": "fire",
     "edits": [_reader_guards(valid="(0, 2)", err="status == 2")]},
    {"name": "guard-clause-reader-error-test-unreachable", "rule": "R15.3", "expect": "fire",
     "edits": [_reader_guards(err="status == 2")]},
    {"name": "guard-clause-reader-compares-with-bytes", "rule": "R15.3", "expect": "fire",
     "edits": [_reader_guards(valid="(b'\\0', b'\\1')", err="status == b'\\1'")]},
    {"name": "guard-clause-reader-tests-other-state", "rule": "R15.3", "expect": "error",
     "edits": [_reader_guards(err="status == 1 and filename")]},
    {"name": "twin-init-unpacks-groups", "rule": "R15.3", "expect": "silent",
     "edits": [_init_groups()]},
    {"name": "unpacked-groups-swapped", "rule": "R15.3", "expect": "fire",
     "edits": [_init_groups(order="filename, error, line")]},
    {"name": "unpacked-line-not-int", "rule": "R15.3", "expect": "fire",
     "edits": [_init_groups(line="line")]},
    {"name": "twin-dispatch-lookup-in-helper-method", "rule": "R15.1", "expect": "silent",
     "edits": _dispatch_helper()},
    {"name": "helper-method-dispatch-prefix-typo", "rule": "R15.1", "expect": "fire",
     "edits": _dispatch_helper(prefix="bytes_")},
    {"name": "helper-method-handler-called-without-op", "rule": "R15.8", "expect": "fire",
     "edits": _dispatch_helper(call="opcode_handler(state)")},
    {"name": "twin-fallback-result-in-helper", "rule": "R15.2", "expect": "silent",
     "edits": _FALLBACK_HELPER},
    {"name": "fallback-helper-and-compile-error-attribute-typo", "rule": "R15.2",
     "expect": "fire",
     "edits": _FALLBACK_HELPER + [
         (IO, "compiler_error = (options.input, e.line, e.error)",
          "compiler_error = (options.input, e.lineno, e.error)")]},
    {"name": "fallback-helper-and-triple-loses-filename", "rule": "R15.2", "expect": "fire",
     "edits": _FALLBACK_HELPER + [
         (IO, "compiler_error = (options.input, e.lineno, e.message)",
          "compiler_error = (e.lineno, e.message)")]},
]

EXPLANATION += (
    ' R15.25 (rules/c15_replace_fields.py): every `X.Replace(f=...)` in pytype/ whose receiver can be typed from the source (visitor dispatch `VisitX(self, node)`, pytd annotations, `cast(pytd.X, ..)`, attribute chains through the declared field types of the pytd schema, loop targets over tuple fields, reaching definitions, parameters of nested functions through their call sites; narrowed by isinstance / `type(x) is C` / assert tests and by dominating attribute reads) names a field of every class the receiver can be: msgspec.structs.replace raises TypeError for a property such as GenericType.name, and nothing catches it before io.generate_pyi (D59, repaired). Receivers that cannot be typed, or whose guards hand the receiver to an unmodelled predicate, are not judged (the count is in the facts).'
)
ASSUMPTIONS += [
    'R15.25: the field annotations in pytd/pytd.py describe what the nodes hold at run time (msgspec enforces them on decode only); a receiver narrowed by value tests on a *derived* variable (a regex on its name) is judged with its declared type.',
]

EXPLANATION += (
    "  R15.26 (rules/c15_key_removal.py): in the stages that run before the "
    "VM (pytype/directors/, blocks/, pyc/; nothing there catches KeyError) "
    "every class is read for removers (methods doing `del self.<d>[<param>]` "
    "or `self.<d>.pop(<param>)` without default, not protected inside the "
    "method by `<param> in self.<d>` or a KeyError handler), testers (`return "
    "<param> in self.<d>`) and mutators of the same mapping.  Every call "
    "`<recv>.<remover>(<key>, ..)` must lie under a path condition containing "
    "`<recv>.<tester>(<key>)` / `<key> in <recv>.<d>` (directly or through a "
    "once-bound local holding a conjunction with it) AND that test must be "
    "current: a must-dataflow over the caller (evaluating the test generates "
    "the fact; calling a mutator on <recv>, storing through <recv>, or "
    "re-binding a name of <recv>/<key> kills it; loop back-edges included) "
    "has to deliver the fact at the call.  A remover destroys its own "
    "precondition, so a test hoisted out of a loop or reused for a second "
    "call lets the next call raise KeyError out of Director.__init__ (two "
    "directives on the multi-line last statement of a function).  Today: "
    "_BlockRanges.adjust_end / has_end, one call site.  Blind spots of "
    "R15.26: removals whose key is not a parameter (parser."
    "_add_structured_comment_group deletes keys it collected from the same "
    "dict), plain `self.<d>[<param>]` reads, receivers reached under two "
    "different spellings, and removers outside the three directories.  "
    "R15.27 (rules/c15_exc_block_flag.py): producer and consumers of the "
    "`push_exc_block` opcode flag agree.  Producer (re-derived: the one "
    "`<op>.push_exc_block = True` of pyc/opcodes.py): the flag is set under "
    "`(1 << <op>.argval) & mask`, and the mask function (today "
    "_get_exception_bitmask) is evaluated on the sample range {4: 8}: it "
    "marks the interior offsets too, so a flagged jump may land anywhere "
    "inside an exception range (otherwise: analysis error, the obligation "
    "has to be re-derived).  Consumers (every `if <op>.push_exc_block:` in "
    "blocks/ and vm.py): the arm extends the block stack on every path (no "
    "conditional push, no assert/raise in the arm; a push is `N += (x,)` / "
    "`N = N + (x,)` for the name N whose top `N[-1]` the function reads, or "
    "a call of push_block), and an opcode that is pushed is found by a "
    "backward scan that starts at `<op>.target`, steps `v = v.prev`, and can "
    "only end on isinstance(v, K) with SETUP_EXCEPT_311 in K (inline `while "
    "not isinstance` / `while True: if isinstance: break`, or a module-local "
    "helper of that shape).  Looking only at the op adjacent to the target "
    "leaves the range's POP_BLOCK with an empty stack: `AssertionError: "
    "POP_BLOCK without block.` escapes blocks.process_code.  Blind spots of "
    "R15.27: that the scan terminates (a SETUP op precedes every flagged "
    "target) rests on the producer inserting one at offset start-0.5, which "
    "is not re-checked; pop_exc_block (jumps out of a range) is not covered.")
ASSUMPTIONS += [
    "R15.26: a mapping attribute is identified by its name on `self`; two "
    "receivers are the same object iff they are spelled the same in the "
    "caller; every mutator of the mapping is a method of the owning class",
    "R15.27: rules/_minieval.py (with << and >> added locally) evaluates the "
    "mask function exactly; consumers outside pytype/blocks/ and pytype/vm.py "
    "(debug.py only prints the flag) do not take part in block bookkeeping",
]

EXPLANATION += (
    "  R15.28 (rules/c15_index_agreement.py): an element read `<x>.<S>[i]` "
    "whose index runs over the length of ANOTHER object needs a length "
    "agreement on every path.  The (length field, sequence field) pairs are "
    "re-derived from `self.<L> = len(self.<S>)` in abstract/_instances.py "
    "(today Tuple.tuple_length / pyval).  In vm_utils.py, vm.py, tracer_vm.py, "
    "matcher.py and pattern_matching.py every `for i in range(<N>)` (statement "
    "or comprehension; <N> possibly a once-bound local) that reads `<x>.<S>[i]` "
    "is classified: own length (<N> is `<x>.<L>` / `len(<x>.<S>)`); lengths "
    "compared on the path (`<x>.<L> == <y>.<L>` in the path condition); or "
    "uniform group (<x> iterates over a collection <C> and <N> is the length of "
    "`<C>[k]`): then a uniformity test of <C> - `all(d.<L> == <C>[k].<L> for d "
    "in <C>)`, `len({d.<L> for d in <C>}) <= 1`, or a module-local predicate "
    "whose every truthy return entails it (followed through nested predicates "
    "and guard clauses) - must be in the path condition, and when the function "
    "does not test it itself and <C> hangs off one of its parameters the "
    "obligation moves to EVERY call site of that (private, module-level) "
    "function: the path condition of the call must contain the uniformity test "
    "of the argument (directly or via a once-bound flag), evaluated after the "
    "last re-binding of the argument's names (must-dataflow).  Today: "
    "_merge_tuple_bindings <- unpack_iterable under _var_is_fixed_length_tuple; "
    "dropping the equal-length clause of the predicate (fine for its other "
    "caller, match_sequence) lets `t = (1, 2, 3) if c else ('a', 'b'); a, *b = t` "
    "raise IndexError out of the analysis.  Blind spots of R15.28: constant "
    "and computed indices (`pyval[0]`, `pyval[i + 1]`), while-loops, sequence "
    "fields without a mirrored length field (formal_type_parameters), "
    "agreements weaker than equality (`>=` is refused as undecidable), public "
    "functions or methods relying on their callers (refused), and the empty "
    "collection (`<C>[0]` itself).  "
    "R15.31 (rules/c15_span_tables.py): the line tables of the pattern-matching "
    "branch tracker.  In pattern_matching.py every dict attribute created in a "
    "class's __init__ and filled from a span object (a loop variable or "
    "parameter of which two different fields are used as keys, set elements or "
    "range bounds: the start/end line of a case pattern) is a span table; its "
    "fills are complete (`for i in range(c.A, c.B + 1): self.T[i] = v`, update "
    "with a dict comprehension or dict.fromkeys over that range, once-bound "
    "locals followed, helper methods judged on their own) or endpoint "
    "(`self.T[c.A] = v`).  Every read `<recv>.T[key]` in pattern_matching.py, "
    "vm.py, vm_utils.py and tracer_vm.py is classified as guarded (`key in "
    "<recv>.T` in the path condition / earlier in the same `and` / KeyError "
    "handler) or unguarded.  A table with an unguarded read must have a "
    "complete fill for every span it is filled from, both endpoints included: "
    "the key of the readers is the line of the opcode being executed, which "
    "may be any line of a multi-line pattern (`case (int() |\\n str() |\\n "
    "bytes()):` puts MATCH_CLASS on the inner line), and KeyError is not caught "
    "anywhere in vm.run_instruction.  Tables read only under guards or with "
    ".get (as_names) may hold endpoints.  Blind spots of R15.31: that the "
    "parser's spans really cover every opcode line of a pattern; reads whose "
    "guard lives in the caller are counted as unguarded (that only makes the "
    "demand on the fill stronger); tables of other modules (directors' line "
    "sets have their own rules in C03).")
ASSUMPTIONS += [
    "R15.28: a mirrored length field is never re-assigned after __init__ and "
    "the sequence field is not resized afterwards (abstract.Tuple is "
    "immutable); two objects are the same iff they are spelled the same",
    "R15.31: tables are identified by their attribute name in the VM-layer "
    "modules; a span object is recognised by two different fields of one "
    "local being used as keys/bounds in the filling method",
]

EXPLANATION += (
    "  R15.29 (rules/c15_fallback_except.py; D69, repaired in /repo b5d9a41): "
    "a `try` in vm.py / vm_utils.py whose handlers catch only lookup-miss "
    "exceptions (KeyError, IndexError, ValueError, LookupError) IS the "
    "fallback for 'name not found'.  For every call in its body that resolves "
    "to a definition in vm.py, vm_utils.py, state.py or blocks/blocks.py the "
    "set of miss exceptions the callee can let escape is derived (`raise T`, "
    "re-raise of a handler alias, `self.<attr>[k]` where the class binds "
    "<attr> to a dict -> KeyError or to a tuple/list -> IndexError, `.index(k)` "
    "-> ValueError; followed through self-method and module-local calls to "
    "depth 3, minus what a try inside the callee catches) and must be covered "
    "by the handlers of the call site (LookupError covers KeyError and "
    "IndexError).  `_store_local_or_cellvar` caught ValueError while "
    "OrderedCode.get_cell_index subscripts a dict: `G = 1` / `def f(): match "
    "G: case int(): pass` raised KeyError: 'G' out of the analysis.  Blind "
    "spots of R15.29: calls through receivers that are not `self`, a module "
    "alias or a unique method name in the four modules; misses signalled by "
    "builtin containers held in locals; handlers that also catch non-lookup "
    "exceptions are not read as fallbacks.  "
    "R15.30 (rules/c15_partial_conversion.py; D70, repaired in /repo 176e621): "
    "P = the functions of abstract/abstract_utils.py that can let "
    "ConversionError escape (direct raise, module-local call of a member of P, "
    "value_to_constant; a covering try inside the function removes it; the "
    "covering names are ConversionError's base chain read from the class "
    "definition, so ValueError covers it).  Every use of a member of P (call, "
    "or callback handed to map()) in a function reachable from the "
    "pattern-matching opcode handlers (byte_MATCH_*, "
    "byte_COPY_DICT_WITHOUT_KEYS) through `vm_utils.f(..)` and module-local "
    "calls must be protected on every call chain - inside try/except "
    "ConversionError at the use or at a call site up the chain.  Two derived "
    "exemptions: `p(<parameter>, tuple)`, a shape assertion on the opcode's "
    "compiler-built keys/names tuple; and the elements of the names operand "
    "of MATCH_CLASS (identifiers of the class pattern, always str constants): "
    "the operand is the target of the handler's first `state, <x> = "
    "state.pop()`, followed through plain-name arguments into callee "
    "parameters (a re-bound parameter loses the mark), and only `map(p, t)` / "
    "`p(k) for k in t` over exactly that operand (or a once-bound local "
    "holding `p(<operand>, tuple)`) is exempt on that chain.  `case {2.5: "
    "z}:` / `case {Color.RED: z}:` / `{2.5: z, **rest}` raised ConversionError "
    "out of the analysis.  Blind spots of R15.30: restricted to the "
    "pattern-matching opcode family on purpose (the other ~20 unprotected "
    "get_atomic_* uses in vm.py / vm_utils.py convert compiler-built operands: "
    "names, code objects, keyword-name tuples); partial functions outside "
    "abstract_utils.py; uses inside nested functions.")
ASSUMPTIONS += [
    "R15.29: a handler that catches only lookup-miss exceptions around a call "
    "is meant as the not-found fallback for that call; an attribute bound to a "
    "dict / tuple / list literal, comprehension or constructor in its class "
    "keeps that kind",
    "R15.30: MATCH_KEYS / MATCH_CLASS / COPY_DICT_WITHOUT_KEYS: the keys "
    "(names) operand on top of the stack is a tuple built by the CPython "
    "compiler (dis documentation); only its elements are user-written values",
    "R15.30: MATCH_CLASS: the elements of its names operand (kwd_attrs) are "
    "the keyword names of the class pattern (`case C(x=..)`: the grammar "
    "allows only NAME there), emitted by the compiler as a tuple of str "
    "constants; converting them to Python constants cannot raise "
    "ConversionError",
]

EXPLANATION += (
    "\n\nR15.2, table-driven handler: `except TYPES as e: compiler_error = "
    "describe(x, e)` where TYPES is a module-level `tuple(t for t, .. in TABLE)` "
    "over a once-bound literal table of (type, attribute names..) rows and "
    "describe is `for <row> in TABLE: if isinstance(e, <type>): return (x, "
    "getattr(e, <col>), ..)` followed by raise, is read as the chain of except "
    "clauses `except <type_i> as e: compiler_error = (x, e.<attr_i>, ..)` in "
    "table order (_expand_table_handler): the first row whose type matches "
    "decides, exactly like the first matching except clause, and the tuple "
    "catches what some row catches.  The expanded clauses are then checked like "
    "hand-written ones (attributes exist on the exception, nothing is shadowed "
    "by a broader earlier row).  Any other computed exception type, table or "
    "helper shape is an AnalysisError."
)
