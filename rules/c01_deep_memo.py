"""C01 extension (D54, known finding): a memo validated by a shallower stamp.

R1.22  A memoised value may be validated by a cheap stamp only if the stamp
       moves whenever ANY input of the memoised computation changes.
       SimpleValue.get_fullhash memoises (`self._fullhash`) a digest that
       descends through the member variables into the full hashes of the
       member VALUES (abstract_utils.get_dict_fullhash_component ->
       get_var_fullhash_component -> v.get_fullhash), i.e. it depends on the
       members of the members.  Its validity stamp (_get_changestamps) is the
       pair of MonitorDict.changestamp values of the object's OWN tables, and
       MonitorDict.changestamp = len(self) + sum(len(var.bindings)) looks one
       level deep only.  A change of a nested object's member therefore leaves
       the outer memo "valid".  attribute._get_member papers over the most
       common route (o.inner is read, then mutated: R1.21) by force-clearing
       the owner on every read - but a reference obtained BEFORE the memo was
       taken is not covered.

Concrete failing input (confirmed on a scratch build of today's tree,
2026-09-24; CPython: first == 1, second == 'text'):

    class Inner:
      def __init__(self):
        self.payload = 1
    class Outer:
      def __init__(self):
        self.inner = Inner()
    def peek(box):
      return box.inner.payload
    o = Outer()
    i = o.inner
    first = peek(o)
    i.payload = "text"
    second = peek(o)

pytype infers `second: int` (with `first = peek(o)` replaced by `first = 0`
it infers `second: str`): InterpreterFunction.call finds the call-cache entry
of the first call because o's memoised full hash is unchanged.  This violates
C01 (the inferred type of a module-level name excludes its run-time value in
a loop-free program).

Suggested key for known_findings.json:
  R1.22:SimpleValue.get_fullhash:deep-digest-validated-by-shallow-stamp
"""
import ast

from sa.core import rule, AnalysisError
from sa.pyindex import get_module, dotted, src, walk_no_nested

IBASE = "pytype/abstract/_instance_base.py"
AUTILS = "pytype/abstract/abstract_utils.py"
DATATYPES = "pytype/datatypes.py"


def _calls_get_fullhash(mod, fname, seen=()):
  """Does module-level function `fname` (transitively) call X.get_fullhash?"""
  if fname in seen or fname not in mod.functions:
    return False
  fn = mod.functions[fname]
  for c in ast.walk(fn):
    if isinstance(c, ast.Call):
      if isinstance(c.func, ast.Attribute) and c.func.attr == "get_fullhash":
        return True
      if isinstance(c.func, ast.Name) and _calls_get_fullhash(mod, c.func.id, seen + (fname,)):
        return True
  return False


@rule("R1.22", "C01", floor=1)
def r1_22(ctx):
  """The stamp that validates a memo covers every input of the memo."""
  ib = get_module(ctx, IBASE)
  au = get_module(ctx, AUTILS)
  dt = get_module(ctx, DATATYPES)
  gf = ib.func("SimpleValue.get_fullhash")
  memo = [n for n in ast.walk(gf) if isinstance(n, ast.Assign)
          and any((dotted(t) or "").startswith("self._") for t in n.targets)]
  if not memo:
    ctx.ok("SimpleValue.get_fullhash:deep-digest-validated-by-shallow-stamp",
           IBASE, gf.lineno, {"memoised": False})
    return
  # which helper digests the member tables, and over which tables
  deep_tables = []
  for c in ast.walk(gf):
    if isinstance(c, ast.Call) and (dotted(c.func) or "").startswith("abstract_utils.") \
        and _calls_get_fullhash(au, dotted(c.func).split(".")[-1]):
      # argument: a loop variable over a tuple of self.<table>
      for a in c.args:
        if isinstance(a, ast.Name):
          for n in ast.walk(gf):
            if isinstance(n, ast.For) and isinstance(n.target, ast.Name) and \
                n.target.id == a.id and isinstance(n.iter, ast.Tuple):
              deep_tables += [dotted(e) for e in n.iter.elts]
        elif dotted(a):
          deep_tables.append(dotted(a))
  if not deep_tables:
    raise AnalysisError("SimpleValue.get_fullhash: digest of member tables not recognised")
  stamps = ib.func("SimpleValue._get_changestamps")
  rets = [r for r in walk_no_nested(stamps) if isinstance(r, ast.Return)]
  if len(rets) != 1 or not isinstance(rets[0].value, ast.Tuple):
    raise AnalysisError("SimpleValue._get_changestamps: unexpected shape")
  stamped = [dotted(e) for e in rets[0].value.elts]
  if not all(s and s.endswith(".changestamp") for s in stamped):
    raise AnalysisError(f"_get_changestamps returns {stamped}")
  # MonitorDict.changestamp: does it look below the variables' binding counts?
  cs = dt.func("MonitorDict.changestamp")
  looks_into_values = any(
      isinstance(c, ast.Call) and isinstance(c.func, ast.Attribute)
      and c.func.attr in ("get_fullhash", "get_type_key", "changestamp")
      for c in ast.walk(cs)) or any(
          isinstance(a, ast.Attribute) and a.attr in ("data", "members") for a in ast.walk(cs))
  ctx.check(looks_into_values,
            "SimpleValue.get_fullhash:deep-digest-validated-by-shallow-stamp",
            IBASE, gf.lineno,
            f"get_fullhash memoises a digest that descends into the values of "
            f"{sorted(set(deep_tables))} (get_dict_fullhash_component -> "
            f"v.get_fullhash) but the memo is validated by {stamped}, and "
            f"MonitorDict.changestamp (`{src(cs.body[-1])}`) only counts keys "
            "and bindings of the object's own tables: after `i = o.inner; "
            "f(o); i.payload = 'text'; f(o)` the second call is answered from "
            "the call cache with the first call's return type",
            {"digest_over": sorted(set(deep_tables)), "stamp": stamped,
             "changestamp": src(cs.body[-1])})
