"""C09 extension (R9.50, R9.51): a reader answers with the matrix bit, whatever the ids.

R9.1 shows that the matrix row is the closure and R9.3 that the readers ask it
about the right ordered pair.  What is left between the matrix and the caller
is the reader itself: `is_reachable(a, b)` can only equal path existence if the
reader hands the matrix bit on unchanged.  The property quantifies over edges
inserted *in any order*, so the creation order of two nodes (the order of
their ids) says nothing about a path between them: for id(a) < id(b) and for
id(a) > id(b) there are histories with and without a path a ~> b (ConnectTo
accepts any pair of existing nodes - a loop back edge is new -> old).  The
only link between ids and the bit is reflexivity: a == b implies the bit is
set (R9.1 S2, the diagonal).

R9.50 decides the straight-line readers (Program::is_reachable and the Python
wrapper in cfg.cc) exactly: the body is executed symbolically (rules/
_cxxutil_c07c08.Paths) and evaluated in the five feasible worlds
(order of the two ids in {<, >, ==}) x (matrix bit in {set, clear}) minus
(==, clear).  In every world every exit that can be taken must return the
bit.  Conditions are understood when they are built from the one query, from
comparisons of the two queried nodes (pointers: == / !=; ids: any relation),
boolean literals, `!`, `&&`, `||`, `?:`; anything else is an ANALYSIS-ERROR.

R9.51 looks at every function of the typegraph that issues a reachability
query (also the loop readers CFGNode::CanHaveCombination and Variable::Prune,
also queries inside lambdas): an order comparison (< > <= >=) of the two
queried nodes' ids (or addresses) must not decide whether the query is
evaluated or be combined with it in one condition.  A comparison that gates
the query (enclosing if / ?: / short-circuit operand, an earlier
`if (..) continue/break/return` of the same block, the same condition or
return expression) is a violation; one used elsewhere in a reader is not
understood (ANALYSIS-ERROR).
"""
from sa.core import rule, AnalysisError
from sa import cxx
from sa.cxx import term, uncast, inner
from rules import _cxxutil_c07c08 as U
from rules._util_c09c04 import lambda_bodies

TG = "pytype/typegraph/"
ORDER_OPS = ("<", ">", "<=", ">=")
REL_OPS = ORDER_OPS + ("==", "!=")


def _is_query_name(key):
  """'analyzer' / 'program' when the callee key or name designates a reachability query."""
  k = str(key).split("(")[0]
  if k in ("is_reachable", "ReachabilityAnalyzer::is_reachable", "?::is_reachable"):
    return "analyzer"
  if k == "Program::is_reachable":
    return "program"
  return None


def _id_of(t):
  """The node term P when t is `P->id()` / `P->id_`, else None."""
  t = uncast(t)
  if isinstance(t, tuple) and len(t) == 3:
    if t[0] == "field" and t[1] == "CFGNode::id_":
      return t[2]
    if t[0] == "mcall" and str(t[1]).split("(")[0] == "CFGNode::id":
      return t[2]
  return None


def _query_of(t):
  """(kind, node term a, node term b) when t is a reachability query, else None."""
  t = uncast(t)
  if not (isinstance(t, tuple) and len(t) == 5 and t[0] == "mcall"):
    return None
  kind = _is_query_name(t[1])
  if kind is None:
    return None
  a, b = uncast(t[3]), uncast(t[4])
  if kind == "analyzer":
    a, b = _id_of(a), _id_of(b)
    if a is None or b is None:
      raise AnalysisError(f"reachability query on ids that are not node ids: {U.show(t)}")
  return kind, a, b


class _Unknown(Exception):
  pass


WORLDS = [("<", True), ("<", False), (">", True), (">", False), ("==", True)]


def _world_name(w):
  return f"id(a){w[0]}id(b),{'path' if w[1] else 'no-path'}"


def _holds(op, rel):
  return {"<": rel == "<", ">": rel == ">", "<=": rel in ("<", "=="),
          ">=": rel in (">", "=="), "==": rel == "==", "!=": rel != "=="}[op]


def _flip(rel):
  return {"<": ">", ">": "<", "==": "=="}[rel]


def _eval(t, q, world):
  """Truth value of condition term t in `world`; q = (query term, a, b)."""
  t = uncast(t)
  qt, a, b = q
  rel, bit = world
  if not isinstance(t, tuple) or not t:
    raise _Unknown(str(t))
  if t == qt:
    return bit
  if t[0] == "bool" and len(t) == 2:
    return bool(t[1])
  if t[0] == "!" and len(t) == 2:
    return not _eval(t[1], q, world)
  if t[0] == "&&" and len(t) == 3:
    return _eval(t[1], q, world) and _eval(t[2], q, world)
  if t[0] == "||" and len(t) == 3:
    return _eval(t[1], q, world) or _eval(t[2], q, world)
  if t[0] == "?:" and len(t) == 4:
    return _eval(t[2], q, world) if _eval(t[1], q, world) else _eval(t[3], q, world)
  if t[0] in REL_OPS and len(t) == 3:
    x, y = uncast(t[1]), uncast(t[2])
    ix_, iy = _id_of(x), _id_of(y)
    if ix_ is not None and iy is not None:
      x, y = ix_, iy
    elif t[0] in ORDER_OPS:
      raise _Unknown(U.show(t))     # order of addresses: not modelled here
    if (x, y) == (a, b):
      return _holds(t[0], rel)
    if (x, y) == (b, a):
      return _holds(t[0], _flip(rel))
    if x == y and x in (a, b):
      return _holds(t[0], "==")
  raise _Unknown(U.show(t))


def _find_queries(terms):
  found = {}
  for t in terms:
    for s in U.subterms(t):
      if s and s[0] == "mcall" and len(s) == 5 and _is_query_name(s[1]):
        found[s] = _query_of(s)
  return found


def _env(ix, fn):
  """once_bound_env plus the never-assigned scalar locals of the function's
  top-level block whose initialiser reads variables that are written only by
  EARLIER top-level statements (e.g. the out-parameters of an argument parser):
  top-level statements run once and in order, so the value read is final."""
  env = U.once_bound_env(ix, fn)
  top = U.stmts(fn.body)
  wr = [U.written_vars(s) for s in top]
  everywhere = U.written_vars(fn.body)
  for i, s in enumerate(top):
    if s.get("kind") != "DeclStmt":
      continue
    for v in inner(s):
      if v.get("kind") != "VarDecl" or v.get("id") in env or not v.get("init") or \
          v["id"] in everywhere or not U._simple_type(cxx.qual_type(v)):
        continue
      kids = [c for c in inner(v) if c.get("kind")]
      if not kids:
        continue
      t = term(ix, kids[-1], env)
      u = uncast(t)
      if not isinstance(u, tuple) or u[0] == "?":
        continue
      fv = U._free_vars(t) & everywhere
      if all(not (fv & wr[j]) for j in range(i, len(top))):
        env[v["id"]] = t
  return env


class _Paths(U.Paths):
  def t(self, e):
    if not hasattr(self, "_env2"):
      self._env2 = _env(self.ix, self.fn)
    return U.norm(self.ix, U.subst(term(self.ix, e, self._env2), self.mapping), self.smart)


def _decide_reader(ctx, ix, fn, label, outcome):
  """Evaluates every exit of fn in the five worlds; `outcome(value term, q, world)`
  gives True / False / "error" for the returned value."""
  P = _Paths(ix, fn)
  if {p["id"] for p in fn.params} & P.written:
    raise AnalysisError(f"{label}: a parameter is reassigned")
  exits = []
  for kind, node, facts, _, val in P.exits:
    if kind != "return" or val is None:
      raise AnalysisError(f"{label}: can fall off its end without an answer")
    exits.append((node, [(uncast(t), pol) for t, pol in facts], val))
  qs = _find_queries([v for _, _, v in exits] + [t for _, fs, _ in exits for t, _ in fs])
  if len(qs) != 1:
    raise AnalysisError(f"{label}: expected exactly one reachability query, found "
                        f"{sorted(U.show(t) for t in qs)}")
  (qt, (kind, a, b)), = qs.items()
  if a == b:
    raise AnalysisError(f"{label}: the query asks about one node twice")
  q = (qt, a, b)
  # error exits (nullptr): decided before and independently of the nodes
  gates = set()
  answers = []
  for node, facts, val in exits:
    if uncast(val) == ("nullptr",):
      for t, _ in facts:
        if any(s == qt or _id_of(s) in (a, b) for s in U.subterms(t)):
          raise AnalysisError(f"{label}: an error exit depends on the queried nodes")
        gates.add(t)
    else:
      answers.append((node, facts, val))
  if not answers:
    raise AnalysisError(f"{label}: no exit returns an answer")
  for w in WORLDS:
    got = []
    for node, facts, val in answers:
      try:
        if not all(_eval(t, q, w) == pol for t, pol in facts if t not in gates):
          continue
        got.append((U.line(node), outcome(val, q, w)))
      except _Unknown as e:
        raise AnalysisError(f"{label}: condition or result not understood: {e}")
    if not got:
      raise AnalysisError(f"{label}: no exit can be taken when {_world_name(w)}")
    wrong = [(ln, r) for ln, r in got if r != w[1]]
    name = f"{label}:answer[{_world_name(w)}]"
    facts_ = {"a": U.show(a), "b": U.show(b), "query": U.show(qt),
              "exits": [[ln, r] for ln, r in got]}
    if wrong:
      ln, r = wrong[0]
      ctx.bad(name, fn.file, ln,
              f"{label} asks the matrix about ({U.show(a)}, {U.show(b)}) but when "
              f"id({U.show(a)}) {w[0]} id({U.show(b)}) and the matrix bit is "
              f"{'set' if w[1] else 'clear'} the exit at line {ln} answers {r}: the answer "
              "must be the matrix bit whatever the creation order of the two nodes "
              "(edges may be inserted new -> old)", facts_)
    else:
      ctx.ok(name, fn.file, fn.line, facts_)


def _bool_outcome(val, q, w):
  return _eval(val, q, w)


def _py_outcome(val, q, w):
  v = uncast(val)
  if isinstance(v, tuple) and v and v[0] == "var" and len(v) == 3:
    if v[1] == "_Py_TrueStruct":
      return True
    if v[1] == "_Py_FalseStruct":
      return False
  if isinstance(v, tuple) and v and v[0] == "call" and len(v) == 3 and \
      str(v[1]).split("::")[-1] in ("PyBool_FromLong", "Py_NewRef", "Py_XNewRef"):
    return _py_outcome(v[2], q, w) if str(v[1]).endswith("NewRef") else _eval(v[2], q, w)
  raise _Unknown(U.show(v))


@rule("R9.50", "C09", floor=10)
def r9_50(ctx):
  """Program::is_reachable and cfg.is_reachable return the matrix bit in every world of (id order, bit)."""
  ix = cxx.get_index(ctx)
  pr = ix.fn("Program::is_reachable(const CFGNode *, const CFGNode *)")
  _decide_reader(ctx, ix, pr, "Program::is_reachable", _bool_outcome)
  cf = [f for f in ix.by_key.values() if f.file.endswith("cfg.cc") and
        f.name == "is_reachable" and f.body is not None]
  if len(cf) != 1:
    raise AnalysisError("cfg.cc is_reachable wrapper not found")
  _decide_reader(ctx, ix, cf[0], "cfg.is_reachable", _py_outcome)


# -- R9.51: no reader gates its query on the order of the queried ids -----------------

def _kids(x):
  """Children as evaluated: a lambda is entered through its call operator(s) only."""
  if x.get("kind") == "LambdaExpr":
    return [b for _, b in lambda_bodies(x)] + [
        c for c in inner(x) if c.get("kind") not in ("CXXRecordDecl", "CompoundStmt")
        and c.get("kind")]
  return [c for c in inner(x) if c]


def _tree(root):
  parent, order = {}, []
  todo = [root]
  while todo:
    x = todo.pop()
    order.append(x)
    ks = _kids(x)
    for c in ks:
      parent[id(c)] = x
    todo.extend(reversed(ks))
  return parent, order


BOOL_WRAP = cxx.TRANSPARENT


def _cond_root(parent, n):
  """Climbs through !, &&, ||, casts; returns (top boolean expression, its parent)."""
  cur = n
  while True:
    p = parent.get(id(cur))
    if p is None:
      return cur, None
    k = p.get("kind")
    if k in BOOL_WRAP or (k == "UnaryOperator" and p.get("opcode") == "!") or \
        (k == "BinaryOperator" and p.get("opcode") in ("&&", "||")):
      cur = p
      continue
    return cur, p


def _under(parent, n, anc):
  while n is not None:
    if n is anc:
      return True
    n = parent.get(id(n))
  return False


def _node_key(ix, e, env):
  """Normalised (node term) of an operand that is a node id or a node pointer."""
  t = U.norm(ix, term(ix, e, env))
  p = _id_of(t)
  return ("id", p) if p is not None else ("ptr", uncast(t))


@rule("R9.51", "C09", floor=4)
def r9_51(ctx):
  """No reachability query is gated by or combined with an order comparison of the two queried nodes' ids."""
  ix = cxx.get_index(ctx)
  n_queries = 0
  for fn in sorted(ix.by_key.values(), key=lambda f: f.key):
    if fn.body is None or not fn.file.startswith(TG) or fn.file.endswith("_test.cc") \
        or fn.file.endswith(("reachable.cc", "reachable.h")):
      continue
    parent, order = _tree(fn.body)
    calls = []
    for n in order:
      if n.get("kind") == "CXXMemberCallExpr" and len(inner(n)) == 3:
        key, _, nm, _ = ix.callee(n)
        if nm == "is_reachable" and _is_query_name(key if key else nm):
          calls.append(n)
    if not calls:
      continue
    env = _env(ix, fn)
    cmps = [n for n in order if n.get("kind") == "BinaryOperator" and
            n.get("opcode") in ORDER_OPS and len(inner(n)) == 2]
    for i, call in enumerate(calls):
      n_queries += 1
      qx = _query_of(U.norm(ix, term(ix, call, env)))
      if qx is None:
        raise AnalysisError(f"{fn.qual}: reachability query not understood")
      _, a, b = qx
      name = f"{fn.qual}:query#{i}:not-gated-by-id-order"
      bad = None
      for c in cmps:
        kx, ky = (_node_key(ix, e, env) for e in inner(c))
        if kx[0] != ky[0] or {kx[1], ky[1]} != {a, b} or a == b:
          continue
        top, holder = _cond_root(parent, c)
        hk = holder.get("kind") if holder is not None else None
        gating = False
        if holder is not None and _under(parent, call, holder) and \
            hk in ("IfStmt", "ConditionalOperator", "ReturnStmt", "VarDecl", "BinaryOperator",
                   "WhileStmt", "ForStmt", "DoStmt"):
          # the query is in the same condition / in a branch selected by it
          gating = hk != "BinaryOperator" or holder.get("opcode") == "="
        if not gating and hk == "IfStmt":
          _, _, cond, then, els = U.if_parts(holder)
          if top is cond and (U.leaves(then) or (els is not None and U.leaves(els))):
            blk = parent.get(id(holder))
            if blk is not None and blk.get("kind") == "CompoundStmt":
              sibs = inner(blk)
              pos = [j for j, s in enumerate(sibs) if s is holder]
              later = sibs[pos[0] + 1:] if pos else []
              gating = any(_under(parent, call, s) for s in later)
        if gating:
          bad = c
          break
        raise AnalysisError(
            f"{fn.qual}: compares the ids of the queried nodes ({U.show(a)}, {U.show(b)}) by "
            f"order at line {U.line(c)} in a way that is not understood")
      facts = {"a": U.show(a), "b": U.show(b)}
      if bad is not None:
        ctx.bad(name, fn.file, U.line(bad),
                f"{fn.qual} asks whether a path joins {U.show(a)} and {U.show(b)} but the "
                f"order comparison of their ids at line {U.line(bad)} decides whether the "
                "matrix is consulted / overrides its bit; the creation order of two nodes "
                "says nothing about a path between them (ConnectTo may insert new -> old)",
                facts)
      else:
        ctx.ok(name, fn.file, U.line(call), facts)
  if not n_queries:
    raise AnalysisError("no reachability query found in the typegraph")


def _tg(n):
  return TG + n


_PQ = "  return backward_reachability_->is_reachable(dst->id(), src->id());"
_WRAP_IF = "  if (self->program->is_reachable(src->cfg_node, dst->cfg_node)) {"
_CH_IF = ("      if (this->backward_reachability_->is_reachable(this->id(),\n"
          "                                                     origin->where->id())) {")
_PRUNE_IF = "      if (program_->is_reachable(kvpair.first, viewpoint)) {"

VARIANTS = [
    {"name": "seeded-C09-r5m2-early-out-on-id-order", "rule": "R9.50",
     "patch": "seeded/C09-r5m2/patch.diff", "expect": "fire"},
    # -- R9.50 must fire: the same obligation broken differently -----------------------
    {"name": "program-query-conjoined-with-id-le", "rule": "R9.50", "file": _tg("typegraph.cc"),
     "expect": "fire", "old": _PQ,
     "new": "  return src->id() <= dst->id() &&\n"
            "         backward_reachability_->is_reachable(dst->id(), src->id());"},
    {"name": "program-older-target-assumed-reachable", "rule": "R9.50", "file": _tg("typegraph.cc"),
     "expect": "fire", "old": _PQ,
     "new": "  const auto s = src->id();\n  const auto d = dst->id();\n"
            "  if (d < s) {\n    return true;\n  }\n"
            "  return backward_reachability_->is_reachable(d, s);"},
    {"name": "program-distinct-nodes-ternary-on-order", "rule": "R9.50", "file": _tg("typegraph.cc"),
     "expect": "fire", "old": _PQ,
     "new": "  return src->id() < dst->id()\n"
            "             ? backward_reachability_->is_reachable(dst->id(), src->id())\n"
            "             : src == dst;"},
    {"name": "program-self-query-answers-false", "rule": "R9.50", "file": _tg("typegraph.cc"),
     "expect": "fire", "old": _PQ,
     "new": "  if (src == dst) {\n    return false;\n  }\n" + _PQ},
    {"name": "wrapper-early-false-on-id-order", "rule": "R9.50", "file": _tg("cfg.cc"),
     "expect": "fire", "old": _WRAP_IF,
     "new": "  if (dst->cfg_node->id() < src->cfg_node->id()) {\n    Py_RETURN_FALSE;\n  }\n" + _WRAP_IF},
    {"name": "wrapper-branches-inverted", "rule": "R9.50", "file": _tg("cfg.cc"),
     "expect": "fire", "old": _WRAP_IF,
     "new": "  if (!self->program->is_reachable(src->cfg_node, dst->cfg_node)) {"},
    # -- R9.50 twins ------------------------------------------------------------------------
    {"name": "twin-program-reflexive-shortcut", "rule": "R9.50", "file": _tg("typegraph.cc"),
     "expect": "silent", "old": _PQ,
     "new": "  if (src == dst) {\n    return true;  // every node reaches itself\n  }\n" + _PQ},
    {"name": "twin-program-hoisted-ids-and-flag", "rule": "R9.50", "file": _tg("typegraph.cc"),
     "expect": "silent", "old": _PQ,
     "new": "  const auto from = dst->id();\n  const auto to = src->id();\n"
            "  const bool bit = backward_reachability_->is_reachable(from, to);\n"
            "  if (!bit) {\n    return false;\n  }\n  return true;"},
    {"name": "twin-program-id-equality-or-query", "rule": "R9.50", "file": _tg("typegraph.cc"),
     "expect": "silent", "old": _PQ,
     "new": "  return src->id() == dst->id() ||\n"
            "         backward_reachability_->is_reachable(dst->id(), src->id());"},
    {"name": "twin-program-ternary-bool", "rule": "R9.50", "file": _tg("typegraph.cc"),
     "expect": "silent", "old": _PQ,
     "new": "  return backward_reachability_->is_reachable(dst->id(), src->id()) ? true : false;"},
    {"name": "twin-wrapper-negated-flag", "rule": "R9.50", "file": _tg("cfg.cc"),
     "expect": "silent",
     "old": _WRAP_IF + "\n    Py_RETURN_TRUE;\n  } else {\n    Py_RETURN_FALSE;\n  }",
     "new": "  const bool reachable =\n      self->program->is_reachable(src->cfg_node, dst->cfg_node);\n"
            "  if (!reachable) {\n    Py_RETURN_FALSE;\n  }\n  Py_RETURN_TRUE;"},
    {"name": "twin-benign-C09-r3-readers", "rule": "R9.50", "patch": "benign/C09-r3/patch.diff",
     "expect": "silent"},
    {"name": "program-answer-from-unrelated-state", "rule": "R9.50", "file": _tg("typegraph.cc"),
     "expect": "error", "old": _PQ,
     "new": "  if (cfg_nodes_.size() < 2) {\n    return true;\n  }\n" + _PQ},
    # -- R9.51 must fire --------------------------------------------------------------------
    {"name": "seeded-C09-r5m2-gates-the-query", "rule": "R9.51",
     "patch": "seeded/C09-r5m2/patch.diff", "expect": "fire"},
    {"name": "canhave-skips-newer-origins", "rule": "R9.51", "file": _tg("typegraph.cc"),
     "expect": "fire", "old": _CH_IF,
     "new": "      if (origin->where->id() > this->id()) {\n        continue;\n      }\n" + _CH_IF},
    {"name": "canhave-short-circuit-on-id-order", "rule": "R9.51", "file": _tg("typegraph.cc"),
     "expect": "fire", "old": _CH_IF,
     "new": "      if (origin->where->id() <= id() &&\n"
            "          this->backward_reachability_->is_reachable(this->id(),\n"
            "                                                     origin->where->id())) {"},
    {"name": "prune-stops-at-first-newer-node", "rule": "R9.51", "file": _tg("typegraph.cc"),
     "expect": "fire", "old": _PRUNE_IF,
     "new": "      const auto where_id = kvpair.first->id();\n"
            "      if (where_id > viewpoint->id()) {\n        break;\n      }\n" + _PRUNE_IF},
    {"name": "prune-query-only-for-older-nodes", "rule": "R9.51", "file": _tg("typegraph.cc"),
     "expect": "fire", "old": _PRUNE_IF,
     "new": "      if (kvpair.first->id() < viewpoint->id() ?\n"
            "              program_->is_reachable(kvpair.first, viewpoint) : kvpair.first == viewpoint) {"},
    # -- R9.51 twins ------------------------------------------------------------------------
    {"name": "twin-canhave-same-node-shortcut", "rule": "R9.51", "file": _tg("typegraph.cc"),
     "expect": "silent", "old": _CH_IF,
     "new": "      if (origin->where == this ||\n"
            "          this->backward_reachability_->is_reachable(this->id(),\n"
            "                                                     origin->where->id())) {"},
    {"name": "twin-canhave-hoisted-ids-continue-guard", "rule": "R9.51", "file": _tg("typegraph.cc"),
     "expect": "silent",
     "old": _CH_IF + "\n        origin_reachable = true;\n        break;\n      }",
     "new": "      const auto here = id();\n      const auto there = origin->where->id();\n"
            "      if (!backward_reachability_->is_reachable(here, there)) {\n        continue;\n      }\n"
            "      origin_reachable = true;\n      break;"},
    {"name": "twin-prune-unrelated-order-comparison", "rule": "R9.51", "file": _tg("typegraph.cc"),
     "expect": "silent", "old": "  } else if (bindings_.size() == 1) {",
     "new": "  } else if (bindings_.size() < 2 && bindings_.size() > 0) {"},
    {"name": "twin-benign-C09-r2-any_of-lambdas", "rule": "R9.51", "patch": "benign/C09-r2/patch.diff",
     "expect": "silent"},
    {"name": "reader-logs-id-order-elsewhere", "rule": "R9.51", "file": _tg("typegraph.cc"),
     "expect": "error", "old": _PQ,
     "new": "  const int backwards = (src->id() > dst->id()) + 0;\n  (void)backwards;\n" + _PQ},
]
