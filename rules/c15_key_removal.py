"""C15 extension (R15.26): a method that removes a caller-supplied key from a
mapping is only called under a *current* membership test of that key.

In the stages that run on every input before the VM (directors, blocks, pyc)
nothing catches a KeyError, so it escapes the analysis.  A method such as
`_BlockRanges.adjust_end(old_end, ..)` does `del self._end_to_start[old_end]`:
it has the precondition `old_end in self._end_to_start` *and it destroys that
precondition by running*.  A membership test that protects the call is
therefore valid for one call only; a test computed once and reused (hoisted
out of a loop, cached in a local) lets the second call raise KeyError
(two directives on the multi-line last statement of a function).

The rule derives, per class of the scope files:
  removers  - methods with `del self.<d>[<param>]` / `self.<d>.pop(<param>)`
              (no default) that is not locally protected (`if <param> in
              self.<d>`, try/except KeyError);
  testers   - methods that return `<param> in self.<d>`;
  mutators  - methods that add/remove keys of self.<d>.
Every call `<recv>.<remover>(<key>, ..)` in the scope must (1) lie under a
path condition that contains `<recv>.<tester>(<key>)` or `<key> in <recv>.<d>`
(directly, or through a local bound once to a conjunction containing it), and
(2) that test must have been *evaluated after the last mutation* of <recv>.<d>
and after the last re-binding of the names in <recv>/<key> on every path
reaching the call, loop back-edges included (must-dataflow: evaluating the
test generates "current", calling a mutator on <recv> or re-binding a name of
the test kills it).
"""
import ast

from sa.core import rule, AnalysisError
from sa.pyindex import get_module, src
from sa import flow

SCOPE_DIRS = ("pytype/directors/", "pytype/blocks/", "pytype/pyc/")
_KEY_MUTATORS = {"pop", "popitem", "clear", "update", "setdefault", "__setitem__", "__delitem__"}


def scope_files(ctx):
  from sa.pyindex import all_py_files
  out = []
  for rel in all_py_files(ctx):
    if rel.startswith(SCOPE_DIRS) and not rel.endswith("_test.py") and "/test" not in rel:
      out.append(rel)
  return out


def _self_attr(e):
  """d for `self.d`."""
  if isinstance(e, ast.Attribute) and isinstance(e.value, ast.Name) and e.value.id == "self":
    return e.attr
  return None


def _membership(test, pol=True):
  """(key expr, container expr) pairs asserted by test==pol: `k in c` conjuncts."""
  while isinstance(test, ast.UnaryOp) and isinstance(test.op, ast.Not):
    test, pol = test.operand, not pol
  out = []
  if isinstance(test, ast.BoolOp):
    if (isinstance(test.op, ast.And) and pol) or (isinstance(test.op, ast.Or) and not pol):
      for v in test.values:
        out += _membership(v, pol)
    return out
  if isinstance(test, ast.Compare) and len(test.ops) == 1:
    if (isinstance(test.ops[0], ast.In) and pol) or (isinstance(test.ops[0], ast.NotIn) and not pol):
      out.append((test.left, test.comparators[0]))
  return out


def _conjuncts(test, pol=True):
  """Atomic expressions asserted true by test==pol."""
  while isinstance(test, ast.UnaryOp) and isinstance(test.op, ast.Not):
    test, pol = test.operand, not pol
  if isinstance(test, ast.BoolOp):
    if (isinstance(test.op, ast.And) and pol) or (isinstance(test.op, ast.Or) and not pol):
      return [c for v in test.values for c in _conjuncts(v, pol)]
    return []
  return [test] if pol else []


def _catches_keyerror(mod, node, fn):
  cur = node
  while cur is not fn and cur in mod.parent:
    par = mod.parent[cur]
    if isinstance(par, ast.Try) and cur in par.body:
      for h in par.handlers:
        names = {"BaseException"} if h.type is None else {
            (src(t)).split(".")[-1] for t in
            (h.type.elts if isinstance(h.type, ast.Tuple) else [h.type])}
        if names & {"KeyError", "LookupError", "Exception", "BaseException"}:
          return True
    cur = par
  return False


class ClassModel:
  """removers / testers / mutators of one class."""

  def __init__(self, mod, cname):
    self.mod, self.cname = mod, cname
    self.removers = {}   # method -> (param index, dict attr, line)
    self.total = {}      # the same, for removers that protect themselves
    self.testers = {}    # method -> (param index, dict attr)
    self.mutators = {}   # dict attr -> {method}
    for mname, fn in mod.methods(cname).items():
      params = [a.arg for a in fn.args.args][1:]
      body = [s for s in fn.body if not (isinstance(s, ast.Expr) and isinstance(s.value, ast.Constant))]
      if len(body) == 1 and isinstance(body[0], ast.Return) and body[0].value is not None:
        ms = _membership(body[0].value)
        if len(ms) == 1 and isinstance(body[0].value, ast.Compare) and isinstance(ms[0][0], ast.Name) \
            and ms[0][0].id in params and _self_attr(ms[0][1]):
          self.testers[mname] = (params.index(ms[0][0].id), _self_attr(ms[0][1]))
      for n in ast.walk(fn):
        d = key = None
        if isinstance(n, ast.Delete):
          for t in n.targets:
            if isinstance(t, ast.Subscript) and _self_attr(t.value):
              d, key = _self_attr(t.value), t.slice
              self._note(mname, fn, params, n, d, key)
        elif isinstance(n, ast.Call) and isinstance(n.func, ast.Attribute) and _self_attr(n.func.value):
          d = _self_attr(n.func.value)
          if n.func.attr in _KEY_MUTATORS:
            self.mutators.setdefault(d, set()).add(mname)
          if n.func.attr == "pop" and len(n.args) == 1 and not n.keywords:
            self._note(mname, fn, params, n, d, n.args[0])
        elif isinstance(n, ast.Subscript) and isinstance(n.ctx, ast.Store) and _self_attr(n.value):
          self.mutators.setdefault(_self_attr(n.value), set()).add(mname)
        elif isinstance(n, ast.Attribute) and isinstance(n.ctx, ast.Store) and _self_attr(n) \
            and mname != "__init__":
          self.mutators.setdefault(n.attr, set()).add(mname)

  def _note(self, mname, fn, params, node, d, key):
    self.mutators.setdefault(d, set()).add(mname)
    if not (isinstance(key, ast.Name) and key.id in params):
      return
    mod = self.mod
    stmt = mod.enclosing_stmt(node)
    guards = flow.guards(mod.parent, stmt, stop=fn)
    protected = _catches_keyerror(mod, node, fn)
    for t, p in guards:
      for k, c in _membership(t, p):
        if isinstance(k, ast.Name) and k.id == key.id and _self_attr(c) == d:
          protected = True  # the method tests the key itself
    if protected:
      self.total.setdefault(mname, (params.index(key.id), d, node.lineno))
      return
    stores = [x for x in ast.walk(fn) if isinstance(x, ast.Name) and x.id == key.id
              and isinstance(x.ctx, ast.Store)]
    if stores:
      raise AnalysisError(f"{self.cname}.{mname}: the key parameter `{key.id}` is re-bound "
                          "before it is removed")
    self.removers[mname] = (params.index(key.id), d, node.lineno)


def _models(ctx, rels):
  out = []
  for rel in rels:
    mod = get_module(ctx, rel)
    for cname in mod.classes:
      m = ClassModel(mod, cname)
      for k in m.removers:
        m.total.pop(k, None)   # one unprotected removal makes the method partial
      if m.removers or m.total:
        out.append((rel, m))
  return out


def _call_arg(call, idx, fn_params):
  if any(isinstance(a, ast.Starred) for a in call.args) or any(k.arg is None for k in call.keywords):
    return None
  if idx < len(call.args):
    return call.args[idx]
  for k in call.keywords:
    if k.arg == fn_params[idx]:
      return k.value
  return None


def _check_site(ctx, rel, mod, fn, qual, call, model, mname):
  idx, d, _ = model.removers[mname]
  params = [a.arg for a in model.mod.methods(model.cname)[mname].args.args][1:]
  key = _call_arg(call, idx, params)
  if key is None:
    raise AnalysisError(f"{qual}: call of {mname} with star arguments / missing key argument")
  recv = call.func.value
  recv_s, key_s = src(recv), src(key)
  testers = {t for t, (_, td) in model.testers.items() if td == d}
  muts = model.mutators.get(d, set())

  def is_test(e):
    """Does expression e *evaluate* a membership test of key in recv's mapping?"""
    for n in ast.walk(e):
      if isinstance(n, ast.Call) and isinstance(n.func, ast.Attribute) and n.func.attr in testers \
          and src(n.func.value) == recv_s:
        tparams = [a.arg for a in model.mod.methods(model.cname)[n.func.attr].args.args][1:]
        a = _call_arg(n, model.testers[n.func.attr][0], tparams)
        if a is not None and src(a) == key_s:
          return True
      if isinstance(n, ast.Compare) and len(n.ops) == 1 and isinstance(n.ops[0], (ast.In, ast.NotIn)) \
          and src(n.left) == key_s and src(n.comparators[0]) == f"{recv_s}.{d}":
        return True
    return False

  def asserted(e):
    """Is e (asserted true) the membership test itself?"""
    if isinstance(e, ast.Call) and isinstance(e.func, ast.Attribute) and e.func.attr in testers:
      return is_test(e)
    if isinstance(e, ast.Compare) and isinstance(e.ops[0], ast.In):
      return is_test(e)
    return False

  stmt = mod.enclosing_stmt(call)
  guards = flow.guards(mod.parent, stmt, stop=fn)
  # (1) the path condition contains the test
  holds = False
  via = None
  for t, p in guards:
    for c in _conjuncts(t, p):
      if asserted(c):
        holds, via = True, src(c)
      elif isinstance(c, ast.Name):
        defs = [mod.parent.get(x) for x in ast.walk(fn) if isinstance(x, ast.Name)
                and x.id == c.id and isinstance(x.ctx, ast.Store)]
        if len(defs) == 1 and isinstance(defs[0], ast.Assign) and len(defs[0].targets) == 1:
          if any(asserted(cc) for cc in _conjuncts(defs[0].value, True)):
            holds, via = True, f"{c.id} = {src(defs[0].value)[:60]}"
        elif any(isinstance(dd, ast.Assign) and is_test(dd.value) for dd in defs):
          raise AnalysisError(f"{qual}: the flag `{c.id}` guarding {mname} is bound more than once")
  # (2) the test is current
  names = {n.id for e in (recv, key) for n in ast.walk(e) if isinstance(n, ast.Name)} - {"self"}
  FACT = "current"

  def gen(unit):
    return {FACT} if is_test(unit) else None

  def kill(unit):
    for n in ast.walk(unit):
      if isinstance(n, ast.Call) and isinstance(n.func, ast.Attribute) and n.func.attr in muts \
          and src(n.func.value) == recv_s:
        return {FACT}
      if isinstance(n, ast.Name) and isinstance(n.ctx, (ast.Store, ast.Del)) and n.id in names:
        return {FACT}
      if isinstance(n, (ast.Attribute, ast.Subscript)) and isinstance(n.ctx, (ast.Store, ast.Del)) \
          and src(n).startswith(recv_s):
        return {FACT}
    return None

  f = flow.flow(fn, gen, kill, mode="must")
  before = f.before.get(stmt)
  # the statement's own header may evaluate the test (call inside an `if` test is not supported)
  if stmt not in f.before:
    raise AnalysisError(f"{qual}: the statement calling {mname} was not reached by the dataflow")
  current = before is not None and FACT in before
  problems = []
  if not holds:
    problems.append(f"no path condition establishes `{key_s}` is a key of {recv_s}.{d} "
                    f"({' / '.join(sorted(testers)) or 'in'})")
  elif not current:
    problems.append(f"the membership test ({via}) is not re-evaluated after the last change of "
                    f"{recv_s}.{d} on every path to the call: {mname} itself removes the key, so "
                    "a test computed once and reused (a loop back-edge reaches the call again) "
                    "lets the next call raise KeyError")
  ctx.check(not problems, f"remover-call:{qual}:{mname}", rel, call.lineno,
            f"{model.cname}.{mname} removes the key it is given (`del self.{d}[..]`) and "
            "nothing catches KeyError before it leaves the analysis: " + "; ".join(problems),
            {"receiver": recv_s, "key": key_s, "guard": via, "mutators": sorted(muts),
             "testers": sorted(testers)})


@rule("R15.26", "C15", floor=2)
def r15_26(ctx):
  """Key-removing methods are called under a current membership test."""
  rels = scope_files(ctx)
  if not rels:
    raise AnalysisError("no files in the pre-VM stage directories")
  models = _models(ctx, rels)
  if not models:
    raise AnalysisError("no method removing a caller-supplied key from a mapping was found in "
                        f"{SCOPE_DIRS}: the premise of the rule is gone")
  by_name = {}
  for rel, m in models:
    for mname, (idx, d, line) in m.removers.items():
      by_name.setdefault(mname, []).append((rel, m))
      ctx.ok(f"remover:{m.cname}.{mname}", rel, line,
             {"mapping": f"self.{d}", "testers": sorted(t for t, (_, td) in m.testers.items() if td == d),
              "mutators": sorted(m.mutators.get(d, ()))})
    for mname, (idx, d, line) in m.total.items():
      by_name.setdefault(mname, []).append((rel, m))
      ctx.ok(f"remover:{m.cname}.{mname}", rel, line,
             {"mapping": f"self.{d}", "protects_itself": True})
  sites = 0
  for rel in rels:
    text = ctx.read(rel)
    if not any(f".{n}(" in text for n in by_name):
      continue
    mod = get_module(ctx, rel)
    for n in ast.walk(mod.tree):
      if isinstance(n, ast.Call) and isinstance(n.func, ast.Attribute) and n.func.attr in by_name:
        cands = by_name[n.func.attr]
        if len(cands) != 1:
          raise AnalysisError(f"{rel}:{n.lineno}: `{n.func.attr}` names key-removing methods of "
                              f"several classes {[c[1].cname for c in cands]}")
        fn = mod.enclosing_function(n)
        if fn is None:
          raise AnalysisError(f"{rel}:{n.lineno}: {n.func.attr} called at module level")
        model = cands[0][1]
        if isinstance(n.func.value, ast.Name) and n.func.value.id == "self" \
            and mod.enclosing_function(n) in model.mod.methods(model.cname).values():
          raise AnalysisError(f"{rel}:{n.lineno}: {n.func.attr} is called on self inside its own class")
        qual = _qual(mod, fn)
        if n.func.attr in model.total:
          ctx.ok(f"remover-call:{qual}:{n.func.attr}", rel, n.lineno,
                 {"callee_protects_itself": True})
        else:
          _check_site(ctx, rel, mod, fn, qual, n, model, n.func.attr)
        sites += 1
  if not sites:
    raise AnalysisError(f"no call of {sorted(by_name)} found")


def _qual(mod, fn):
  for cname in mod.classes:
    for mname, f in mod.methods(cname).items():
      if f is fn:
        return f"{cname}.{mname}"
  return fn.name


DIR = "pytype/directors/directors.py"
_GUARD = ("        if not isinstance(\n"
          "            line_range, parser.Call\n"
          "        ) and self._function_ranges.has_end(line_range.end_line):\n"
          "          end = line_range.start_line\n"
          "          self._function_ranges.adjust_end(line_range.end_line, end)\n")

VARIANTS = [
    {"name": "seeded-C15-r3m1", "rule": "R15.26", "patch": "seeded/C15-r3m1/patch.diff",
     "expect": "fire"},
    # the membership test is dropped
    {"name": "adjust-end-without-has-end", "rule": "R15.26", "file": DIR, "expect": "fire",
     "old": _GUARD,
     "new": ("        if not isinstance(line_range, parser.Call):\n"
             "          end = line_range.start_line\n"
             "          self._function_ranges.adjust_end(line_range.end_line, end)\n")},
    # tested once, then adjusted twice in a row
    {"name": "adjust-end-twice-under-one-test", "rule": "R15.26", "file": DIR, "expect": "fire",
     "old": _GUARD,
     "new": ("        if not isinstance(\n"
             "            line_range, parser.Call\n"
             "        ) and self._function_ranges.has_end(line_range.end_line):\n"
             "          self._function_ranges.adjust_end(line_range.end_line, line_range.end_line)\n"
             "          end = line_range.start_line\n"
             "          self._function_ranges.adjust_end(line_range.end_line, end)\n")},
    # a different key is tested
    {"name": "has-end-tests-another-key", "rule": "R15.26", "file": DIR, "expect": "fire",
     "old": ") and self._function_ranges.has_end(line_range.end_line):",
     "new": ") and self._function_ranges.has_end(line_range.start_line):"},
    # flag computed before the comment loop via `in` on the mapping itself
    {"name": "membership-flag-hoisted-out-of-loop", "rule": "R15.26", "expect": "fire",
     "edits": [(DIR, "      for comment in group:\n        if comment.tool == \"type\":\n",
                "      known_end = line_range.end_line in self._function_ranges._end_to_start\n"
                "      for comment in group:\n        if comment.tool == \"type\":\n"),
               (DIR, _GUARD,
                "        if not isinstance(line_range, parser.Call) and known_end:\n"
                "          end = line_range.start_line\n"
                "          self._function_ranges.adjust_end(line_range.end_line, end)\n")]},
    # twins
    {"name": "twin-flag-computed-per-comment", "rule": "R15.26", "file": DIR, "expect": "silent",
     "old": _GUARD,
     "new": ("        ends_function = not isinstance(\n"
             "            line_range, parser.Call\n"
             "        ) and self._function_ranges.has_end(line_range.end_line)\n"
             "        if ends_function:\n"
             "          end = line_range.start_line\n"
             "          self._function_ranges.adjust_end(line_range.end_line, end)\n")},
    {"name": "twin-guard-clause-continue", "rule": "R15.26", "file": DIR, "expect": "silent",
     "old": _GUARD,
     "new": ("        if isinstance(line_range, parser.Call):\n"
             "          continue\n"
             "        if not self._function_ranges.has_end(line_range.end_line):\n"
             "          continue\n"
             "        self._function_ranges.adjust_end(line_range.end_line, line_range.start_line)\n")},
    {"name": "twin-adjust-once-after-the-comment-loop", "rule": "R15.26", "file": DIR,
     "expect": "silent", "old": _GUARD,
     "new": ("      # Make sure the function range ends at the last interesting line.\n"
             "      if not isinstance(\n"
             "          line_range, parser.Call\n"
             "      ) and self._function_ranges.has_end(line_range.end_line):\n"
             "        self._function_ranges.adjust_end(line_range.end_line, line_range.start_line)\n")},
    # the remover made total: callers owe nothing (hoisted flag is then harmless)
    {"name": "twin-adjust-end-total-and-flag-hoisted", "rule": "R15.26", "expect": "silent",
     "edits": [(DIR, "    start = self._end_to_start[old_end]\n",
                "    if old_end not in self._end_to_start:\n      return\n"
                "    start = self._end_to_start[old_end]\n"),
               (DIR, "      for comment in group:\n        if comment.tool == \"type\":\n",
                "      ends_function = not isinstance(\n"
                "          line_range, parser.Call\n"
                "      ) and self._function_ranges.has_end(line_range.end_line)\n"
                "      for comment in group:\n        if comment.tool == \"type\":\n"),
               (DIR, _GUARD,
                "        if ends_function:\n"
                "          end = line_range.start_line\n"
                "          self._function_ranges.adjust_end(line_range.end_line, end)\n")]},
]
