"""C05 extension R5.24: printer and stub reader agree on parameter kinds for every order of kinds.

PrintVisitor.VisitSignature lays out the already printed parameters and inserts the separators that carry
the parameter kinds in stub syntax: `/` closes the positional-only run, a bare `*` (or `*args`) opens the
keyword-only run.  The stub reader takes the kinds back from the fields of python's `ast.arguments`
(pyi/function.py: posonlyargs -> POSONLY, args -> REGULAR, kwonlyargs -> KWONLY, vararg, kwarg).  The rule
takes VisitSignature from /repo as an AST and evaluates it (rules/_minieval.py; nothing is imported or run)
for every well-formed sequence of kinds with up to 4 named parameters (p positional-only, r regular, k
keyword-only, p+r+k <= 4) x with/without *args x with/without **kwargs x one-line / multi-line layout, parses
the produced text with the host's python grammar (the reader uses the same grammar through `ast.parse`) and
maps the fields back to kinds with the table read from pyi/function.py.  The kinds (and names, and the
star parameters) read back must be the ones printed.
"""
import ast
import itertools

from sa.core import rule, AnalysisError
from sa.pyindex import get_module, dotted, calls_in
from rules import _minieval as me
from rules.c05 import class_methods, PRINTER
from rules.c05_smallscope import _Interp, _module_globals, _run, _second

READER = "pytype/pyi/function.py"
KINDS = ("POSONLY", "REGULAR", "KWONLY")


def _field_read(node, holder=None):
  """`x.F` or `getattr(x, "F", ...)` -> F."""
  if isinstance(node, ast.Attribute):
    return node.attr
  if isinstance(node, ast.Call) and dotted(node.func) == "getattr" and len(node.args) >= 2 and \
      isinstance(node.args[1], ast.Constant) and isinstance(node.args[1].value, str):
    return node.args[1].value
  return None


def reader_kind_table(ctx):
  """{ast.arguments field: kind} as the stub reader assigns them, + the function it was read from."""
  mod = get_module(ctx, READER)
  table, where = {}, None
  for node in ast.walk(mod.tree):
    if not isinstance(node, (ast.ListComp, ast.GeneratorExp)) or len(node.generators) != 1:
      continue
    kinds = []
    for c in calls_in(node.elt) + ([node.elt] if isinstance(node.elt, ast.Call) else []):
      for a in list(c.args) + [k.value for k in c.keywords]:
        d = dotted(a) or ""
        if ".ParameterKind." in "." + d and d.rsplit(".", 1)[-1] in KINDS:
          kinds.append(d.rsplit(".", 1)[-1])
    kinds = sorted(set(kinds))
    if not kinds:
      continue
    field = _field_read(node.generators[0].iter)
    if len(kinds) != 1 or field is None or field in table:
      raise AnalysisError(f"{READER}:{node.lineno}: cannot read which ast.arguments field gets which parameter kind")
    table[field] = kinds[0]
    where = mod.enclosing_function(node)
  if sorted(table.values()) != sorted(KINDS) or not set(table) <= {"posonlyargs", "args", "kwonlyargs"}:
    raise AnalysisError(f"{READER}: expected one comprehension per parameter kind over a field of ast.arguments, "
                        f"found {table}")
  reads = {n.attr for n in ast.walk(where) if isinstance(n, ast.Attribute)}
  if not {"vararg", "kwarg"} <= reads:
    raise AnalysisError(f"{READER}: {where.name} no longer reads args.vararg / args.kwarg")
  return table, where


def _scope():
  for p, r, k in itertools.product(range(5), repeat=3):
    if p + r + k <= 4:
      for star, starstar in itertools.product((False, True), repeat=2):
        yield p, r, k, star, starstar


def _after_posonly(p, r, k, star, starstar):
  if not p:
    return "no positional-only parameters"
  if r:
    return "positional-only run followed by a regular parameter"
  if star:
    return "positional-only run followed by *args"
  if k:
    return "positional-only run followed by a bare *"
  if starstar:
    return "positional-only run followed by **kwargs"
  return "positional-only run at the end"


def _param(name, kind):
  return me.Obj(("pytd.Parameter",), {"name": name, "kind": me.Sym(f"pytd.ParameterKind.{kind}"),
                                      "mutated_type": None, "optional": False, "type": "int"})


def _describe(kinds, star, starstar):
  parts = [f"{n}:{k.lower()}" for n, k in kinds]
  cut = sum(1 for _, k in kinds if k != "KWONLY")
  if star:
    parts.insert(cut, "*args")
  if starstar:
    parts.append("**kwargs")
  return "(" + ", ".join(parts) + ")"


@rule("R5.24", "C05", floor=6)
def r5_24(ctx):
  """The separators VisitSignature writes carry every parameter's kind back through the stub grammar."""
  table, reader_fn = reader_kind_table(ctx)
  pmod = get_module(ctx, PRINTER)
  g = _module_globals(pmod)
  ms = {k: v for k, v in class_methods(pmod, "PrintVisitor").items() if not v.decorator_list}
  vs = ms.get("VisitSignature")
  if vs is None:
    raise AnalysisError("PrintVisitor.VisitSignature not found")
  groups = {}
  for p, r, k, star, starstar in _scope():
    names = iter("abcdefgh")
    kinds = [(next(names), kd) for kd, n in zip(KINDS, (p, r, k)) for _ in range(n)]
    old = me.Obj(("pytd.Signature",), {
        "params": tuple(_param(n, kd) for n, kd in kinds),
        "starargs": _param("args", "REGULAR") if star else None,
        "starstarargs": _param("kwargs", "REGULAR") if starstar else None,
        "return_type": "int", "exceptions": (), "template": ()})
    new = me.Obj(("pytd.Signature",), {
        "params": tuple(f"{n}: int" for n, _ in kinds), "starargs": "args" if star else None,
        "starstarargs": "kwargs" if starstar else None, "return_type": "int", "exceptions": (), "template": ()})
    for multiline in (False, True):
      this = me.Obj(("PrintVisitor",), {"old_node": old, "multiline_args": multiline, "INDENT": "    ",
                                        "in_signature": True, "class_names": [], "_class_members": set(),
                                        "_local_names": {}, "_unit": None},
                    methods={"_FormatContainerContents": lambda prm: prm.attrs["name"],
                             "_FromTyping": lambda nm: nm, "Print": lambda n: "int"}, cls_methods=ms)
      shape = _describe(kinds, star, starstar)
      try:
        text = _run("VisitSignature", lambda: _Interp(vs, g).call({"self": this, _second(vs): new}))
      except me.Raised as e:
        raise AnalysisError(f"VisitSignature raises {e.name} for the well-formed signature {shape}") from e
      if not isinstance(text, str):
        raise AnalysisError(f"VisitSignature evaluates to {text!r}, not text")
      want = {"kinds": [[n, kd] for n, kd in kinds], "starargs": "args" if star else None,
              "starstarargs": "kwargs" if starstar else None}
      try:
        fn = ast.parse("def f" + text).body[0]
        a = fn.args
        got = {"kinds": [[x.arg, table[f]] for f in ("posonlyargs", "args", "kwonlyargs") if f in table
                         for x in getattr(a, f)],
               "starargs": a.vararg.arg if a.vararg else None, "starstarargs": a.kwarg.arg if a.kwarg else None}
        problem = None if got == want else f"is read back as {_describe([tuple(x) for x in got['kinds']], got['starargs'], got['starstarargs'])}"
      except SyntaxError as e:
        got, problem = None, f"does not parse ({e.msg})"
      grp = groups.setdefault(_after_posonly(p, r, k, star, starstar), {"cases": 0, "bad": []})
      grp["cases"] += 1
      if problem:
        grp["bad"].append({"signature": shape, "printed": "def f" + " ".join(text.split()), "problem": problem,
                           "layout": "multi-line" if multiline else "one line"})
  for label, grp in sorted(groups.items()):
    name = f"PrintVisitor.VisitSignature:kinds-read-back[{label}]"
    facts = {"cases": grp["cases"], "reader_table": table, "reader": f"{READER}:{reader_fn.name}"}
    if grp["bad"]:
      ex = grp["bad"][0]
      ctx.bad(name, PRINTER, vs.lineno,
              f"the signature {ex['signature']} is printed as `{ex['printed']}` ({ex['layout']}), which "
              f"{ex['problem']} by the stub reader ({READER}:{reader_fn.name} takes kinds from ast.arguments): "
              f"the emitted stub is not a print/parse fixed point ({len(grp['bad'])} of {grp['cases']} signatures "
              "of this shape)", dict(facts, counterexample=ex, failing=len(grp["bad"])))
    else:
      ctx.ok(name, PRINTER, vs.lineno, facts)


_SLASH = ("      if self.old_node.params[i].kind == pytd.ParameterKind.POSONLY and (\n"
          "          i == len(node.params) - 1\n"
          "          or self.old_node.params[i + 1].kind != pytd.ParameterKind.POSONLY\n      ):\n"
          "        params.append(\"/\")\n")
VARIANTS = [
    {"name": "seeded-C05-r4m1", "rule": "R5.24", "patch": "seeded/C05-r4m1/patch.diff", "expect": "fire"},
    {"name": "slash-not-written-after-a-trailing-posonly-run", "rule": "R5.24", "file": PRINTER, "old": _SLASH,
     "new": "      if self.old_node.params[i].kind == pytd.ParameterKind.POSONLY and (\n"
            "          i < len(node.params) - 1\n"
            "          and self.old_node.params[i + 1].kind != pytd.ParameterKind.POSONLY\n      ):\n"
            "        params.append(\"/\")\n", "expect": "fire"},
    {"name": "slash-after-every-posonly-parameter", "rule": "R5.24", "file": PRINTER, "old": _SLASH,
     "new": "      if self.old_node.params[i].kind == pytd.ParameterKind.POSONLY:\n"
            "        params.append(\"/\")\n", "expect": "fire"},
    {"name": "slash-before-the-last-posonly-parameter", "rule": "R5.24", "file": PRINTER,
     "old": "      params.append(p)\n      if self.old_node.params[i].kind == pytd.ParameterKind.POSONLY and (\n",
     "new": "      if self.old_node.params[i].kind == pytd.ParameterKind.POSONLY and (\n", "expect": "fire"},
    {"name": "bare-star-dropped-when-there-is-no-varargs", "rule": "R5.24", "file": PRINTER,
     "old": "        params.append(\"*\" + starargs)\n",
     "new": "        if starargs:\n          params.append(\"*\" + starargs)\n", "expect": "fire"},
    {"name": "varargs-written-after-the-keyword-only-parameters", "rule": "R5.24", "file": PRINTER,
     "old": "        params.append(\"*\" + starargs)\n        params.extend(node.params[i:])\n",
     "new": "        params.extend(node.params[i:])\n        params.append(\"*\" + starargs)\n", "expect": "fire"},
    {"name": "twin-slash-by-lookahead-helper", "rule": "R5.24", "file": PRINTER, "old": _SLASH,
     "new": "      nxt = self.old_node.params[i + 1].kind if i + 1 < len(node.params) else None\n"
            "      if (self.old_node.params[i].kind == pytd.ParameterKind.POSONLY\n"
            "          and nxt != pytd.ParameterKind.POSONLY):\n"
            "        params.append(\"/\")\n", "expect": "silent"},
    {"name": "twin-running-flag-flushed-at-every-exit", "rule": "R5.24", "expect": "silent",
     "edits": [(PRINTER,
                "        params.append(\"*\" + starargs)\n        params.extend(node.params[i:])\n",
                "        if i and self.old_node.params[i - 1].kind == pytd.ParameterKind.POSONLY:\n"
                "          params.append(\"/\")\n"
                "        params.append(\"*\" + starargs)\n        params.extend(node.params[i:])\n"),
               (PRINTER, _SLASH,
                "      if self.old_node.params[i].kind == pytd.ParameterKind.POSONLY and (\n"
                "          i == len(node.params) - 1\n"
                "          or self.old_node.params[i + 1].kind == pytd.ParameterKind.REGULAR\n      ):\n"
                "        params.append(\"/\")\n")]},
    {"name": "twin-slash-position-computed-before-the-loop", "rule": "R5.24", "expect": "silent",
     "edits": [(PRINTER, "    params = []\n    for i, p in enumerate(node.params):\n",
                "    params = []\n"
                "    n_posonly = len([q for q in self.old_node.params if q.kind == pytd.ParameterKind.POSONLY])\n"
                "    for i, p in enumerate(node.params):\n"),
               (PRINTER, _SLASH, "      if i == n_posonly - 1:\n        params.append(\"/\")\n")]},
    {"name": "twin-benign-C05-r1", "rule": "R5.24", "patch": "benign/C05-r1/patch.diff", "expect": "silent"},
]
