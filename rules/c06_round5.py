"""C06 extensions R6.50 / R6.51.

R6.50 - a member the public class defines itself wins over the hidden base that is merged into it.
When a class of module A has a base that is not visible at module scope (defined in a function, an anonymous
namedtuple parent, ...), output.py folds that base into the class with pytd_utils.MergeBaseClass before the stub
is written.  The merged class is what module B reads, so it has to have the members Python's attribute lookup
gives the subclass: for every kind of member (methods, constants, nested classes) and every name defined by the
class or the base there is exactly one entry in the merged class, the class's own when it has one, else the
base's.  The rule takes MergeBaseClass (and whatever local/module helpers it calls) from /repo as an AST and
evaluates it (rules/_minieval.py; nothing is imported or run) on every pair of small classes: own member names
drawn from {p, q}, inherited ones from {p, q, r}, in every order (80 pairs per member kind; within one evaluation
the three kinds have different configurations, so testing one kind against another kind's names shows).  A
same-named member of the class and of the base differ by a tag only; a merge whose result is not made of the
given members cannot be judged and raises an AnalysisError.

R6.51 - two requests for an *instance* never share one cached abstract value.
convert.Converter.constant_to_value memoises conversions in `_convert_cache`.  A pytd type wrapped in
abstract_utils.AsInstance asks for a fresh instance value; instances of generic classes are mutable (the VM
merges `up.X.append("s")` into the instance's type parameters), so the instance made for stub constant X must
not be the object handed out for stub constant Y of an equal declared type.  What guarantees that in the code:
(a) every key under which the memo is read or written contains the request object itself (a hit therefore
needs `request == earlier request`), never only something computed from it, and (b) the wrapper classes compare
by identity (no __eq__/__hash__, no generated equality).  The rule decides (a) on every definition of the key
that reaches a cache access (through local names, conditional expressions and helper functions that build
the key), and (b) on AsInstance and its subclasses.  It does not decide which other kinds of request may share.
"""
import ast
import itertools

from sa.core import rule, AnalysisError
from sa.pyindex import get_module, dotted, src
from sa import flow
from rules import _minieval as me
from rules.c05_smallscope import _Interp, _module_globals, _run
from rules._pytd_schema import reaching, defs_at

PYTD_UTILS = "pytype/pytd/pytd_utils.py"
CONVERT = "pytype/convert.py"
ABSTRACT_UTILS = "pytype/abstract/abstract_utils.py"

# ------------------------------------------------------------------------------------------------- R6.50

KINDS = (("methods", "pytd.Function"), ("constants", "pytd.Constant"), ("classes", "pytd.Class"))


def _member(kind_cls, name, owner):
  # structural, like the msgspec structs of pytd: same name + different `owner` = unequal nodes
  return me.Obj((kind_cls,), {"name": name, "owner": owner, "type": me.Obj(("pytd.NamedType",), {"name": owner},
                                                                            structural=True)}, structural=True)


_OFFSETS = (0, 27, 53)


def _klass(name, owner, names, bases):
  """`names`: member kind -> names in declaration order."""
  attrs = {"name": name, "keywords": (), "bases": bases, "decorators": (), "slots": None, "template": ()}
  for field, kind_cls in KINDS:
    attrs[field] = tuple(_member(kind_cls, n, owner) for n in names[field])
  return me.replaceable(("pytd.Class",), **attrs)


def _orders(universe):
  for k in range(len(universe) + 1):
    for combo in itertools.combinations(universe, k):
      yield from itertools.permutations(combo)


def _class_resolver(name, args, kw):
  if name.rsplit(".", 1)[-1] == "Class" and not args:
    return me.Obj(("pytd.Class",), dict(kw))
  return NotImplemented


@rule("R6.50", "C06", floor=3)
def r6_50(ctx):
  """Merging a hidden base into a class keeps, per member kind and name, exactly one entry: the class's own, else the base's."""
  mod = get_module(ctx, PYTD_UTILS)
  fn = mod.func("MergeBaseClass")
  params = [a.arg for a in fn.args.posonlyargs + fn.args.args]
  if len(params) != 2:
    raise AnalysisError(f"MergeBaseClass has parameters {params} (expected the class and the base)")
  g = _module_globals(mod)
  g["__resolver__"] = _class_resolver
  results = {field: [] for field, _ in KINDS}
  hidden = me.Obj(("pytd.ClassType",), {"name": "Hidden"}, structural=True)
  other = me.Obj(("pytd.ClassType",), {"name": "Other"}, structural=True)
  configs = [(own, inherited) for own in _orders(("p", "q")) for inherited in _orders(("p", "q", "r"))]
  for i in range(len(configs)):
    # each kind of member gets its own configuration in every evaluation (all kinds see all configurations), so a
    # merge that tests one kind's names against another kind's cannot agree by accident
    per_kind = {field: configs[(i + off) % len(configs)] for (field, _), off in zip(KINDS, _OFFSETS)}
    base = _klass("Hidden", "base", {f: c[1] for f, c in per_kind.items()}, (other,))
    # the merged base is named in the class's base list by the object itself (what output.py passes)
    cls = _klass("Pub", "cls", {f: c[0] for f, c in per_kind.items()}, (base, hidden))
    try:
      merged = _run("MergeBaseClass", lambda c=cls, b=base: _Interp(fn, g, resolver=_class_resolver).call(
          {params[0]: c, params[1]: b}))
    except me.Raised as e:
      raise AnalysisError(f"MergeBaseClass raises {e.name} in the evaluation (members {per_kind})") from e
    if not isinstance(merged, me.Obj):
      raise AnalysisError(f"MergeBaseClass evaluates to {merged!r}, not a class record")
    for field, _ in KINDS:
      own, inherited = per_kind[field]
      got = merged.attrs.get(field)
      if not isinstance(got, (tuple, list)) or not all(
          isinstance(m, me.Obj) and isinstance(m.attrs.get("name"), str) and m.attrs.get("owner") in ("cls", "base")
          and m.kinds == (dict(KINDS)[field],) for m in got):
        raise AnalysisError(f"MergeBaseClass: the merged class's `{field}` is not a sequence of the given {field}")
      want = {n: "cls" for n in own}
      for n in inherited:
        want.setdefault(n, "base")
      have = [(m.attrs["name"], m.attrs["owner"]) for m in got]
      results[field].append({"own": list(own), "inherited": list(inherited), "merged": have,
                             "ok": sorted(have) == sorted(want.items())})
  for field, _ in KINDS:
    cases = results[field]
    # control: the scope contains cases where only the tag tells the right answer from the wrong one
    if not any(set(c["own"]) & set(c["inherited"]) for c in cases):
      raise AnalysisError("R6.50 scope has no overriding member")
    bad = [c for c in cases if not c["ok"]]
    facts = {"cases": len(cases)}
    name = f"MergeBaseClass:{field}:own-member-wins"
    if bad:
      ex = min(bad, key=lambda c: (len(c["own"]) + len(c["inherited"]), c["own"], c["inherited"]))
      ctx.bad(name, PYTD_UTILS, fn.lineno,
              f"merging a hidden base that defines {field} {ex['inherited']} into a class that defines {field} "
              f"{ex['own']} gives {[f'{o}:{n}' for n, o in ex['merged']]} (expected one entry per name, the class's "
              "own where it has one, else the base's): the stub emitted for module A gives the class a member that "
              "attribute lookup on the class does not find (or lacks one it finds), so module B reads another type "
              f"than A's analysis inferred ({len(bad)} of {len(cases)} pairs of classes)",
              dict(facts, counterexample=ex, failing=len(bad)))
    else:
      ctx.ok(name, PYTD_UTILS, fn.lineno, facts)


# ------------------------------------------------------------------------------------------------- R6.51

def _resolve_callee(mod, fn, call):
  """The def a call denotes (nested def, module function, self.method) or None."""
  d = dotted(call.func)
  if d is None:
    return None
  for n in ast.walk(fn):
    if isinstance(n, ast.FunctionDef) and n is not fn and n.name == d:
      return n
  if d in mod.functions:
    return mod.functions[d]
  if d.startswith("self.") and d.count(".") == 1:
    cls = mod.parent.get(fn)
    while cls is not None and not isinstance(cls, ast.ClassDef):
      cls = mod.parent.get(cls)
    if cls is not None:
      for st in cls.body:
        if isinstance(st, ast.FunctionDef) and st.name == d[5:]:
          return st
  return None


def _stored(fn, name):
  return any(isinstance(n, ast.Name) and n.id == name and isinstance(n.ctx, (ast.Store, ast.Del))
             for n in ast.walk(fn)) or any(
                 isinstance(n, ast.arg) and n.arg == name for f in ast.walk(fn)
                 if isinstance(f, (ast.FunctionDef, ast.Lambda)) and f is not fn for n in ast.walk(f.args))


def _holds(mod, fn, expr, pname, at, depth=0):
  """Does the value of `expr` (evaluated at statement `at` of fn) contain the object bound to parameter <pname>
  as an element of nested tuple displays?  True / False (only derived from it, or unrelated); refuses on shapes
  it cannot follow."""
  if depth > 4:
    raise AnalysisError("cache key: chain of helpers / locals too deep")
  if isinstance(expr, ast.Name):
    if expr.id == pname:
      return True
    ds = defs_at(reaching(fn), at, expr.id)
    if not ds:
      return False   # another parameter / a global
    out = []
    for d in ds:
      if isinstance(d, ast.Assign) and len(d.targets) == 1 and isinstance(d.targets[0], ast.Name):
        out.append(_holds(mod, fn, d.value, pname, d, depth + 1))
      elif isinstance(d, ast.AnnAssign) and d.value is not None and isinstance(d.target, ast.Name):
        out.append(_holds(mod, fn, d.value, pname, d, depth + 1))
      else:
        raise AnalysisError(f"cache key: `{expr.id}` is bound by a {type(d).__name__} the rule does not follow")
    return all(out)
  if isinstance(expr, ast.Tuple):
    if any(isinstance(e, ast.Starred) for e in expr.elts):
      raise AnalysisError("cache key: starred element in the key")
    return any(_holds(mod, fn, e, pname, at, depth) for e in expr.elts)
  if isinstance(expr, ast.IfExp):
    return _holds(mod, fn, expr.body, pname, at, depth) and _holds(mod, fn, expr.orelse, pname, at, depth)
  if isinstance(expr, ast.BinOp) and isinstance(expr.op, ast.Add):   # tuple concatenation
    return _holds(mod, fn, expr.left, pname, at, depth) or _holds(mod, fn, expr.right, pname, at, depth)
  if isinstance(expr, ast.Call):
    if dotted(expr.func) == "id" and any(src(a) == pname for a in expr.args):
      raise AnalysisError(f"cache key: id({pname}) is an identity key that does not keep the object alive; "
                          "the rule does not decide address reuse")
    h = _resolve_callee(mod, fn, expr)
    passed = [i for i, a in enumerate(expr.args) if isinstance(a, ast.Name) and a.id == pname]
    if h is None or not passed or expr.keywords or any(isinstance(a, ast.Starred) for a in expr.args):
      return False   # type(request), _type_key(request), getattr(request, ...): computed from it, not it
    hparams = [a.arg for a in h.args.posonlyargs + h.args.args]
    if hparams and hparams[0] in ("self", "cls") and (dotted(expr.func) or "").startswith("self."):
      hparams = hparams[1:]
    if h.args.vararg or h.args.kwarg or len(hparams) < len(expr.args):
      raise AnalysisError(f"cache key: arguments of helper {h.name} not understood")
    rets = [n for n in ast.walk(h) if isinstance(n, ast.Return) and mod.enclosing_function(n) is h]
    if not rets or any(r.value is None for r in rets):
      return False
    verdicts = []
    for r in rets:
      # the helper holds the request if it holds any of the parameters the request was passed for
      v = False
      for i in passed:
        if _stored(h, hparams[i]):
          raise AnalysisError(f"cache key: helper {h.name} rebinds `{hparams[i]}`")
        v = v or _holds(mod, h, r.value, hparams[i], r, depth + 1)
      verdicts.append(v)
    return all(verdicts)
  return False


def _isinstance_classes(test, pname):
  """Classes named by `isinstance(<pname>, K)` / `type(<pname>) is K` when `test` is exactly that, else None."""
  if isinstance(test, ast.Call) and dotted(test.func) == "isinstance" and len(test.args) == 2 \
      and src(test.args[0]) == pname:
    k = test.args[1]
    elts = k.elts if isinstance(k, ast.Tuple) else [k]
    names = [dotted(e) for e in elts]
    return None if None in names else {n.rsplit(".", 1)[-1] for n in names}
  return None


def _wrapper_family(ctx):
  """AsInstance and its (transitive) subclasses in abstract_utils.py -> {name: ClassDef}."""
  amod = get_module(ctx, ABSTRACT_UTILS)
  if "AsInstance" not in amod.classes:
    raise AnalysisError("abstract_utils.AsInstance not found")
  fam = {"AsInstance": amod.classes["AsInstance"]}
  changed = True
  while changed:
    changed = False
    for name, c in amod.classes.items():
      if name not in fam and any((dotted(b) or "").rsplit(".", 1)[-1] in fam for b in c.bases):
        fam[name] = c
        changed = True
  return amod, fam


def _equality_verdict(c, fam):
  """None = compares by identity; else the reason it does not.  Refuses on shapes that may generate equality."""
  for b in c.bases:
    d = dotted(b)
    if d in ("object",):
      continue
    if d is None or d.rsplit(".", 1)[-1] not in fam:
      raise AnalysisError(f"abstract_utils.{c.name}: base `{src(b)}` is outside the wrapper family; the rule "
                          "cannot see whether it defines equality")
  if c.keywords:
    raise AnalysisError(f"abstract_utils.{c.name}: class keywords {[k.arg for k in c.keywords]} not understood")
  for dec in c.decorator_list:
    call = dec if isinstance(dec, ast.Call) else None
    d = dotted(call.func if call else dec) or ""
    if d.rsplit(".", 1)[-1] == "dataclass":
      eq = next((k.value for k in (call.keywords if call else []) if k.arg == "eq"), None)
      if isinstance(eq, ast.Constant) and eq.value is False:
        continue
      return f"@{src(dec)} generates a field-wise __eq__"
    raise AnalysisError(f"abstract_utils.{c.name}: decorator `{src(dec)}` not understood")
  for st in c.body:
    names = []
    if isinstance(st, (ast.FunctionDef, ast.AsyncFunctionDef)):
      names = [st.name]
    elif isinstance(st, ast.Assign):
      names = [t.id for t in st.targets if isinstance(t, ast.Name)]
    elif isinstance(st, ast.AnnAssign) and isinstance(st.target, ast.Name) and st.value is not None:
      names = [st.target.id]
    for n in names:
      if n in ("__eq__", "__hash__"):
        return f"the class defines {n}"
  return None


@rule("R6.51", "C06", floor=3)
def r6_51(ctx):
  """Every key of the conversion memo holds the request object itself, and instance-request wrappers compare by identity."""
  mod = get_module(ctx, CONVERT)
  fn = mod.func("Converter.constant_to_value")
  disp = mod.func("Converter._constant_to_value")
  params = [a.arg for a in fn.args.args if a.arg != "self"]
  if not params:
    raise AnalysisError("constant_to_value: no request parameter")
  pname = params[0]
  if _stored(fn, pname):
    raise AnalysisError(f"constant_to_value rebinds its request parameter `{pname}`")
  amod, fam = _wrapper_family(ctx)
  # anchor: the dispatch makes an instance for the wrapper (otherwise the obligation is about something else)
  dparams = [a.arg for a in disp.args.args if a.arg != "self"]
  if not dparams or not any(
      (_isinstance_classes(n.test, dparams[0]) or set()) & set(fam) for n in ast.walk(disp) if isinstance(n, ast.If)):
    raise AnalysisError("_constant_to_value: no isinstance arm for abstract_utils.AsInstance found")

  # cache accesses: self.<..cache..>[k], `k in self.<..cache..>`, through a once-bound local alias too
  aliases = {}
  for n in ast.walk(fn):
    if isinstance(n, ast.Assign) and len(n.targets) == 1 and isinstance(n.targets[0], ast.Name):
      d = dotted(n.value) or ""
      if d.startswith("self.") and "cache" in d.rsplit(".", 1)[-1]:
        aliases[n.targets[0].id] = d

  def is_cache(e):
    d = dotted(e) or ""
    d = aliases.get(d, d)
    return d.startswith("self.") and d.count(".") == 1 and "cache" in d

  sites = []
  for n in ast.walk(fn):
    if isinstance(n, ast.Subscript) and is_cache(n.value):
      sites.append((n, n.slice))
    elif isinstance(n, ast.Compare) and len(n.ops) == 1 and isinstance(n.ops[0], (ast.In, ast.NotIn)) \
        and is_cache(n.comparators[0]):
      sites.append((n, n.left))
    elif isinstance(n, ast.Call) and isinstance(n.func, ast.Attribute) and is_cache(n.func.value) \
        and n.func.attr in ("get", "pop", "setdefault") and n.args:
      sites.append((n, n.args[0]))
  if not sites:
    raise AnalysisError("constant_to_value: no access of the conversion cache found")
  verdicts = []   # (holds, key text, statement that decides the guard path)
  seen = set()
  for node, kexpr in sites:
    if mod.enclosing_function(node) is not fn:
      raise AnalysisError("constant_to_value: the cache is accessed from a nested function")
    st = mod.enclosing_stmt(node)
    if isinstance(kexpr, ast.Name) and kexpr.id != pname:
      ds = defs_at(reaching(fn), st, kexpr.id)
      if not ds:
        raise AnalysisError(f"constant_to_value: cache key `{kexpr.id}` has no local definition")
      for d in ds:
        if d in seen:
          continue
        seen.add(d)
        if not (isinstance(d, ast.Assign) and len(d.targets) == 1 and isinstance(d.targets[0], ast.Name)):
          raise AnalysisError(f"constant_to_value: cache key `{kexpr.id}` is bound by a {type(d).__name__}")
        verdicts.append((_holds(mod, fn, d.value, pname, d), src(d.value), d))
    else:
      verdicts.append((_holds(mod, fn, kexpr, pname, st), src(kexpr), st))
  bad = []
  for holds, text, st in verdicts:
    if holds:
      continue
    # a key that only derives from the request: which requests can take this path?
    pos = [k for t, p in flow.guards(mod.parent, st, stop=fn) if p
           for k in [_isinstance_classes(t, pname)] if k is not None]
    if any(not (k & set(fam)) for k in pos):
      raise AnalysisError(f"constant_to_value: the key {text} (requests of kinds {sorted(set().union(*pos))} only) "
                          "does not hold the request; the rule does not decide whether those kinds may share")
    bad.append(text)
  facts = {"request": pname, "keys": sorted({v[1] for v in verdicts}), "accesses": len(sites)}
  ctx.check(not bad, "Converter.constant_to_value:memo-key-holds-request", CONVERT, fn.lineno,
            f"the conversion memo is accessed under the key {bad[0] if bad else ''}, which is computed from the "
            f"request `{pname}` but does not contain it, on a path an abstract_utils.AsInstance request takes: two "
            "requests for an instance of equal types then share one abstract instance, so mutating the value of "
            "one imported name (`up.X.append('s')`) changes the type module B reads for another name of the same "
            "declared type (`up.Y`), which is not what A's analysis inferred for it", dict(facts, not_holding=bad))
  for name in sorted(fam):
    c = fam[name]
    why = _equality_verdict(c, fam)
    ctx.check(why is None, f"abstract_utils.{name}:identity-equality", ABSTRACT_UTILS, c.lineno,
              f"{why}: two wrappers made for different conversion requests of equal types then hit the same entry "
              "of the conversion memo (the key holds the wrapper) and share one mutable abstract instance, so "
              "mutating the value of one imported name changes the type module B reads for another",
              {"family": sorted(fam)})


# ------------------------------------------------------------------------------------------------- variants

_MERGE_METHODS = ("  method_names = [m.name for m in cls.methods]\n"
                  "  methods = cls.methods + tuple(\n"
                  "      m for m in base.methods if m.name not in method_names\n"
                  "  )\n")
_MERGE_CONSTANTS = ("  constant_names = [c.name for c in cls.constants]\n"
                    "  constants = cls.constants + tuple(\n"
                    "      c for c in base.constants if c.name not in constant_names\n"
                    "  )\n")
_MERGE_CLASSES = ("  class_names = [c.name for c in cls.classes]\n"
                  "  classes = cls.classes + tuple(\n"
                  "      c for c in base.classes if c.name not in class_names\n"
                  "  )\n")
_KEY = '    key = ("constant", pyval, _type_key(pyval))\n'
_AS_INSTANCE = ("  def __init__(self, cls: pytd.TypeU) -> None:\n"
                "    self.cls = cls\n"
                "\n\nclass AsReturnValue(AsInstance):\n")

VARIANTS = [
    {"name": "seeded-C06-r5m1", "rule": "R6.50", "patch": "seeded/C06-r5m1/patch.diff", "expect": "fire"},
    {"name": "merge-keeps-both-methods-of-a-name", "rule": "R6.50", "file": PYTD_UTILS, "old": _MERGE_METHODS,
     "new": "  methods = cls.methods + base.methods\n", "expect": "fire"},
    {"name": "merge-tests-nested-class-names-against-the-methods", "rule": "R6.50", "file": PYTD_UTILS,
     "old": "      c for c in base.classes if c.name not in class_names\n",
     "new": "      c for c in base.classes if c.name not in method_names\n", "expect": "fire"},
    {"name": "merge-drops-inherited-constants-once-the-class-has-any", "rule": "R6.50", "file": PYTD_UTILS,
     "old": _MERGE_CONSTANTS,
     "new": "  constants = cls.constants or base.constants\n", "expect": "fire"},
    {"name": "merge-by-dict-update-in-the-wrong-direction", "rule": "R6.50", "file": PYTD_UTILS,
     "old": _MERGE_METHODS,
     "new": "  by_name = {m.name: m for m in cls.methods}\n"
            "  by_name.update({m.name: m for m in base.methods})\n"
            "  methods = tuple(by_name.values())\n", "expect": "fire"},
    {"name": "twin-merge-through-one-local-helper", "rule": "R6.50", "file": PYTD_UTILS,
     "old": _MERGE_METHODS + _MERGE_CONSTANTS + _MERGE_CLASSES,
     "new": "  def merge_members(own, inherited):\n"
            "    own_names = {m.name for m in own}\n"
            "    return own + tuple(m for m in inherited if m.name not in own_names)\n\n"
            "  methods = merge_members(cls.methods, base.methods)\n"
            "  constants = merge_members(cls.constants, base.constants)\n"
            "  classes = merge_members(cls.classes, base.classes)\n", "expect": "silent"},
    {"name": "twin-merge-by-dict-base-first-then-own", "rule": "R6.50", "file": PYTD_UTILS,
     "old": _MERGE_CONSTANTS,
     "new": "  merged_constants = {c.name: c for c in base.constants}\n"
            "  merged_constants.update({c.name: c for c in cls.constants})\n"
            "  constants = tuple(merged_constants.values())\n", "expect": "silent"},
    {"name": "twin-merge-with-a-loop-and-replace", "rule": "R6.50", "edits": [
        (PYTD_UTILS, _MERGE_CLASSES,
         "  classes = list(cls.classes)\n"
         "  for inherited in base.classes:\n"
         "    if all(inherited.name != own.name for own in cls.classes):\n"
         "      classes.append(inherited)\n"
         "  classes = tuple(classes)\n")], "expect": "silent"},

    {"name": "seeded-C06-r5m2", "rule": "R6.51", "patch": "seeded/C06-r5m2/patch.diff", "expect": "fire"},
    {"name": "memo-keyed-by-the-type-key-alone", "rule": "R6.51", "file": CONVERT, "old": _KEY,
     "new": '    key = ("constant", _type_key(pyval), getattr(pyval, "cls", pyval).__class__)\n', "expect": "fire"},
    {"name": "wrapper-gets-structural-equality", "rule": "R6.51", "file": ABSTRACT_UTILS, "old": _AS_INSTANCE,
     "new": "  def __init__(self, cls: pytd.TypeU) -> None:\n"
            "    self.cls = cls\n\n"
            "  def __eq__(self, other):\n"
            "    return type(other) is type(self) and other.cls == self.cls\n\n"
            "  def __hash__(self):\n"
            "    return hash((type(self), self.cls))\n"
            "\n\nclass AsReturnValue(AsInstance):\n", "expect": "fire"},
    {"name": "wrapper-becomes-a-frozen-dataclass", "rule": "R6.51", "file": ABSTRACT_UTILS,
     "old": "class AsInstance:\n"
            "  \"\"\"Wrapper, used for marking things that we want to convert to an instance.\"\"\"\n\n"
            "  def __init__(self, cls: pytd.TypeU) -> None:\n    self.cls = cls\n",
     "new": "@dataclasses.dataclass(frozen=True)\nclass AsInstance:\n"
            "  \"\"\"Wrapper, used for marking things that we want to convert to an instance.\"\"\"\n\n"
            "  cls: pytd.TypeU\n", "expect": "fire"},
    {"name": "key-helper-unwraps-the-request", "rule": "R6.51", "edits": [
        (CONVERT, _KEY, "    key = self._memo_key(pyval)\n"),
        (CONVERT, "  def _load_late_type(self, late_type):\n",
         "  def _memo_key(self, request):\n"
         "    if isinstance(request, abstract_utils.AsInstance):\n"
         "      request = request.cls\n"
         "      return (\"instance\", request, _type_key(request))\n"
         "    return (\"constant\", request, _type_key(request))\n\n"
         "  def _load_late_type(self, late_type):\n")], "expect": "error"},
    {"name": "key-helper-projects-the-wrapper", "rule": "R6.51", "edits": [
        (CONVERT, _KEY, "    key = self._memo_key(pyval)\n"),
        (CONVERT, "  def _load_late_type(self, late_type):\n",
         "  def _memo_key(self, request):\n"
         "    if isinstance(request, abstract_utils.AsInstance):\n"
         "      return (\"instance\", request.cls, _type_key(request.cls))\n"
         "    return (\"constant\", request, _type_key(request))\n\n"
         "  def _load_late_type(self, late_type):\n")], "expect": "fire"},
    {"name": "twin-key-built-by-a-method", "rule": "R6.51", "edits": [
        (CONVERT, _KEY, "    key = self._memo_key(pyval)\n"),
        (CONVERT, "  def _load_late_type(self, late_type):\n",
         "  def _memo_key(self, request):\n"
         "    return (\"constant\", request, _type_key(request))\n\n"
         "  def _load_late_type(self, late_type):\n")], "expect": "silent"},
    {"name": "twin-key-renamed-and-reordered", "rule": "R6.51", "edits": [
        (CONVERT, _KEY, "    type_part = _type_key(pyval)\n    key = (\"constant\", (type_part, pyval))\n")],
     "expect": "silent"},
    {"name": "twin-key-per-kind-both-holding", "rule": "R6.51", "edits": [
        (CONVERT, _KEY,
         "    if isinstance(pyval, abstract_utils.AsInstance):\n"
         "      key = (\"instance\", pyval, type(pyval))\n"
         "    else:\n"
         "      key = (\"constant\", pyval, _type_key(pyval))\n")], "expect": "silent"},
    {"name": "twin-wrapper-with-repr-and-slots", "rule": "R6.51", "file": ABSTRACT_UTILS, "old": _AS_INSTANCE,
     "new": "  def __init__(self, cls: pytd.TypeU) -> None:\n"
            "    self.cls = cls\n\n"
            "  def __repr__(self):\n"
            "    return f\"{type(self).__name__}({self.cls!r})\"\n"
            "\n\nclass AsReturnValue(AsInstance):\n", "expect": "silent"},
]
