"""C18 - R18.10: the operands of a condition are told apart by equality only.

`And`/`Or` may drop an operand only when an *equal* operand is kept (x and x =
x): the accumulator is a set of the operands themselves.  A collection that
files operands under something computed from them (their printed form, their
hash, their class, a field) keeps one operand per key, so two different
operands with the same key silently become one and `Or(p, q)` is `p`.  The
rule reads the public constructors of rewrite/flow/conditions.py (the
functions bound at module level as `Name = Class.method`, helpers inlined) and
decides, for every mapping that is filled with operands and every membership
test on an operand, what the key is: the operand itself / a condition built
from it by a constructor of the module (equality of those is equality of the
operands), or a projection of it (violation).
"""
import ast

from sa.core import rule, AnalysisError
from sa.pyindex import get_module, dotted, src, walk_no_nested
from rules import _schema as S
from rules import _util_c12c17c18 as U

CD = "pytype/rewrite/flow/conditions.py"
_PROJECTIONS = {"repr", "str", "hash", "type", "len", "ascii", "format", "bool",
                "id"}
_ADDERS = {"add", "append", "update", "extend", "insert", "setdefault"}


def _constructors(mod):
  """{public name: 'Class.method'} for module-level `Name = Class.method`."""
  out = {}
  for name, v in mod.assigns.items():
    if isinstance(v, ast.Attribute) and isinstance(v.value, ast.Name) and \
        v.value.id in mod.classes:
      out[name] = f"{v.value.id}.{v.attr}"
  return out


def _names(e):
  return {n.id for n in ast.walk(e) if isinstance(n, ast.Name)}


def _target_names(t):
  return {n.id for n in ast.walk(t) if isinstance(n, ast.Name)}


def _operand_names(fn):
  """Locals that hold an operand or a collection of operands: everything that
  is computed from the parameters (except the class)."""
  a = fn.args
  ps = [x.arg for x in a.posonlyargs + a.args + a.kwonlyargs]
  first = ps[0] if ps else None
  tainted = set(ps[1:])
  for x in (a.vararg, a.kwarg):
    if x is not None:
      tainted.add(x.arg)
  changed = True
  while changed:
    changed = False

    def add(names):
      nonlocal changed
      new = set(names) - tainted - {first}
      if new:
        tainted.update(new)
        changed = True
    for n in ast.walk(fn):
      if isinstance(n, ast.Assign) and _names(n.value) & tainted:
        for t in n.targets:
          if isinstance(t, ast.Subscript):
            r = t
            while isinstance(r, (ast.Subscript, ast.Attribute)):
              r = r.value
            if isinstance(r, ast.Name):
              add({r.id})
          else:
            add(_target_names(t))
      elif isinstance(n, (ast.AnnAssign, ast.AugAssign)) and n.value is not None \
          and _names(n.value) & tainted:
        add(_target_names(n.target))
      elif isinstance(n, ast.NamedExpr) and _names(n.value) & tainted:
        add({n.target.id})
      elif isinstance(n, (ast.For, ast.AsyncFor)) and _names(n.iter) & tainted:
        add(_target_names(n.target))
      elif isinstance(n, ast.comprehension) and _names(n.iter) & tainted:
        add(_target_names(n.target))
      elif isinstance(n, ast.Call) and isinstance(n.func, ast.Attribute) and \
          n.func.attr in _ADDERS and isinstance(n.func.value, ast.Name) and \
          any(_names(x) & tainted for x in n.args):
        add({n.func.value.id})
  return first, tainted


class _Keys:
  def __init__(self, mod, fn, first, tainted, ctors):
    self.mod, self.fn, self.first, self.tainted = mod, fn, first, tainted
    self.ctors = ctors
    self.sym = S.Sym(mod, fn)

  def kind(self, e, depth=0):
    """'identity' | 'constructor' | 'unrelated' | 'projection:<how>'."""
    if depth > 6:
      raise AnalysisError(f"{self.fn.name}: key `{src(e)[:50]}` too deeply nested")
    if isinstance(e, ast.Name):
      if e.id in self.sym.single and e.id in self.tainted:
        return self.kind(self.sym.single[e.id], depth + 1)
      return "identity" if e.id in self.tainted else "unrelated"
    if not (_names(e) & self.tainted):
      return "unrelated"
    if isinstance(e, ast.Call):
      d = dotted(e.func) or ""
      args = list(e.args) + [k.value for k in e.keywords]
      is_ctor = d in self.ctors or d in self.ctors.values() or \
          d in self.mod.classes or (self.first and d == self.first) or \
          (self.first and d.startswith(self.first + ".") and
           f"?.{d.split('.', 1)[1]}" in {"?." + v.split(".", 1)[1] for v in self.ctors.values()})
      if is_ctor and not any(isinstance(x, ast.Starred) for x in args):
        kinds = [self.kind(x, depth + 1) for x in args]
        bad = [k for k in kinds if k.startswith("projection")]
        if bad:
          return bad[0]
        return "constructor"
      if d in _PROJECTIONS:
        return f"projection:{d}()"
      if isinstance(e.func, ast.Attribute) and \
          (_names(e.func.value) & self.tainted) and not e.args:
        return f"projection:.{e.func.attr}()"
      raise AnalysisError(
          f"{self.fn.name}: whether `{src(e)[:60]}` identifies an operand is not understood")
    if isinstance(e, ast.JoinedStr):
      return "projection:f-string"
    if isinstance(e, ast.Attribute):
      return f"projection:.{e.attr}"
    if isinstance(e, ast.Tuple):
      kinds = [self.kind(x, depth + 1) for x in e.elts]
      if all(k in ("identity", "constructor", "unrelated") for k in kinds) and \
          any(k != "unrelated" for k in kinds):
        return "identity" if "identity" in kinds else "constructor"
      return [k for k in kinds if k.startswith("projection")][0]
    if isinstance(e, (ast.BinOp, ast.Subscript, ast.Compare, ast.BoolOp, ast.UnaryOp)):
      return f"projection:{type(e).__name__}"
    raise AnalysisError(
        f"{self.fn.name}: whether `{src(e)[:60]}` identifies an operand is not understood")


@rule("R18.10", "C18", floor=2)
def r18_10(ctx):
  """Operands are filed and looked up by themselves, never by a projection."""
  base = get_module(ctx, CD)
  ctors = _constructors(base)
  if not ctors:
    raise AnalysisError("conditions.py binds no public constructor (Name = Class.method)")
  quals = sorted(set(ctors.values()))
  mod = U.virtual(ctx, CD, inline=tuple(quals), flatten=True)
  classes = U._top_classes(mod.tree)  # pylint: disable=protected-access
  done = set()
  for q in quals:
    cname, mname = q.split(".")
    hit = U.resolve_method(mod, cname, mname)
    if hit is None:
      raise AnalysisError(f"conditions.py: {q} is not defined in the file")
    owner, fn = hit
    if getattr(fn, "_inherited_from", None):
      owner = fn._inherited_from  # pylint: disable=protected-access
    if (owner, mname) in done:
      continue
    done.add((owner, mname))
    if owner not in classes:
      raise AnalysisError(f"{q}: defining class {owner} not in the file")
    first, tainted = _operand_names(fn)
    keys = _Keys(mod, fn, first, tainted, ctors)
    found = []     # (line, what, key source, kind)

    def pair(line, what, k, v):
      if not (_names(v) & tainted):
        return       # the mapping does not hold operands
      found.append((line, what, src(k), keys.kind(k)))

    for n in ast.walk(fn):
      if isinstance(n, ast.DictComp):
        pair(n.lineno, "dict comprehension", n.key, n.value)
      elif isinstance(n, ast.Dict):
        for k, v in zip(n.keys, n.values):
          if k is None:
            if _names(v) & tainted:
              raise AnalysisError(f"{fn.name}: `**` in a mapping of operands")
            continue
          pair(n.lineno, "dict display", k, v)
      elif isinstance(n, ast.Assign):
        for t in n.targets:
          if isinstance(t, ast.Subscript) and isinstance(t.value, ast.Name) and \
              not isinstance(t.slice, ast.Slice):
            pair(n.lineno, f"store into {t.value.id}[..]", t.slice, n.value)
      elif isinstance(n, ast.Call):
        d = dotted(n.func) or ""
        if isinstance(n.func, ast.Attribute) and n.func.attr == "setdefault" and \
            len(n.args) == 2:
          pair(n.lineno, "setdefault", n.args[0], n.args[1])
        elif d in ("dict", "collections.OrderedDict", "OrderedDict",
                   "itertools.groupby", "groupby", "zip") and \
            any(_names(x) & tainted for x in list(n.args) + [k.value for k in n.keywords]) \
            and not (d == "dict" and len(n.args) == 1 and not n.keywords and
                     isinstance(n.args[0], (ast.Dict, ast.DictComp))):
          raise AnalysisError(
              f"{fn.name}: `{src(n)[:60]}` files operands under keys the rule cannot read")
        elif isinstance(n.func, ast.Attribute) and n.func.attr in ("add", "append") \
            and len(n.args) == 1 and (_names(n.args[0]) & tainted):
          found.append((n.lineno, f"{src(n.func)}(..)", src(n.args[0]),
                        keys.kind(n.args[0])))
      elif isinstance(n, ast.Compare) and len(n.ops) == 1 and \
          isinstance(n.ops[0], (ast.In, ast.NotIn)) and \
          (_names(n.comparators[0]) & tainted) and (_names(n.left) & tainted):
        found.append((n.lineno, f"membership in {src(n.comparators[0])[:30]}",
                      src(n.left), keys.kind(n.left)))
      elif isinstance(n, (ast.SetComp,)) or (
          isinstance(n, ast.Call) and dotted(n.func) in ("set", "frozenset")
          and n.args and isinstance(n.args[0], (ast.GeneratorExp, ast.ListComp))):
        comp = n if isinstance(n, ast.SetComp) else n.args[0]
        if _names(comp.elt) & (tainted | _target_names(comp.generators[0].target)):
          if any(_names(g.iter) & tainted for g in comp.generators):
            found.append((n.lineno, "set of", src(comp.elt), keys.kind(comp.elt)))
    proj = [f for f in found if f[3].startswith("projection")]
    cons = f"{owner}.{mname}:operands-by-equality"
    facts = {"keys": sorted({f"{w}: {k} ({kind})" for _, w, k, kind in found})}
    if proj:
      line, what, k, kind = proj[0]
      ctx.bad(cons, CD, line,
              f"{owner}.{mname} tells operands apart by `{k}` ({what}; "
              f"{kind[11:]}): two different operands with the same key become "
              "one, so the result is no longer equivalent to the connective "
              "over all operands - operands may be de-duplicated by equality "
              "only (a set of the operands themselves)", facts)
    else:
      ctx.ok(cons, CD, fn.lineno, facts)


_TAIL = ("    if len(conditions) == 1:\n"
         "      return conditions.pop()\n"
         "    return cls(frozenset(conditions))\n")

VARIANTS = [
    {"name": "seeded-C18-r4m1", "rule": "R18.10",
     "patch": "seeded/C18-r4m1/patch.diff", "expect": "fire"},
    {"name": "operands-keyed-by-str-values", "rule": "R18.10", "file": CD, "expect": "fire",
     "old": _TAIL,
     "new": "    conditions = set({str(c): c for c in conditions}.values())\n" + _TAIL},
    {"name": "operands-keyed-by-hash-in-loop", "rule": "R18.10", "file": CD, "expect": "fire",
     "edits": [(CD, "    conditions = set()\n    for arg in args:\n",
                "    conditions = set()\n    by_hash = {}\n    for arg in args:\n"),
               (CD, "      conditions.add(arg)\n",
                "      by_hash[hash(arg)] = arg\n      conditions.add(arg)\n"),
               (CD, _TAIL, "    conditions = set(by_hash.values())\n" + _TAIL)]},
    {"name": "seen-set-of-printed-forms", "rule": "R18.10", "file": CD, "expect": "fire",
     "edits": [(CD, "    conditions = set()\n    for arg in args:\n",
                "    conditions = set()\n    seen = set()\n    for arg in args:\n"),
               (CD, "      negation = Not(arg)\n",
                "      if repr(arg) in seen:\n        continue\n"
                "      seen.add(repr(arg))\n      negation = Not(arg)\n")]},
    {"name": "one-operand-per-class", "rule": "R18.10", "file": CD, "expect": "fire",
     "old": _TAIL,
     "new": "    conditions = set({type(c): c for c in conditions}.values())\n" + _TAIL},
    {"name": "twin-benign-C18-r1", "rule": "R18.10",
     "patch": "benign/C18-r1/patch.diff", "expect": "silent"},
    {"name": "twin-negation-tested-inline", "rule": "R18.10", "file": CD, "expect": "silent",
     "old": "      negation = Not(arg)\n      if negation in conditions:\n",
     "new": "      if Not(arg) in conditions:\n"},
    {"name": "twin-renamed-accumulator", "rule": "R18.10", "file": CD, "expect": "silent",
     "old": "      conditions.add(arg)\n    if not conditions:\n      return cls._IGNORE\n" + _TAIL,
     "new": "      conditions.add(arg)\n    members = conditions\n"
            "    if not members:\n      return cls._IGNORE\n"
            "    if len(members) == 1:\n      return members.pop()\n"
            "    return cls(frozenset(members))\n"},
]
