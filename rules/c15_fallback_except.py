"""C15 extension (R15.29): the `except` clause that implements a lookup
fallback must cover the exception the looked-up callee really raises.

Was parked as pending_c15_fallback_except.py while it fired; the defect (D69)
is repaired in /repo b5d9a41 (`_store_local_or_cellvar` catches KeyError), so
the rule is active.

Confirmed defect (real VM, tree before b5d9a41, python_version 3.12):

    G = 1
    def f():
      match G:
        case int(): pass

  -> KeyError: 'G' escapes io.generate_pyi
     (vm.py byte_MATCH_CLASS -> _store_local_or_cellvar ->
      blocks.py OrderedCode.get_cell_index).
  Trigger: the match subject is loaded by name (LOAD_GLOBAL in a function,
  LOAD_NAME in a class body; module global or builtin such as __name__), the
  name is neither in frame.f_locals nor in co_localsplus, and a class pattern
  matches, so the VM stores the narrowed subject back under its name.
  `_store_local_or_cellvar` means "store as a local unless the name is a cell":
  it asks `get_cell_index(name)` and falls back to store_local on `except
  ValueError` - but get_cell_index is `return self._combined_vars[name]` on a
  dict, whose miss is KeyError (it was a tuple.index() once).

Obligation checked.  For every `try` in the opcode-handler modules whose
handlers catch only lookup-miss exceptions (KeyError / IndexError / ValueError
/ LookupError) - i.e. the handler *is* the fallback for "name not found" - and
for every call in its body that resolves to a definition in the callee
modules: the set of lookup-miss exceptions the callee can let escape
(`raise T(..)`, re-raise of a handler alias, `self.<attr>[k]` where the class
binds <attr> to a dict (KeyError) or a tuple/list (IndexError), `<x>.index(k)`
(ValueError); followed through self-method and module-local calls, minus
whatever an enclosing try inside the callee already catches) must be covered by
the handlers of the call site (LookupError covers KeyError and IndexError).
An instance is produced for every (try, callee) pair whose callee has a
non-empty miss set.
"""
import ast

from sa.core import rule, AnalysisError
from sa.pyindex import get_module, walk_no_nested

CALLERS = ("pytype/vm.py", "pytype/vm_utils.py")
CALLEES = CALLERS + ("pytype/state.py", "pytype/blocks/blocks.py")
MISS = {"KeyError", "IndexError", "ValueError", "LookupError"}
COVERS = {"KeyError": {"KeyError"}, "IndexError": {"IndexError"}, "ValueError": {"ValueError"},
          "LookupError": {"KeyError", "IndexError", "LookupError"}}
_DICT = (ast.Dict, ast.DictComp)
_SEQ = (ast.Tuple, ast.List, ast.ListComp)


def _last(e):
  e = e.func if isinstance(e, ast.Call) else e
  return e.attr if isinstance(e, ast.Attribute) else (e.id if isinstance(e, ast.Name) else None)


def _handler_types(t):
  out = set()
  for h in t.handlers:
    ts = [None] if h.type is None else (h.type.elts if isinstance(h.type, ast.Tuple) else [h.type])
    out |= {"BaseException" if x is None else _last(x) for x in ts}
  return out


def _enclosing_trys(mod, node, stop):
  """Try statements whose *body* contains node (handlers do not protect themselves)."""
  cur, out = node, []
  while cur is not stop and cur in mod.parent:
    par = mod.parent[cur]
    if isinstance(par, ast.Try) and cur in par.body:
      out.append(par)
    cur = par
  return out


def _caught(mod, node, stop, exc):
  for t in _enclosing_trys(mod, node, stop):
    ht = _handler_types(t)
    if ht & {"Exception", "BaseException"} or any(exc in COVERS.get(h, ()) for h in ht):
      return True
  return False


def _attr_kind(mod, cname, attr):
  kinds = set()
  for fn in mod.methods(cname).values():
    for n in ast.walk(fn):
      if isinstance(n, ast.Assign) and any(
          isinstance(t, ast.Attribute) and isinstance(t.value, ast.Name) and t.value.id == "self"
          and t.attr == attr for t in n.targets):
        v = n.value
        name = _last(v) if isinstance(v, ast.Call) else None
        kinds.add("KeyError" if isinstance(v, _DICT) or name in ("dict", "defaultdict")
                  else "IndexError" if isinstance(v, _SEQ) or name in ("tuple", "list") else "?")
  return kinds.pop() if len(kinds) == 1 and "?" not in kinds else None


def _index(ctx):
  def build():
    idx = {}
    for rel in CALLEES:
      mod = get_module(ctx, rel)
      for name, fn in mod.functions.items():
        idx.setdefault(name, []).append((rel, mod, None, fn))
      for cname in mod.classes:
        for mname, fn in mod.methods(cname).items():
          idx.setdefault(mname, []).append((rel, mod, cname, fn))
    return idx
  return ctx.memo("r15_29_index", build)


def _alias_types(mod, node, name):
  """Types of the handler `except T as name` enclosing a `raise name`."""
  cur = node
  while cur in mod.parent:
    cur = mod.parent[cur]
    if isinstance(cur, ast.ExceptHandler) and cur.name == name and cur.type is not None:
      return {_last(t) for t in (cur.type.elts if isinstance(cur.type, ast.Tuple) else [cur.type])}
  return set()


def _miss_set(ctx, d, depth=0, seen=()):
  """{exception: witness} the definition d may let escape for a failed lookup."""
  rel, mod, cname, fn = d
  out = {}

  def add(exc, node, why):
    if exc in MISS and not _caught(mod, node, fn, exc):
      out.setdefault(exc, f"{rel}:{node.lineno} {why}")

  for n in walk_no_nested(fn):
    if isinstance(n, ast.Raise) and n.exc is not None:
      nm = _last(n.exc)
      for t in ({nm} if nm in MISS else _alias_types(mod, n, nm) if isinstance(n.exc, ast.Name) else ()):
        add(t, n, f"raise {t}")
    elif isinstance(n, ast.Subscript) and isinstance(n.ctx, ast.Load) and cname \
        and isinstance(n.value, ast.Attribute) and isinstance(n.value.value, ast.Name) \
        and n.value.value.id == "self":
      kind = _attr_kind(mod, cname, n.value.attr)
      if kind:
        add(kind, n, f"self.{n.value.attr}[..] on a {'dict' if kind == 'KeyError' else 'sequence'}")
    elif isinstance(n, ast.Call):
      if isinstance(n.func, ast.Attribute) and n.func.attr == "index" and len(n.args) == 1:
        add("ValueError", n, ".index(..)")
      cands = []
      if isinstance(n.func, ast.Attribute) and isinstance(n.func.value, ast.Name) \
          and n.func.value.id == "self" and cname and n.func.attr in mod.methods(cname):
        cands = [(rel, mod, cname, mod.methods(cname)[n.func.attr])]
      elif isinstance(n.func, ast.Name) and n.func.id in mod.functions:
        cands = [(rel, mod, None, mod.functions[n.func.id])]
      for c in cands:
        if depth < 3 and c[3] not in seen:
          for exc, w in _miss_set(ctx, c, depth + 1, seen + (fn,)).items():
            add(exc, n, f"via {c[3].name}: {w}")
  return out


def _resolve(ctx, mod, rel, fn, call):
  name = _last(call)
  f = call.func
  if isinstance(f, ast.Name):
    return [(rel, mod, None, mod.functions[name])] if name in mod.functions else []
  own = next((c for c in mod.classes if fn in mod.methods(c).values()), None)
  if isinstance(f.value, ast.Name) and f.value.id == "self" and own and name in mod.methods(own):
    return [(rel, mod, own, mod.methods(own)[name])]
  return list(_index(ctx).get(name, []))


@rule("R15.29", "C15", floor=8)
def r15_29(ctx):
  """A lookup-fallback handler covers the miss exception of the callee it guards."""
  for rel in CALLERS:
    mod = get_module(ctx, rel)
    for t in ast.walk(mod.tree):
      ht = _handler_types(t) if isinstance(t, ast.Try) else set()
      fn = mod.enclosing_function(t) if ht else None
      if not ht or not ht <= MISS or fn is None:
        continue
      for call in [c for s in t.body for c in ast.walk(s) if isinstance(c, ast.Call)]:
        trys = _enclosing_trys(mod, call, fn)
        if not trys or trys[0] is not t or _last(call) is None:
          continue
        cands = _resolve(ctx, mod, rel, fn, call)
        sets = [_miss_set(ctx, c) for c in cands]
        if not cands or not any(sets):
          continue
        if any(set(s) != set(sets[0]) for s in sets):
          raise AnalysisError(f"{rel}:{call.lineno}: `{_last(call)}` names several definitions "
                              "with different miss exceptions")
        missing = {e: w for e, w in sets[0].items()
                   if not any(e in COVERS[h] for h in ht)}
        ctx.check(not missing, f"fallback:{fn.name}:{_last(call)}", rel, t.lineno,
                  f"the handler catches {sorted(ht)} as the not-found fallback, but "
                  f"{_last(call)} signals a miss with {sorted(missing)} "
                  f"({'; '.join(missing.values())}): the exception passes the handler and leaves "
                  "the analysis",
                  {"handlers": sorted(ht), "callee_miss": sets[0]})


VM = "pytype/vm.py"
BL = "pytype/blocks/blocks.py"
_SITE = ("      idx = self.frame.f_code.get_cell_index(name)\n"
         "    except KeyError:\n")
_LOOKUP = "    return self._combined_vars[name]\n"

VARIANTS = [
    # D69 (/repo b5d9a41) reverted: the handler written for a tuple.index() implementation
    {"name": "revert-D69-handler-catches-valueerror", "rule": "R15.29", "file": VM, "expect": "fire",
     "old": _SITE, "new": _SITE.replace("KeyError", "ValueError")},
    {"name": "handler-indexerror", "rule": "R15.29", "file": VM, "expect": "fire",
     "old": _SITE, "new": _SITE.replace("KeyError", "IndexError")},
    # the callee changes how it signals a miss, the handler does not follow
    {"name": "callee-uses-index-handler-keeps-keyerror", "rule": "R15.29", "file": BL,
     "expect": "fire", "old": _LOOKUP, "new": "    return self.localsplus.index(name)\n"},
    {"name": "load-local-raises-valueerror", "rule": "R15.29", "file": VM, "expect": "fire",
     "old": "        and not var\n    ):\n      raise KeyError()\n",
     "new": "        and not var\n    ):\n      raise ValueError()\n"},
    # twins
    {"name": "twin-handler-catches-both", "rule": "R15.29", "file": VM, "expect": "silent",
     "old": _SITE, "new": _SITE.replace("KeyError", "(KeyError, ValueError)")},
    {"name": "twin-handler-lookuperror", "rule": "R15.29", "file": VM, "expect": "silent",
     "old": _SITE, "new": _SITE.replace("KeyError", "LookupError")},
    {"name": "twin-callee-and-handler-agree-on-valueerror", "rule": "R15.29", "expect": "silent",
     "edits": [(BL, _LOOKUP,
                "    try:\n      return self._combined_vars[name]\n"
                "    except KeyError:\n      raise ValueError(name) from None\n"),
               (VM, _SITE, _SITE.replace("KeyError", "ValueError"))]},
]
