"""C01 extension (round 5): three-valued answers stay "may" when aggregated.

Both rules decide a relational specification of a small transfer function by
evaluating the function's AST (rules/_minieval: nothing from /repo is imported
or run) exhaustively on a small scope of abstract inputs.  The specification
is the SOUNDNESS direction only (an answer may always be less precise); the
shape of the code is irrelevant, so reformatting, renaming, loop fusion or
fission and extraction of helpers (module-level functions resp. plain methods
of the same class are followed) leave the verdict alone.  Anything the
evaluator or the world model does not cover is an AnalysisError.

R1.50  `abstract_utils.check_against_mro(ctx, target, class_spec)` answers
       `isinstance`/`issubclass` with True / False / None (= ambiguous), and
       special_builtins turns a definite answer into a constant that prunes a
       branch.  The class spec is a tree (a class, an annotation class, a
       tuple of variables, a union, anything else); a leaf is *certain* if it
       is a class reached through single-binding variables only, everything
       else (a variable with several bindings, a value that is not a class)
       is *ignored*.  Obligation, for every spec of the scope:
         - the matcher is only ever asked about certain leaves;
         - True  => some certain leaf matches the target;
         - False => no leaf was ignored and no certain leaf matches.
       `abstract_utils.flatten(value, classes)` (also used directly by
       vm._set_type_from_assert_isinstance) is decided on the same scope:
       `classes` receives certain leaves only, and a falsy result ("nothing
       ignored") implies that nothing was ignored and every certain leaf was
       collected.  An "ignored" flag that is overwritten instead of
       accumulated, reset by a later element, dropped by a nested level, or a
       class taken out of an ambiguous variable, all break it.

R1.51  A boolean the VM derives binding by binding from a variable's truth
       (`not x`: VirtualMachine.byte_UNARY_NOT; the result of `in`/`not in`:
       VirtualMachine._coerce_to_bool) keeps, for EVERY binding b of the
       operand, EVERY value the boolean can have under b: compare.
       compatible_with(b.data, True) and (.., False) are both "may" answers -
       a value of unknown truth satisfies both - so such a binding must reach
       a result that admits True and a result that admits False, each
       available under b alone (source set within {b}; a conjunction of two
       bindings of one variable is never visible).  Decided for every operand
       of 1..3 bindings over {only truthy, only falsy, unknown} (plus the two
       bool constants for _coerce_to_bool, both polarities).
"""
import ast
import itertools

from sa.core import rule, AnalysisError
from sa.pyindex import get_module
from rules import _minieval as _me

AU = "pytype/abstract/abstract_utils.py"
VM = "pytype/vm.py"


def _bind(fn, a, kw):
  params = [p.arg for p in fn.args.posonlyargs + fn.args.args]
  if len(a) > len(params) or set(params[:len(a)]) & set(kw):
    raise _me.Outside(f"call of {fn.name} does not fit its signature")
  out = dict(zip(params, a))
  out.update(kw)
  return out


def _module_globals(mod, resolver, max_steps=20000):
  """Every top-level function of the module, callable from the evaluated code."""
  g = {}
  for name, fn in mod.functions.items():
    if isinstance(fn, ast.FunctionDef) and not fn.decorator_list:
      g[name] = (lambda fn: lambda *a, **kw:
                 _me.Interp(fn, g, max_steps, resolver).call(_bind(fn, a, kw)))(fn)
  return g


def _run(what, thunk):
  try:
    return thunk()
  except _me.Outside as e:
    raise AnalysisError(f"{what}: outside the evaluated fragment ({e})") from e
  except _me.Diverged as e:
    raise AnalysisError(f"{what}: does not terminate on the small scope") from e
  except _me.Raised as e:
    raise AnalysisError(f"{what}: raises {e.name} on the small scope") from e


# -- R1.50 ---------------------------------------------------------------------------

class _Spec:
  """A class-spec tree with its ground truth."""

  def __init__(self, label, value, certain, ignored, family):
    self.label, self.value = label, value
    self.certain = certain      # list of class Objs reached through single bindings
    self.ignored = ignored      # bool: some leaf cannot be resolved
    self.family = family


def _var(values):
  return _me.Obj(("Variable",), {
      "bindings": [_me.Obj(("Binding",), {"data": v}) for v in values]})


def _spec_scope():
  """(matching class A, specs).  Fresh objects per call; identity is the key."""
  cls_a = _me.Obj(("Class",), {"name": "A"})
  cls_b = _me.Obj(("Class",), {"name": "B"})
  cls_c = _me.Obj(("Class",), {"name": "C"})

  def leaf(k):
    # -> (label, value, certain, ignored)
    if k == "A":
      return "A", cls_a, [cls_a], False
    if k == "B":
      return "B", cls_b, [cls_b], False
    if k == "X":
      return "X", _me.Obj(("Instance",), {"name": "x"}), [], True
    if k == "annA":
      return "ann[A]", _me.Obj(("AnnotationClass",), {"base_cls": cls_a}), [cls_a], False
    if k == "annB":
      return "ann[B]", _me.Obj(("AnnotationClass",), {"base_cls": cls_b}), [cls_b], False
    raise KeyError(k)

  def elem(k):
    # a tuple element: -> (label, Variable, certain, ignored)
    if k == "M_ba":
      return "{B|A}", _var([cls_b, cls_a]), [], True
    if k == "M_bc":
      return "{B|C}", _var([cls_b, cls_c]), [], True
    label, v, cert, ign = leaf(k)
    return label, _var([v]), cert, ign

  def tup(elems):
    return ("(" + ", ".join(e[0] for e in elems) + ("," if len(elems) == 1 else "") + ")",
            _me.Obj(("Tuple",), {"pyval": tuple(e[1] for e in elems)}),
            [c for e in elems for c in e[2]], any(e[3] for e in elems))

  def union(opts):
    return ("Union[" + ", ".join(o[0] for o in opts) + "]",
            _me.Obj(("Union",), {"options": tuple(o[1] for o in opts)}),
            [c for o in opts for c in o[2]], any(o[3] for o in opts))

  def wrap(t):
    return t[0], _var([t[1]]), t[2], t[3]

  basic = ["A", "B", "X", "M_ba", "M_bc", "annA", "annB"]
  inner = ["A", "B", "X", "M_bc"]
  specs = []
  for k in ("A", "B", "X", "annA", "annB"):
    specs.append(_Spec(*leaf(k), family="single"))
  # flat tuples of 0..3 elements
  specs.append(_Spec(*tup([]), family="tuple"))
  for n, pool in ((1, basic), (2, basic), (3, ["A", "B", "X", "M_ba", "M_bc"])):
    for ks in itertools.product(pool, repeat=n):
      specs.append(_Spec(*tup([elem(k) for k in ks]), family="tuple"))
  # a nested tuple (1..2 elements) beside 0..1 flat elements, either order
  for n in (1, 2):
    for ks in itertools.product(inner, repeat=n):
      for other in [None] + inner:
        for first in (True, False):
          if other is None and not first:
            continue
          nested = wrap(tup([elem(k) for k in ks]))
          parts = [nested] if other is None else (
              [nested, elem(other)] if first else [elem(other), nested])
          specs.append(_Spec(*tup(parts), family="nested-tuple"))
  # unions, alone and as a tuple element
  for n in (1, 2):
    for ks in itertools.product(["A", "B", "X"], repeat=n):
      specs.append(_Spec(*union([leaf(k) for k in ks]), family="union"))
      for other in ("A", "B", "X"):
        for first in (True, False):
          u = wrap(union([leaf(k) for k in ks]))
          parts = [u, elem(other)] if first else [elem(other), u]
          specs.append(_Spec(*tup(parts), family="union"))
  return cls_a, specs


def _eval_class_specs(ctx):
  mod = get_module(ctx, AU)
  check_fn = mod.func("check_against_mro")
  flat_fn = mod.func("flatten")
  for fn, n in ((check_fn, 3), (flat_fn, 2)):
    if len(fn.args.posonlyargs + fn.args.args) != n or fn.args.vararg or fn.args.kwarg:
      raise AnalysisError(f"abstract_utils.{fn.name}: signature not understood")
  g = _module_globals(mod, None)
  cls_a, specs = _spec_scope()
  target = _me.Obj(("Class",), {"name": "Target"})
  out = []      # (spec, answer, asked, flat_result, collected)
  for sp in specs:
    asked = []

    def match_from_mro(left, other_type, allow_compat_builtins=True, _asked=asked):
      if left is not target:
        raise _me.Outside("match_from_mro asked about something else than the target")
      _asked.append(other_type)
      return other_type if other_type is cls_a else None
    matcher = _me.Obj(("AbstractMatcher",), {}, {"match_from_mro": match_from_mro})
    world = _me.Obj(("Context",), {}, {"matcher": lambda node=None: matcher})
    answer = _run(f"check_against_mro on {sp.label}",
                  lambda: g[check_fn.name](world, target, sp.value))
    if not (answer is None or isinstance(answer, bool)):
      raise AnalysisError(f"check_against_mro on {sp.label} returns {answer!r}: "
                          "neither True, False nor None")
    collected = []
    flat = _run(f"flatten on {sp.label}", lambda: g[flat_fn.name](sp.value, collected))
    if isinstance(flat, (_me.Obj, _me.Sym)):
      raise AnalysisError(f"flatten on {sp.label} returns {flat!r}")
    out.append((sp, answer, asked, flat, collected))
  return check_fn, flat_fn, cls_a, out


def _is_in(x, xs):
  return any(x is y for y in xs)


@rule("R1.50", "C01", floor=8)
def r1_50(ctx):
  """A definite isinstance/issubclass answer needs every part of the class spec resolved: check_against_mro/flatten never answer False (nothing ignored) when a tuple element, nested level or union option was ignored, and only ever match certain classes."""
  check_fn, flat_fn, cls_a, results = _eval_class_specs(ctx)
  families = ["single", "tuple", "nested-tuple", "union"]
  bad_c = {f: [] for f in families}
  bad_f = {f: [] for f in families}
  seen = {f: 0 for f in families}
  for sp, answer, asked, flat, collected in results:
    seen[sp.family] += 1
    matches = _is_in(cls_a, sp.certain)
    for c in asked:
      if not _is_in(c, sp.certain):
        bad_c[sp.family].append(
            f"{sp.label}: the target is matched against {c.attrs.get('name', c)!r}, which "
            "is not a class the spec certainly contains")
        break
    if answer is True and not matches:
      bad_c[sp.family].append(f"{sp.label}: answers True although no certain class matches")
    if answer is False and (sp.ignored or matches):
      why = "part of the spec was ignored (the answer must be None)" if sp.ignored \
          else "a certain class matches"
      bad_c[sp.family].append(f"{sp.label}: answers False although {why}")
    for c in collected:
      if not (isinstance(c, _me.Obj) and _is_in(c, sp.certain)):
        bad_f[sp.family].append(f"{sp.label}: collects {c!r}, not a certain class of the spec")
        break
    if not flat:
      missing = [c.attrs["name"] for c in sp.certain if not _is_in(c, collected)]
      if sp.ignored:
        bad_f[sp.family].append(f"{sp.label}: reports that nothing was ignored")
      elif missing:
        bad_f[sp.family].append(f"{sp.label}: reports nothing ignored but drops {missing}")
  for f in families:
    if not seen[f]:
      raise AnalysisError(f"no {f} spec in the scope")
    ctx.check(not bad_c[f], f"check_against_mro:{f}", AU, check_fn.lineno,
              f"check_against_mro gives a definite answer that the class spec does not "
              f"justify ({len(bad_c[f])} of {seen[f]} specs, e.g. {bad_c[f][:2]}; A is in the "
              "target's MRO, B and C are not, X is not a class, {..|..} is a variable with "
              "two bindings): special_builtins.IsInstance turns the answer into a constant "
              "and the branch `isinstance(v, spec)` is pruned although CPython takes it",
              {"specs": seen[f], "unsound": bad_c[f][:6]})
    ctx.check(not bad_f[f], f"flatten:{f}", AU, flat_fn.lineno,
              f"flatten misreports the class spec ({len(bad_f[f])} of {seen[f]} specs, e.g. "
              f"{bad_f[f][:2]}): a falsy result tells check_against_mro that `classes` is "
              "the whole spec, so 'no class matches' becomes a definite False",
              {"specs": seen[f], "unsound": bad_f[f][:6]})


# -- R1.51 ---------------------------------------------------------------------------

_KINDS = {           # truth values the binding's data may have
    "T": (True,), "F": (False,), "U": (True, False),
    "cT": (True,), "cF": (False,),
}


def _datum(kind):
  if kind == "cT":
    return _me.Obj(("PythonConstant", "Instance"), {"pyval": True, "kind": kind})
  if kind == "cF":
    return _me.Obj(("PythonConstant", "Instance"), {"pyval": False, "kind": kind})
  return _me.Obj(("Instance",), {"kind": kind})


class _BoolWorld:
  """self / state / var for the bool-deriving handlers of the VM."""

  def __init__(self, mod, kinds):
    self.node = _me.Obj(("CFGNode",), {"name": "n"})
    self.bindings = [_me.Obj(("Binding",), {"data": _datum(k)}) for k in kinds]
    self.kinds = list(kinds)
    self.var = _me.Obj(("Variable",), {"bindings": list(self.bindings),
                                       "data": [b.attrs["data"] for b in self.bindings]})
    self.TRUE = _me.Obj(("Instance", "PythonConstant"), {"pyval": True})
    self.FALSE = _me.Obj(("Instance", "PythonConstant"), {"pyval": False})
    self.BOOL = _me.Obj(("Instance",), {"name": "bool"})
    self.created = []
    self.pushed = None
    convert = _me.Obj(("Converter",), {
        "bool_values": {True: self.TRUE, False: self.FALSE, None: self.BOOL},
        "true": self.TRUE, "false": self.FALSE, "primitive_instances": {}},
        {"build_bool": self._build_bool})
    program = _me.Obj(("Program",), {}, {"NewVariable": self._new_variable})
    self.ctx = _me.Obj(("Context",), {"convert": convert, "program": program})
    methods = {n: f for n, f in mod.methods("VirtualMachine").items()
               if isinstance(f, ast.FunctionDef) and not f.decorator_list}
    self.vm = _me.Obj(("VirtualMachine",), {"ctx": self.ctx}, cls_methods=methods)
    self.state = self._state([self.var])

  def _state(self, stack):
    st = _me.Obj(("FrameState",), {"node": self.node, "stack": tuple(stack)})

    def pop():
      if not stack:
        raise _me.Raised("IndexError")
      return self._state(stack[:-1]), stack[-1]

    def push(*vs):
      return self._state(list(stack) + list(vs))
    st.methods.update({"pop": pop, "push": push})
    return st

  def _admit(self, data):
    if data is self.TRUE:
      return (True,)
    if data is self.FALSE:
      return (False,)
    if data is self.BOOL:
      return (True, False)
    raise _me.Outside(f"a result binding holds {data!r}, not one of the bool values")

  def _new_variable(self, *a, **kw):
    if a or kw:
      raise _me.Outside("NewVariable with arguments")
    entries = []      # (admitted values, frozenset of source bindings)
    v = _me.Obj(("Variable",), {"entries": entries})

    def add_binding(data, source_set=None, where=None):
      if (source_set is None) != (where is None):
        raise _me.Outside("AddBinding with only one of source_set / where")
      srcs = list(source_set or ())
      if not all(_is_in(s, self.bindings) for s in srcs):
        raise _me.Outside("a source that is not a binding of the operand")
      entries.append((self._admit(data), frozenset(id(s) for s in srcs)))
      return _me.Obj(("Binding",), {"data": data})

    def paste_with_new_data(binding, data):
      if not _is_in(binding, self.bindings):
        raise _me.Outside("PasteBindingWithNewData of a foreign binding")
      entries.append((self._admit(data), frozenset([id(binding)])))
      return _me.Obj(("Binding",), {"data": data})

    def paste_binding(binding, where=None, additional_sources=None):
      if not _is_in(binding, self.bindings) or additional_sources:
        raise _me.Outside("PasteBinding not understood")
      # the binding's own data: admits what the data itself is
      d = binding.attrs["data"]
      if "pyval" not in d.attrs:
        raise _me.Outside("PasteBinding of a non-bool value into a bool result")
      entries.append(((d.attrs["pyval"],), frozenset([id(binding)])))
      return binding
    v.methods.update({"AddBinding": add_binding,
                      "PasteBindingWithNewData": paste_with_new_data,
                      "PasteBinding": paste_binding})
    self.created.append(v)
    return v

  def _build_bool(self, node, value=None):
    v = self._new_variable()
    admitted = (True, False) if value is None else (bool(value),)
    v.attrs["entries"].append((admitted, frozenset()))
    return v

  def resolver(self, name, args, kw):
    if name.rsplit(".", 1)[-1] == "compatible_with" and len(args) == 2 and not kw:
      data, logical = args
      if not (isinstance(data, _me.Obj) and "kind" in data.attrs and isinstance(logical, bool)):
        raise _me.Outside("compatible_with of something else than an operand value")
      return logical in _KINDS[data.attrs["kind"]]
    raise _me.Outside(f"call of {name} is not modelled")

  def missing(self, result, expected):
    """[(binding index, value)] the result does not admit under that binding alone.
    expected(kind) -> values the derived boolean can have under a binding of kind."""
    if not (isinstance(result, _me.Obj) and "entries" in result.attrs):
      raise _me.Outside(f"the result {result!r} is not a variable the handler built")
    out = []
    for i, (b, k) in enumerate(zip(self.bindings, self.kinds)):
      for val in expected(k):
        if not any(val in adm and srcs <= {id(b)} for adm, srcs in result.attrs["entries"]):
          out.append((i, val))
    return out


def _composition(kinds):
  ks = {"U" if k == "U" else "D" for k in kinds}
  return "mixed" if len(ks) == 2 else ("all-ambiguous" if ks == {"U"} else "all-definite")


@rule("R1.51", "C01", floor=6)
def r1_51(ctx):
  """A boolean derived binding by binding from an operand's truth (byte_UNARY_NOT, _coerce_to_bool) admits, under every single binding, every value that binding allows: a binding of unknown truth reaches both a True and a False result."""
  mod = get_module(ctx, VM)
  not_fn = mod.func("VirtualMachine.byte_UNARY_NOT")
  coerce_fn = mod.func("VirtualMachine._coerce_to_bool")
  groups = ("all-definite", "all-ambiguous", "mixed")

  # (a) `not x`
  bad = {g: [] for g in groups}
  seen = {g: 0 for g in groups}
  params = [p.arg for p in not_fn.args.args]
  if len(params) != 3:
    raise AnalysisError("byte_UNARY_NOT: signature not understood")
  for n in (1, 2, 3):
    for kinds in itertools.product("TFU", repeat=n):
      w = _BoolWorld(mod, kinds)
      label = "not {" + "|".join(kinds) + "}"
      op = _me.Obj(("Opcode",), {"name": "UNARY_NOT", "line": 1})
      it = _me.Interp(not_fn, {}, 20000, w.resolver)
      st = _run(f"byte_UNARY_NOT on {label}",
                lambda: it.call({params[0]: w.vm, params[1]: w.state, params[2]: op}))
      if not (isinstance(st, _me.Obj) and "stack" in st.attrs and len(st.attrs["stack"]) == 1):
        raise AnalysisError(f"byte_UNARY_NOT on {label}: does not return a state with the "
                            "operand replaced by one result")
      miss = _run(f"byte_UNARY_NOT on {label}", lambda: w.missing(
          st.attrs["stack"][0], lambda k: tuple(not t for t in _KINDS[k])))
      g = _composition(kinds)
      seen[g] += 1
      for i, val in miss:
        bad[g].append(f"{label}: binding #{i} ({kinds[i]}) makes `not x` {val}, but no "
                      f"result admitting {val} is available under that binding")
  for g in groups:
    ctx.check(not bad[g], f"byte_UNARY_NOT:{g}", VM, not_fn.lineno,
              f"`not x` loses a value ({len(bad[g])} cases over {seen[g]} operands, e.g. "
              f"{bad[g][:2]}; T = only truthy, F = only falsy, U = unknown truth, which "
              "compare.compatible_with reports as compatible with True AND with False): a "
              "later branch on the stored flag drops the binding, e.g. "
              "`x = None if c else len(s); flag = not x; r = x if flag else 'nonzero'` "
              "excludes r == 0",
              {"operands": seen[g], "lost": bad[g][:6]})

  # (b) `in` / `not in` results coerced to bool
  cparams = [p.arg for p in coerce_fn.args.args]
  if cparams[:1] != ["self"] or len(cparams) != 3 or cparams[2] != "true_val":
    # positional meaning of the third parameter is part of the model
    raise AnalysisError(f"_coerce_to_bool: signature {cparams} not understood")
  bad = {g: [] for g in groups}
  seen = {g: 0 for g in groups}
  for n in (1, 2):
    for kinds in itertools.product(("T", "F", "U", "cT", "cF"), repeat=n):
      for true_val in (True, False):
        w = _BoolWorld(mod, kinds)
        label = f"coerce({{{'|'.join(kinds)}}}, true_val={true_val})"
        it = _me.Interp(coerce_fn, {}, 20000, w.resolver)
        res = _run(f"_coerce_to_bool on {label}",
                   lambda: it.call({cparams[0]: w.vm, cparams[1]: w.var,
                                    cparams[2]: true_val}))
        miss = _run(f"_coerce_to_bool on {label}", lambda: w.missing(
            res, lambda k: tuple(t is true_val for t in _KINDS[k])))
        g = _composition(kinds)
        seen[g] += 1
        for i, val in miss:
          bad[g].append(f"{label}: binding #{i} ({kinds[i]}) makes the result {val}, but "
                        f"no result admitting {val} is available under that binding")
  for g in groups:
    ctx.check(not bad[g], f"_coerce_to_bool:{g}", VM, coerce_fn.lineno,
              f"the bool result of `in`/`not in` loses a value ({len(bad[g])} cases over "
              f"{seen[g]} operands, e.g. {bad[g][:2]})",
              {"operands": seen[g], "lost": bad[g][:6]})


# -- sensitivity suite -------------------------------------------------------------------

_TUPLE_ARM = ("      if len(var.bindings) != 1 or flatten(var.bindings[0].data, classes):\n"
              "        # There were either multiple bindings or ambiguity deeper in the\n"
              "        # recursion.\n"
              "        ambiguous = True\n"
              "    return ambiguous\n")
_NOT_LOOPS = ("      for b in true_bindings:\n"
              "        result.AddBinding(\n"
              "            self.ctx.convert.bool_values[False],\n"
              "            source_set=(b,),\n"
              "            where=state.node,\n"
              "        )\n"
              "      for b in false_bindings:\n"
              "        result.AddBinding(\n"
              "            self.ctx.convert.bool_values[True],\n"
              "            source_set=(b,),\n"
              "            where=state.node,\n"
              "        )\n")

VARIANTS = [
    # R1.50 ----------------------------------------------------------------------
    {"name": "seeded-C01-r5m1", "rule": "R1.50", "patch": "seeded/C01-r5m1/patch.diff",
     "expect": "fire"},
    {"name": "flatten-tuple-stops-at-first-ambiguous-element", "rule": "R1.50", "file": AU,
     "expect": "fire", "old": _TUPLE_ARM,
     "new": "      if len(var.bindings) != 1:\n"
            "        ambiguous = True\n"
            "      elif flatten(var.bindings[0].data, classes):\n"
            "        ambiguous = True\n"
            "      else:\n"
            "        ambiguous = False\n"
            "    return ambiguous\n"},
    {"name": "flatten-nested-ambiguity-dropped", "rule": "R1.50", "file": AU,
     "expect": "fire", "old": _TUPLE_ARM,
     "new": "      if len(var.bindings) != 1:\n"
            "        ambiguous = True\n"
            "      else:\n"
            "        flatten(var.bindings[0].data, classes)\n"
            "    return ambiguous\n"},
    {"name": "flatten-takes-classes-out-of-ambiguous-variables", "rule": "R1.50", "file": AU,
     "expect": "fire", "old": _TUPLE_ARM,
     "new": "      if len(var.bindings) != 1:\n"
            "        ambiguous = True\n"
            "      for b in var.bindings:\n"
            "        if flatten(b.data, classes):\n"
            "          ambiguous = True\n"
            "    return ambiguous\n"},
    {"name": "flatten-union-all-instead-of-any", "rule": "R1.50", "file": AU,
     "expect": "fire",
     "old": "    ambiguous = False\n"
            "    for val in value.options:\n"
            "      if flatten(val, classes):\n"
            "        ambiguous = True\n"
            "    return ambiguous\n",
     "new": "    results = [flatten(val, classes) for val in value.options]\n"
            "    return bool(results) and all(results)\n"},
    {"name": "flatten-unknown-value-not-reported", "rule": "R1.50", "file": AU,
     "expect": "fire",
     "old": "    return ambiguous\n  else:\n    return True\n",
     "new": "    return ambiguous\n  else:\n    return False\n"},
    {"name": "check-against-mro-ambiguous-is-false", "rule": "R1.50", "file": AU,
     "expect": "fire",
     "old": "  return None if ambiguous else False\n",
     "new": "  return False if ambiguous or not classes else None\n"},
    {"name": "twin-flatten-any-over-list", "rule": "R1.50", "file": AU, "expect": "silent",
     "old": "    ambiguous = False\n"
            "    for var in value.pyval:\n" + _TUPLE_ARM,
     "new": "    ignored = [\n"
            "        len(element.bindings) != 1\n"
            "        or flatten(element.bindings[0].data, classes)\n"
            "        for element in value.pyval\n"
            "    ]\n"
            "    return any(ignored)\n"},
    {"name": "twin-flatten-or-accumulate", "rule": "R1.50", "file": AU, "expect": "silent",
     "old": _TUPLE_ARM,
     "new": "      if len(var.bindings) != 1:\n"
            "        ambiguous = True\n"
            "        continue\n"
            "      deeper = flatten(var.bindings[0].data, classes)\n"
            "      ambiguous = deeper or ambiguous\n"
            "    return ambiguous\n"},
    {"name": "twin-flatten-element-helper", "rule": "R1.50", "expect": "silent",
     "edits": [
         (AU, _TUPLE_ARM,
          "      ambiguous |= _flatten_element(var, classes)\n"
          "    return ambiguous\n"),
         (AU, "def check_against_mro(\n",
          "def _flatten_element(element, into) -> bool:\n"
          "  if len(element.bindings) != 1:\n"
          "    return True\n"
          "  (only,) = element.bindings\n"
          "  return flatten(only.data, into)\n\n\n"
          "def check_against_mro(\n")]},
    {"name": "twin-check-against-mro-any", "rule": "R1.50", "file": AU, "expect": "silent",
     "old": "  return None if ambiguous else False\n",
     "new": "  if ambiguous:\n    return None\n  return False\n"},
    # R1.51 ----------------------------------------------------------------------
    {"name": "seeded-C01-r5m2", "rule": "R1.51", "patch": "seeded/C01-r5m2/patch.diff",
     "expect": "fire"},
    {"name": "not-false-results-only-for-definitely-falsy", "rule": "R1.51", "file": VM,
     "expect": "fire",
     "old": "      for b in false_bindings:\n"
            "        result.AddBinding(\n"
            "            self.ctx.convert.bool_values[True],\n",
     "new": "      for b in false_bindings:\n"
            "        if b in true_bindings:\n"
            "          continue\n"
            "        result.AddBinding(\n"
            "            self.ctx.convert.bool_values[True],\n"},
    {"name": "not-one-result-per-class-with-joint-sources", "rule": "R1.51", "file": VM,
     "expect": "fire", "old": _NOT_LOOPS,
     "new": "      if true_bindings:\n"
            "        result.AddBinding(\n"
            "            self.ctx.convert.bool_values[False],\n"
            "            source_set=tuple(true_bindings),\n"
            "            where=state.node,\n"
            "        )\n"
            "      if false_bindings:\n"
            "        result.AddBinding(\n"
            "            self.ctx.convert.bool_values[True],\n"
            "            source_set=tuple(false_bindings),\n"
            "            where=state.node,\n"
            "        )\n"},
    {"name": "not-falsy-class-is-complement-of-truthy", "rule": "R1.51",
     "file": VM, "expect": "fire",
     "old": "        b for b in var.bindings if compare.compatible_with(b.data, False)\n",
     "new": "        b for b in var.bindings if not compare.compatible_with(b.data, True)\n"},
    {"name": "twin-not-wider-generic-bool-shortcut", "rule": "R1.51",
     "file": VM, "expect": "silent",   # less precise ({T|F} -> bool), still sound
     "old": "    if len(true_bindings) == len(false_bindings) == len(var.bindings):\n",
     "new": "    if len(true_bindings) == len(false_bindings):\n"},
    {"name": "not-polarity-not-flipped", "rule": "R1.51", "file": VM, "expect": "fire",
     "old": "      for b in true_bindings:\n"
            "        result.AddBinding(\n"
            "            self.ctx.convert.bool_values[False],\n",
     "new": "      for b in true_bindings:\n"
            "        result.AddBinding(\n"
            "            self.ctx.convert.bool_values[True],\n"},
    {"name": "coerce-unknown-truth-becomes-true", "rule": "R1.51", "file": VM,
     "expect": "fire",
     "old": "      elif not compare.compatible_with(v, False):\n"
            "        const = true_val\n"
            "      else:\n"
            "        const = None\n",
     "new": "      else:\n"
            "        const = true_val\n"},
    {"name": "twin-not-single-pass-two-ifs", "rule": "R1.51", "file": VM, "expect": "silent",
     "old": _NOT_LOOPS,
     "new": "      for b in var.bindings:\n"
            "        if b in true_bindings:\n"
            "          result.AddBinding(\n"
            "              self.ctx.convert.bool_values[False], source_set=(b,),\n"
            "              where=state.node)\n"
            "        if b in false_bindings:\n"
            "          result.AddBinding(\n"
            "              self.ctx.convert.bool_values[True], source_set=(b,),\n"
            "              where=state.node)\n"},
    {"name": "twin-not-loops-swapped-and-renamed", "rule": "R1.51", "file": VM,
     "expect": "silent", "old": _NOT_LOOPS,
     "new": "      node = state.node\n"
            "      values = self.ctx.convert.bool_values\n"
            "      for falsy in false_bindings:\n"
            "        result.AddBinding(values[True], source_set=(falsy,), where=node)\n"
            "      for truthy in true_bindings:\n"
            "        result.AddBinding(values[False], source_set=[truthy], where=node)\n"},
    {"name": "twin-not-helper-method", "rule": "R1.51", "expect": "silent",
     "edits": [
         (VM, _NOT_LOOPS,
          "      self._add_negations(result, true_bindings, False, state.node)\n"
          "      self._add_negations(result, false_bindings, True, state.node)\n"),
         (VM, "  def byte_UNARY_NOT(self, state, op):\n",
          "  def _add_negations(self, result, bindings, negated, node):\n"
          "    for b in bindings:\n"
          "      result.AddBinding(\n"
          "          self.ctx.convert.bool_values[negated], source_set=(b,), where=node\n"
          "      )\n\n"
          "  def byte_UNARY_NOT(self, state, op):\n")]},
    {"name": "twin-not-without-generic-shortcut", "rule": "R1.51", "file": VM,
     "expect": "silent",
     "old": "    if len(true_bindings) == len(false_bindings) == len(var.bindings):\n",
     "new": "    if not var.bindings:\n"},
    {"name": "twin-coerce-reordered-tests", "rule": "R1.51", "file": VM, "expect": "silent",
     "old": "      elif not compare.compatible_with(v, True):\n"
            "        const = not true_val\n"
            "      elif not compare.compatible_with(v, False):\n"
            "        const = true_val\n",
     "new": "      elif not compare.compatible_with(v, False):\n"
            "        const = true_val\n"
            "      elif not compare.compatible_with(v, True):\n"
            "        const = not true_val\n"},
]
