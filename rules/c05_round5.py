"""C05 extension R5.50: the stub reader hands back a class's bases in the order they were written.

The printer writes `class C(b1, b2, ...)` from `Class.bases` left to right; the reader collects the parsed
bases into a list and passes it through ONE normaliser (the classdef function Definitions.build_class calls
on its `bases` argument: today classdef.get_bases) before it builds `pytd.Class(bases=...)`.  Base order is
semantic (it is the MRO input and part of structural equality), so print(parse(stub)) == stub needs the
normaliser to be an *order-preserving, element-wise* map:

  (a) fixed point - a base list made of bases in the form the printer emits them (`Protocol`, `Generic[T]`,
      `NamedTuple`, a plain class, a parameterised class; any order, any position) comes back as it went in;
  (b) element-wise - for every base list, also with the PEP 544 shorthand `Protocol[T]`, the result is the
      concatenation, in order, of the results for the one-element lists (what is written for one base does
      not move because of, or depend on, its neighbours).

The rule takes the normaliser (and whatever module-level helpers it calls) from /repo as an AST and evaluates
it (rules/_minieval.py; nothing is imported or run) on every list of 1-3 distinct bases over that alphabet.
The matcher argument (`Definitions.matches_type`) is evaluated from its AST as well, in a module without
aliases.  Anything outside the evaluated fragment, an image that is not a list of type records, or a base
list the normaliser rejects although it accepts each base alone, is an ANALYSIS-ERROR, never a verdict.
"""
import ast
import itertools

from sa.core import rule, AnalysisError
from sa.pyindex import get_module, dotted, walk_no_nested
from rules import _minieval as me
from rules.c05 import class_methods, CLASSDEF, DEFS
from rules.c05_smallscope import _Interp, _module_globals, _run

PARSER_CONSTANTS = "pytype/pytd/parse/parser_constants.py"


# -- world model: pytd type records ------------------------------------------------------------------------

def _named(name, kind="NamedType"):
  o = me.Obj((f"pytd.{kind}", "pytd.Type"), {"name": name})
  o.methods["Replace"] = lambda **kw: _replace(o, kw)
  return o


def _generic(base, params):
  o = me.Obj(("pytd.GenericType", "pytd.Type"), {"base_type": base, "parameters": tuple(params),
                                                 "name": base.attrs["name"]})
  o.methods["Replace"] = lambda **kw: _replace(o, kw)
  return o


def _replace(o, kw):
  if "pytd.GenericType" in o.kinds:
    if set(kw) - {"base_type", "parameters"}:
      raise me.Raised("TypeError", (f"Replace: unknown fields {sorted(kw)}",))
    return _generic(kw.get("base_type", o.attrs["base_type"]), kw.get("parameters", o.attrs["parameters"]))
  if set(kw) - {"name"}:
    raise me.Raised("TypeError", (f"Replace: unknown fields {sorted(kw)}",))
  return _named(kw.get("name", o.attrs["name"]), o.kinds[0].rsplit(".", 1)[-1])


def _resolver(name, args, kw):
  """Constructors of pytd records the evaluated code may call."""
  last = name.rsplit(".", 1)[-1]
  if last in ("NamedType", "ClassType"):
    vals = list(args) + [kw[k] for k in ("name",) if k in kw]
    if len(vals) == 1 and isinstance(vals[0], str):
      return _named(vals[0], last)
    raise me.Outside(f"{name} called with {len(args)} positional arguments and {sorted(kw)}")
  if last == "GenericType":
    vals = dict(zip(("base_type", "parameters"), args), **kw)
    if set(vals) == {"base_type", "parameters"} and isinstance(vals["base_type"], me.Obj):
      return _generic(vals["base_type"], vals["parameters"])
    raise me.Outside(f"{name} called with a shape that is not understood")
  return NotImplemented


def _show(v, what):
  """A type record as text (structural identity of the record)."""
  if isinstance(v, me.Obj) and v.kinds and v.kinds[0] in ("pytd.NamedType", "pytd.ClassType"):
    return v.attrs["name"]
  if isinstance(v, me.Obj) and v.kinds and v.kinds[0] == "pytd.GenericType":
    ps = ", ".join(_show(p, what) for p in v.attrs["parameters"])
    return f"{_show(v.attrs['base_type'], what)}[{ps}]"
  if isinstance(v, me.Obj) and v.kinds and v.kinds[0] == "pytd.TypeParameter":
    return v.attrs["name"]
  raise AnalysisError(f"{what}: the result contains something that is not a type record: {v!r}")


def _alphabet():
  """(label, record maker, emitted form?) - one per shape of base the reader can be handed."""
  t = lambda: me.Obj(("pytd.TypeParameter", "pytd.Type"), {"name": "T"})
  return [
      ("Protocol", lambda: _named("typing.Protocol"), True),
      ("Generic[T]", lambda: _generic(_named("typing.Generic"), [t()]), True),
      ("NamedTuple", lambda: _named("typing.NamedTuple"), True),
      ("foo.Base", lambda: _named("foo.Base"), True),
      ("foo.Box[int]", lambda: _generic(_named("foo.Box"), [_named("int")]), True),
      ("Protocol[T]", lambda: _generic(_named("typing.Protocol"), [t()]), False),   # PEP 544 shorthand
  ]


# -- locating the normaliser -------------------------------------------------------------------------------

def _normaliser(ctx):
  """(classdef function def, index of the base-list parameter, index of the matcher parameter or None).

  Found from its use: in Definitions.build_class, the classdef call that is handed build_class's `bases`
  parameter and whose result reaches pytd.Class(bases=...) under the same name.
  """
  dmod = get_module(ctx, DEFS)
  bc = class_methods(dmod, "Definitions").get("build_class")
  if bc is None:
    raise AnalysisError(f"{DEFS}: Definitions.build_class not found")
  params = [p.arg for p in bc.args.posonlyargs + bc.args.args]
  built = [c for c in ast.walk(bc) if isinstance(c, ast.Call) and (dotted(c.func) or "").rsplit(".", 1)[-1] == "Class"
           and any(k.arg == "bases" for k in c.keywords)]
  if len(built) != 1:
    raise AnalysisError(f"{DEFS}: build_class: expected one Class(bases=...) construction, found {len(built)}")
  kwv = next(k.value for k in built[0].keywords if k.arg == "bases")
  names = {n.id for n in ast.walk(kwv) if isinstance(n, ast.Name)} & set(params)
  if len(names) != 1:
    raise AnalysisError(f"{DEFS}: build_class: Class(bases=...) is not built from one parameter of build_class")
  var = names.pop()
  cmod_alias = [a for a, d in dmod.imports.items() if d.rsplit(".", 1)[-1] == "classdef"]
  found = []
  for st in walk_no_nested(bc):
    if isinstance(st, ast.Assign) and len(st.targets) == 1 and isinstance(st.targets[0], ast.Name) and \
        st.targets[0].id == var and isinstance(st.value, ast.Call):
      d = dotted(st.value.func) or ""
      if "." in d and d.split(".", 1)[0] in cmod_alias and not st.value.keywords:
        idx = [i for i, a in enumerate(st.value.args) if isinstance(a, ast.Name) and a.id == var]
        if len(idx) == 1:
          found.append((d.split(".", 1)[1], st.value, idx[0]))
  if len(found) != 1:
    raise AnalysisError(f"{DEFS}: build_class: expected exactly one `{var} = classdef.<f>(.. {var} ..)` step "
                        f"between the parsed bases and Class(bases=...), found {[f for f, _, _ in found]}")
  fname, call, li = found[0]
  mi = None
  for i, a in enumerate(call.args):
    if i == li:
      continue
    if isinstance(a, ast.Attribute) and isinstance(a.value, ast.Name) and a.value.id == params[0] and \
        a.attr == "matches_type" and mi is None:
      mi = i
    else:
      raise AnalysisError(f"{DEFS}: build_class: argument {i} of classdef.{fname} is not understood ({ast.unparse(a)})")
  cmod = get_module(ctx, CLASSDEF)
  fn = cmod.func(fname)
  if len(fn.args.posonlyargs + fn.args.args) != len(call.args) or fn.args.vararg or fn.args.kwarg:
    raise AnalysisError(f"{CLASSDEF}: {fname}: parameters do not line up with the call in build_class")
  return cmod, fn, li, mi


def _matcher(ctx):
  """Definitions.matches_type evaluated from its AST, in a module that has no aliases."""
  dmod = get_module(ctx, DEFS)
  ms = {k: v for k, v in class_methods(dmod, "Definitions").items() if not v.decorator_list}
  if "matches_type" not in ms:
    raise AnalysisError(f"{DEFS}: Definitions.matches_type not found")
  pc = get_module(ctx, PARSER_CONSTANTS)
  consts = {k: v.value for k, v in pc.assigns.items() if isinstance(v, ast.Constant) and isinstance(v.value, str)}
  g = _module_globals(dmod, {"parser_constants": me.Obj(("module",), consts)})
  this = me.Obj(("Definitions",), {"aliases": {}}, cls_methods=ms)
  mt = ms["matches_type"]
  names = [p.arg for p in (mt.args.posonlyargs + mt.args.args)]

  def match(*a):
    if len(a) != len(names) - 1:
      raise me.Outside("matches_type called with an unexpected number of arguments")
    return _Interp(mt, g).call(dict(zip(names, (this,) + a)))
  # model sanity: the matcher tells the Protocol marker from an ordinary class
  if _run("Definitions.matches_type", lambda: match("typing.Protocol", "typing.Protocol")) is not True or \
      _run("Definitions.matches_type", lambda: match("foo.Base", "typing.Protocol")) is not False:
    raise AnalysisError("Definitions.matches_type: the evaluated matcher does not tell typing.Protocol from foo.Base")
  return match


def base_order_matrix(ctx):
  """Evaluates the normaliser over the scope; memoised.  Returns (fn name, def, cases)."""
  def compute():
    cmod, fn, li, mi = _normaliser(ctx)
    match = _matcher(ctx)
    g = _module_globals(cmod)
    g["__resolver__"] = _resolver
    pnames = [p.arg for p in fn.args.posonlyargs + fn.args.args]
    what = f"classdef.{fn.name}"

    def norm(makers):
      args = {pnames[li]: [m() for m in makers]}
      if mi is not None:
        args[pnames[mi]] = match
      try:
        r = _run(what, lambda: _Interp(fn, g, resolver=_resolver).call(args))
      except me.Raised as e:
        return None, e.name
      if not isinstance(r, (list, tuple)):
        raise AnalysisError(f"{what}: the result is not a list of bases (got {r!r})")
      return [_show(x, what) for x in r], None

    alpha = _alphabet()
    single = {}
    for lbl, mk, _ in alpha:
      got, err = norm([mk])
      if got is None:
        raise AnalysisError(f"{what} rejects the single base {lbl} ({err}): the scope is not one the reader accepts")
      single[lbl] = got
    cases = []
    for n in (1, 2, 3):
      for combo in itertools.permutations(alpha, n):
        labels = [lbl for lbl, _, _ in combo]
        got, err = norm([mk for _, mk, _ in combo])
        if got is None:
          raise AnalysisError(f"{what} rejects the base list [{', '.join(labels)}] ({err}) although it accepts each "
                              "of the bases alone: a constraint between bases the rule does not understand")
        written = [_show(mk(), what) for _, mk, _ in combo]
        cases.append({"bases": labels, "written": written, "got": got,
                      "emitted_form": all(e for _, _, e in combo),
                      "elementwise": [x for lbl in labels for x in single[lbl]]})
    return fn, cases, single
  return ctx.memo(("c05-base-order",), compute)


@rule("R5.50", "C05", floor=2)
def r5_50(ctx):
  """The reader's base-list normaliser (classdef.get_bases) is an order-preserving element-wise map: identity on emitted-form bases."""
  fn, cases, single = base_order_matrix(ctx)
  what = f"classdef.{fn.name}"
  # (a) fixed point on what the printer writes
  mine = [c for c in cases if c["emitted_form"]]
  bad = [c for c in mine if c["got"] != c["written"]]
  facts = {"cases": len(mine), "single_base_images": single}
  if bad:
    ex = min(bad, key=lambda c: len(c["bases"]))
    ctx.bad(f"{what}:emitted-bases-reread-in-written-order", CLASSDEF, fn.lineno,
            f"`class C({', '.join(ex['bases'])})` - a base list as the printer writes it - is re-read with bases "
            f"{ex['got']} instead of {ex['written']}: the re-read class differs from the printed one (base order is "
            f"the MRO input) and printing it again does not reproduce the stub ({len(bad)} of {len(mine)} base lists)",
            dict(facts, counterexample={k: ex[k] for k in ("bases", "written", "got")}, failing=len(bad)))
  else:
    ctx.ok(f"{what}:emitted-bases-reread-in-written-order", CLASSDEF, fn.lineno, facts)
  # (b) element-wise, in order (also with the Protocol[T] shorthand)
  bad = [c for c in cases if c["got"] != c["elementwise"]]
  facts = {"cases": len(cases)}
  if bad:
    ex = min(bad, key=lambda c: len(c["bases"]))
    ctx.bad(f"{what}:each-base-mapped-in-place", CLASSDEF, fn.lineno,
            f"for `class C({', '.join(ex['bases'])})` the reader yields {ex['got']}, but base by base, in the order "
            f"written, it yields {ex['elementwise']}: what one base turns into moves or changes because of its "
            f"neighbours, so the base order of the re-read class is not the one in the stub "
            f"({len(bad)} of {len(cases)} base lists)",
            dict(facts, counterexample={k: ex[k] for k in ("bases", "elementwise", "got")}, failing=len(bad)))
  else:
    ctx.ok(f"{what}:each-base-mapped-in-place", CLASSDEF, fn.lineno, facts)


_PROTO = "      bases_out.append(pytd.NamedType(\"typing.Protocol\"))\n"
_GEN = "        bases_out.append(p.Replace(base_type=pytd.NamedType(\"typing.Generic\")))\n"
_IFGEN = "      if isinstance(p, pytd.GenericType):\n"
_NT = "      namedtuple_index = i\n      bases_out.append(p)\n"
_PLAIN = "    elif isinstance(p, pytd.Type):\n      bases_out.append(p)\n"
VARIANTS = [
    {"name": "seeded-C05-r5m1", "rule": "R5.50", "patch": "seeded/C05-r5m1/patch.diff", "expect": "fire"},
    {"name": "protocol-marker-hoisted-to-the-front", "rule": "R5.50", "file": CLASSDEF, "old": _PROTO,
     "new": "      bases_out.insert(0, pytd.NamedType(\"typing.Protocol\"))\n", "expect": "fire"},
    {"name": "namedtuple-base-moved-first", "rule": "R5.50", "file": CLASSDEF, "old": _NT,
     "new": "      namedtuple_index = i\n      bases_out.insert(0, p)\n", "expect": "fire"},
    {"name": "bases-returned-sorted-by-name", "rule": "R5.50", "file": CLASSDEF, "old": "  return bases_out\n",
     "new": "  return sorted(bases_out, key=lambda b: b.name)\n", "expect": "error"},
    {"name": "bases-returned-reversed", "rule": "R5.50", "file": CLASSDEF, "old": "  return bases_out\n",
     "new": "  return bases_out[::-1]\n", "expect": "fire"},
    {"name": "protocol-marker-dropped-after-another-base", "rule": "R5.50", "file": CLASSDEF, "old": _PROTO,
     "new": "      if not bases_out:\n        bases_out.append(pytd.NamedType(\"typing.Protocol\"))\n",
     "expect": "fire"},
    {"name": "generic-bases-collected-after-the-plain-ones", "rule": "R5.50",
     "edits": [(CLASSDEF, _PLAIN,
                "    elif isinstance(p, pytd.GenericType):\n      generic_out.append(p)\n" + _PLAIN),
               (CLASSDEF, "  namedtuple_index = None\n", "  namedtuple_index = None\n  generic_out = []\n"),
               (CLASSDEF, "  return bases_out\n", "  return bases_out + generic_out\n")], "expect": "fire"},
    {"name": "twin-protocol-arm-respelt", "rule": "R5.50", "file": CLASSDEF, "old": _GEN + _PROTO,
     "new": "        bases_out += [p.Replace(base_type=pytd.NamedType(\"typing.Generic\"))]\n"
            "      marker = pytd.NamedType(\"typing.Protocol\")\n      bases_out.append(marker)\n",
     "expect": "silent"},
    {"name": "twin-per-base-helper-extracted", "rule": "R5.50",
     "edits": [(CLASSDEF, _IFGEN, "      if True:\n"), (CLASSDEF, _GEN + _PROTO, "        bases_out.extend(_protocol_bases(p))\n"),
               (CLASSDEF, "def get_bases(\n",
                "def _protocol_bases(p):\n  out = []\n  if isinstance(p, pytd.GenericType):\n"
                "    out.append(p.Replace(base_type=pytd.NamedType(\"typing.Generic\")))\n"
                "  out.append(pytd.NamedType(\"typing.Protocol\"))\n  return out\n\n\ndef get_bases(\n")],
     "expect": "silent"},
    {"name": "twin-loop-without-enumerate-locals-renamed", "rule": "R5.50",
     "edits": [(CLASSDEF, "  for i, p in enumerate(bases):\n", "  for p in bases:\n"),
               (CLASSDEF, "      if namedtuple_index is not None:\n", "      if namedtuple_index:\n"),
               (CLASSDEF, "      namedtuple_index = i\n", "      namedtuple_index = True\n"),
               (CLASSDEF, "  return bases_out\n", "  return [b for b in bases_out]\n")], "expect": "silent"},
    {"name": "twin-normaliser-renamed", "rule": "R5.50",
     "edits": [(CLASSDEF, "def get_bases(\n", "def normalise_bases(\n"),
               (DEFS, "classdef.get_bases(bases, self.matches_type)",
                "classdef.normalise_bases(bases, self.matches_type)")], "expect": "silent"},
]
