"""C09 - reachability equals graph reachability: schema match of reachable.cc.

The bit-matrix incremental transitive-closure algorithm is argued correct on
paper (EXPLANATION); the rules discharge, against clang's AST, each premise of
that argument (R9.1), that the typegraph stores an edge only together with a
closure update (R9.2) and that writer and readers agree on argument roles
(R9.3).
"""
from sa.core import rule, AnalysisError
from sa import cxx
from sa.cxx import term, inner, strip
from rules._util_c09c04 import (Sym, Item, uncast, uncast_v, is_int as _is_int, truth,
                                subterms, pure_term, walk_sem, calls_to,
                                desugared, canon_type, ASSIGN_OPS, INCDEC)

TECHNIQUE = ("static analysis: schema matching of clang AST terms against the "
             "bit-matrix incremental-closure algorithm; role/dimension check "
             "of writer vs reader argument order")
EXPLANATION = (
    "Paper argument: invariant I = row i is the reflexive-transitive closure "
    "of i over the edges inserted so far. add_node preserves I (new row = "
    "{n}; old rows get zero-filled new buckets). For add_connection(s,d): a "
    "new path i~>j uses s->d at least once, so s in R(i) and j in R'(d); if "
    "the path used the edge again then s in R(d) and by I R(s) subset R(d), "
    "so R'(d)=R(d): one `R(i) |= R(d)` for every i with s in R(i) restores I, "
    "and the in-place update is safe because row d changes only when i=d, a "
    "no-op. Hence is_reachable(a,b) = bit b of row a = path existence. R9.1 "
    "matches reachable.cc against exactly this algorithm (S1 64-bit cells, "
    "read from the desugared type of adj_ so a `using Row = ...` alias does "
    "not matter; S2 add_node: id = old count, bucket count = "
    "ceil(n/64), every row resized with zero fill, diagonal bit set; S3 "
    "add_connection: all rows, guard = bit src of row i, all buckets, row_i "
    "|= row_dst, no other write; S4 is_reachable = bit dst of row src; S5 "
    "bit(k) = 64-bit 1 << (k mod 64)).  The match is made on a normal form "
    "of the functions, not on their statement layout: calls to helpers of "
    "the same class / file are inlined (`return E;` helpers by substitution "
    "with the parameter and return conversions kept when narrower than 64 "
    "bit, void helpers statement by statement), single-assignment locals, "
    "references and pointers are replaced by their definition, an index loop "
    "`for (i = 0; i < B; i++)` and a range-for by reference over adj_ (all "
    "rows: adj_.size() == num_nodes_ is established by S2 and the "
    "no-other-writer instances) are the same loop, `if (!g) continue; rest` "
    "is `if (g) { rest }`, and `x ? true : false`, `x != 0`, `!!x` and the "
    "conversion to bool are the same condition.  Only listed equivalent "
    "idioms are accepted; an unknown idiom (other control flow in a loop, a "
    "reassigned local, a copy instead of a reference, a call that may write "
    "the matrix and cannot be inlined) is an ANALYSIS-ERROR, not a pass.  A "
    "helper that writes the matrix is accepted only when it was inlined into "
    "add_node/add_connection and has no other caller. R9.2: every "
    "function that stores an edge calls add_connection on the same path, and "
    "NewCFGNode calls add_node and checks the returned id against the node "
    "id. R9.3: the argument-role permutation at each reader is the inverse "
    "of the writer's; arguments hoisted into single-assignment locals are "
    "resolved, and a query made inside a lambda (std::any_of / all_of / "
    "none_of predicate) is read from the instantiated call operator. Not "
    "decided: std::vector semantics, int overflow of node ids beyond 2^31.")
ASSUMPTIONS = [
    "std::vector::resize(n, v) value-fills new elements and keeps old ones; "
    "operator[] / data() address the same storage; a range-for visits every "
    "element once",
    "node ids fit in int (fewer than 2^31 CFG nodes), so int<->size_t "
    "conversions of ids and `>> 6` vs `/ 64` agree",
    "clang's AST is the trusted parser/resolver",
]

EXPLANATION += (
    " R9.4 (rules/c09_connect.py): the edges the matrix knows are the edges the "
    "caller issued. Every typegraph function that registers an edge with "
    "add_connection (directly or through a helper that does so on every path: "
    "CFGNode::ConnectTo) is executed symbolically over its statement structure "
    "(if/else with &&, ||, ! split into path alternatives; a range-for binds "
    "its variable to `an element of C`; break / continue / return); every exit "
    "that has not passed add_connection must carry, among the branch conditions "
    "of its path, either the self-edge test `this == node` or a membership test "
    "of exactly the requested edge a->b: b found in a->outgoing_ or a found in "
    "b->incoming_ (a, b read off the push_back calls that store the edge). "
    "Membership is `elem == x` inside `for (elem : C)`, std::find(C.begin(), "
    "C.end(), x) != C.end(), std::count(..) > 0, or a bool helper of the "
    "typegraph whose every non-false return is such a test (this / parameters "
    "substituted); const getters outgoing() / incoming() designate the field; "
    "once-bound locals their initialiser. A test of the reverse edge (node in "
    "this->incoming_), of another container, or an exit under an unrelated "
    "condition is a violation: the edge is dropped and every path through it is "
    "missing from the closure while the matrix stays consistent with the "
    "node's own lists. A path condition built from a reassigned flag or an "
    "unresolved call is an analysis error.")

EXPLANATION += (
    " Whole-range obligation of R9.1 (S2/S3): the paper argument quantifies over "
    "every row i that reaches src and over every word of a row, so each index "
    "loop is matched as the range [first, bound): first must be the constant 0 "
    "and bound the matrix dimension (num_nodes_ / adj_.size() for rows, size_ / "
    "adj_[r].size() for words; `i <= x` is read as `i < x + 1`, `i != B` with "
    "unit stride as `i < B`). A first index or bound computed from an argument "
    "(a `first_row` hint, src's word), from a constant other than 0, or from "
    "auxiliary state is a violation whatever the callers pass. Fields of the "
    "analyzer other than adj_, num_nodes_, size_ are auxiliary: statements that "
    "only write them are ignored, further parameters of add_connection have no "
    "role (R9.3 reads the first two arguments), but wherever the matched loops, "
    "guard or merge mention an auxiliary field, a value copied from one "
    "(`const int top = top_[dst]`) or a further parameter, the match fails as a "
    "violation. A first index that contains a call, a loop index changed in the "
    "body, a copy of *matrix* state used as a bound, or an auxiliary field of "
    "pointer / reference / iterator type (could alias the rows) is an "
    "ANALYSIS-ERROR.")
ASSUMPTIONS += [
    "R9.1 whole-range: a loop bound kept in an auxiliary field is reported even "
    "if the program happens to keep it equal to size_ / num_nodes_; that "
    "equality is an invariant over the history of calls and is not decided",
]

RC = "pytype/typegraph/reachable.cc"
W64 = {"long", "long long", "std::int64_t", "int64_t", "unsigned long",
       "unsigned long long", "std::uint64_t", "uint64_t", "__int64_t",
       "__uint64_t"}
RA = "ReachabilityAnalyzer"
# the state the paper argument speaks about; every other field of the class is
# auxiliary: it may be written freely, but nothing the schema matches (loop
# ranges, guard, merged cells) may be computed from it
MATRIX = {RA + "::adj_", RA + "::num_nodes_", RA + "::size_"}


def _bucket(t, x):
  t = uncast(t)
  return isinstance(t, tuple) and len(t) == 3 and (
      (t[0] == "/" and uncast(t[1]) == x and _is_int(t[2], 64)) or
      (t[0] == ">>" and uncast(t[1]) == x and _is_int(t[2], 6)))


def _lane(t, x):
  t = uncast(t)
  return isinstance(t, tuple) and len(t) == 3 and (
      (t[0] == "&" and uncast(t[1]) == x and _is_int(t[2], 63)) or
      (t[0] == "&" and uncast(t[2]) == x and _is_int(t[1], 63)) or
      (t[0] == "%" and uncast(t[1]) == x and _is_int(t[2], 64)))


def _one64(t):
  if isinstance(t, tuple) and t[0] == "int" and t[1] == 1:
    return t[2] in W64
  if isinstance(t, tuple) and t[0] == "cast":
    return canon_type(t[1]) in W64 and _is_int(t[2], 1)
  return False


def _rooted(t):
  """The term designates (part of) a ReachabilityAnalyzer field."""
  while isinstance(t, tuple) and t:
    if t[0] == "field":
      return str(t[1]) in MATRIX
    if t[0] in ("index", "data", "*", "cast") or (t[0] == "&" and len(t) == 2):
      t = t[2] if t[0] == "cast" else t[1]
      continue
    return False
  return False


def _term_writes(t):
  """The evaluated term may change the matrix (conservative)."""
  for s in subterms(t):
    if not s:
      continue
    h = s[0]
    if h in ASSIGN_OPS and len(s) == 3 and _rooted(s[1]):
      return True
    if h in INCDEC and _rooted(s[1]):
      return True
    if h == "mcall":
      if s[1] in cxx.MUTATORS and _rooted(s[2]):
        return True
      if "::" in str(s[1]) and (str(s[1]).startswith(RA + "::") and
                                not str(s[1]).endswith(" const")):
        return True
      if "::" in str(s[1]) and any(_rooted(a) for a in s[2:]):
        return True
    if h == "call" and (any(_rooted(a) for a in s[2:]) or
                        str(s[1]).startswith(RA + "::")):
      return True
  return False


class LoopItem(Item):
  """An index loop of the normal form with its first index (`lo`)."""
  __slots__ = ("lo",)


def _plus1(x):
  """x + 1 (the exclusive bound of `i <= x`); `(y - 1) + 1` is y: the matrix
  is never empty when add_connection runs (its arguments are node ids)."""
  x = uncast(x)
  if isinstance(x, tuple) and len(x) == 3 and x[0] == "-" and _is_int(x[2], 1):
    return uncast(x[1])
  return ("+", x, ("int", 1, "int"))


def _reads_aux(t):
  return any(s and s[0] == "field" and str(s[1]).startswith(RA + "::")
             and s[1] not in MATRIX for s in subterms(t))


class Sym9(Sym):
  """Sym whose index loops carry their whole range [lo, bound): `_for` keeps
  the start expression instead of refusing a start other than 0, reads
  `i <= x` as `i < x + 1` and `i != B` (unit stride) as `i < B`; a value local
  that holds a copy of *auxiliary* analyzer state (`const int top = top_[d];`)
  becomes the term ("snapshot", name, definition) - it is not matrix state, so
  wherever the schema meets it the match fails as a violation instead of a
  refusal (copies of matrix state stay an AnalysisError: they may be stale)."""

  def __init__(self, ix, inline_ok):
    super().__init__(ix, inline_ok)
    self.snap = {}

  def _decl(self, s, env, fn):
    out = super()._decl(s, env, fn)
    for it in out:
      if it.kind == "decl" and it.var is not None and it.var[2] in self.opaque \
          and it.term is not None and _reads_aux(it.term):
        self.snap[it.var[2]] = it.term
    return out

  def term(self, e, env=None):
    if e and e.get("kind") == "DeclRefExpr":
      did = (e.get("referencedDecl") or {}).get("id")
      if did in self.snap and did not in (env or {}):
        return ("snapshot", self.opaque[did], self.snap[did])
    return super().term(e, env)

  def _for(self, s, env, fn):
    init, _, cond, inc, body = (inner(s) + [None] * 5)[:5]
    if not init or init.get("kind") != "DeclStmt" or len(inner(init)) != 1:
      raise AnalysisError("for-loop init outside the accepted idiom")
    v = inner(init)[0]
    if v.get("kind") != "VarDecl" or not inner(v):
      raise AnalysisError("for-loop without an initialised index variable")
    lo = uncast(self.term(inner(v)[-1], env))
    var = ("var", v.get("name"), v["id"])
    c = self.term(cond, env)
    if not (isinstance(c, tuple) and len(c) == 3 and c[0] in ("<", "<=", "!=")
            and uncast(c[1]) == var):
      raise AnalysisError(f"for-loop condition outside the accepted idiom: {c}")
    i = self.term(inc, env)
    if not (isinstance(i, tuple) and (
        (i[0] in ("post++", "pre++") and uncast(i[1]) == var) or
        (i[0] == "+=" and uncast(i[1]) == var and _is_int(i[2], 1)))):
      raise AnalysisError(f"for-loop increment outside the accepted idiom: {i}")
    if body is None:
      raise AnalysisError("for-loop without body")
    bound = uncast(c[2])
    if c[0] == "<=":
      bound = _plus1(bound)
    elif c[0] == "!=" and not _is_int(lo, 0):
      raise AnalysisError("for-loop `i != B` that does not start at 0")
    if any(x == var for x in subterms(bound)) or any(x == var for x in subterms(lo)):
      raise AnalysisError("for-loop range mentions its own index")
    items = self._loop_body(body, env, fn)
    for n in cxx.walk(body):
      if n.get("kind") in ("BinaryOperator", "CompoundAssignOperator", "UnaryOperator") \
          and (n.get("opcode") in ("++", "--") or (
              n.get("opcode", "").endswith("=") and
              n.get("opcode") not in ("==", "!=", "<=", ">="))):
        l = strip(inner(n)[0])
        if l is not None and l.get("kind") == "DeclRefExpr" and \
            (l.get("referencedDecl") or {}).get("id") == v["id"]:
          raise AnalysisError("for-loop index is changed inside the body")
    it = LoopItem("loop", s, var=var, bound=bound, body=items)
    it.lo = lo
    return it


class Schema:
  def __init__(self, ctx):
    self.ctx = ctx
    self.ix = cxx.get_index(ctx)
    ix = self.ix
    self.add_node = ix.fn("ReachabilityAnalyzer::add_node()")
    self.add_conn = ix.fn("ReachabilityAnalyzer::add_connection(const int, const int)") \
        if "ReachabilityAnalyzer::add_connection(const int, const int)" in ix.by_key \
        else ix.find("ReachabilityAnalyzer::add_connection")[0]
    self.is_reach = ix.find("ReachabilityAnalyzer::is_reachable")[0]
    self.F = lambda n: ("field", f"ReachabilityAnalyzer::{n}", ("this",))
    self.sym = Sym9(ix, self.inline_ok)
    for fq, ty in sorted(ix.field_type.items()):
      if fq.startswith(RA + "::") and fq not in MATRIX and \
          ("*" in ty or "&" in ty or "iterator" in ty or "span" in ty):
        raise AnalysisError(f"auxiliary field {fq} of type {ty} may alias the "
                            "matrix storage; writes through it cannot be told "
                            "from matrix writes")

  def inline_ok(self, fn):
    if fn.kind in ("CXXConstructorDecl", "CXXDestructorDecl"):
      return False
    return fn.cls == RA or (fn.cls is None and fn.file.endswith(
        ("typegraph/reachable.cc", "typegraph/reachable.h")))

  # bit(k): a 64-bit one shifted by k mod 64 (helpers are already inlined)
  def is_bit(self, t, x):
    t = uncast_v(t)
    return isinstance(t, tuple) and len(t) == 3 and t[0] == "<<" and \
        _one64(t[1]) and _lane(t[2], x)

  def is_cell(self, t, row_pred, col_pred):
    t = uncast_v(t)
    return (isinstance(t, tuple) and t[0] == "index" and col_pred(t[2])
            and isinstance(t[1], tuple) and t[1][0] == "index"
            and t[1][1] == self.F("adj_") and row_pred(uncast(t[1][2])))

  def touches(self, it):
    """The item may write the matrix, or hides control flow."""
    if it.kind in ("expr", "decl"):
      return _term_writes(it.term) or _touches_matrix(self.ix, it.node)
    if it.kind in ("if", "loop"):
      return any(self.touches(x) for x in (it.body or []) + (it.orelse or [])) \
          or (it.kind == "if" and _term_writes(it.term))
    return True   # return / break / continue / other: never skipped silently

  def all_rows(self, bound):
    """Loop bound that covers every row of the matrix."""
    return bound == self.F("num_nodes_") or bound == ("count", self.F("adj_")) \
        or bound == ("mcall", "size", self.F("adj_"))

  def all_buckets(self, bound):
    """Loop bound that covers every 64-bit word of a row (S2 gives every row
    exactly size_ words)."""
    if bound == self.F("size_"):
      return True
    row = None
    if isinstance(bound, tuple) and len(bound) == 2 and bound[0] == "count":
      row = bound[1]
    elif isinstance(bound, tuple) and len(bound) == 3 and bound[:2] == ("mcall", "size"):
      row = bound[2]
    return isinstance(row, tuple) and len(row) == 3 and row[0] == "index" and \
        row[1] == self.F("adj_") and pure_term(row[2])

  def from_zero(self, loop, what):
    """The loop starts at index 0.  A start that is a constant other than 0
    or computed from arguments / fields / locals skips rows or words: False.
    A start that cannot be evaluated (a call) is an AnalysisError."""
    lo = getattr(loop, "lo", None)
    if lo is None or _is_int(lo, 0):
      return True
    if isinstance(lo, tuple) and len(lo) == 3 and lo[0] == "*" and \
        (_is_int(lo[1], 0) or _is_int(lo[2], 0)) and pure_term(lo):
      return True
    if not pure_term(lo) or any(x and x[0] in ("?", "mcall", "call", "opcall")
                                for x in subterms(lo)):
      raise AnalysisError(f"{what}: the first index {lo} cannot be evaluated")
    return False


def _touches_matrix(ix, s):
  if s is None:
    return False
  for ev in cxx.events(ix, s, {}):
    if ev.kind in ("write", "addr") and ev.what in MATRIX:
      return True
  return False


def _line(n):
  return ((n.get("range") or {}).get("begin") or {}).get("line") or 0


def _locals(ix, fn, stmts, env):
  """Substitution environment for single-assignment locals declared in stmts."""
  for s in stmts:
    if s.get("kind") == "DeclStmt":
      for v in inner(s):
        if v.get("kind") == "VarDecl" and inner(v):
          env[v["id"]] = term(ix, inner(v)[-1], env)
  return env


def _adj_type(sc):
  """Desugared type of the adj_ field (typedef / using aliases resolved)."""
  ix = sc.ix
  for fn in (sc.add_node, sc.add_conn, sc.is_reach):
    for n in cxx.walk(fn.body):
      if n.get("kind") == "MemberExpr" and \
          ix.fields.get(n.get("referencedMemberDecl")) == "ReachabilityAnalyzer::adj_":
        return desugared(n)
  return ix.field_type.get("ReachabilityAnalyzer::adj_", "")


@rule("R9.1", "C09", floor=14)
def r9_1(ctx):
  """reachable.cc is the bit-matrix incremental closure (S1-S5)."""
  sc = ctx.memo(("c09",), lambda: Schema(ctx))
  ix = sc.ix
  F = sc.F
  sym = sc.sym
  # S1 -------------------------------------------------------------------
  t = _adj_type(sc)
  tt = t.replace(" ", "")
  ok = any(tt == f"std::vector<std::vector<{w.replace(' ', '')}>>" for w in W64)
  ctx.check(ok, "S1:adj_-type", "pytype/typegraph/reachable.h", 0,
            f"adj_ has type {t}; the algorithm needs vector<vector<64-bit integer>>",
            {"type": t, "declared": ix.field_type.get("ReachabilityAnalyzer::adj_", "")})
  # S2 add_node ------------------------------------------------------------
  fn = sc.add_node
  items = sym.flatten(inner(fn.body), {}, fn)
  node_var = None
  seen = {"count": False, "size": False, "rows": False, "cols": False,
          "diag": False, "ret": False}
  order_ok = True
  for it in items:
    if it.kind == "decl":
      if uncast(it.term) == ("post++", F("num_nodes_")):
        node_var = it.var
        seen["count"] = True
        continue
      if sc.touches(it):
        raise AnalysisError(f"add_node: unknown declaration idiom at line {it.line}")
      continue
    if it.kind == "loop":
      body = [b for b in it.body if sc.touches(b)]
      if len(body) != 1 or body[0].kind != "expr":
        if not body:
          continue
        raise AnalysisError("add_node: row loop body is not a single statement")
      b = body[0].term
      want = ("mcall", "resize", ("index", F("adj_"), it.var))
      ok_body = isinstance(b, tuple) and b[:3] == want and len(b) == 5 and \
          uncast(b[3]) == F("size_") and _is_int(b[4], 0)
      ok_bound = sc.all_rows(it.bound) and sc.from_zero(it, "add_node row loop")
      ctx.check(ok_bound, "S2:row-loop-bound", RC, it.line,
                f"the loop resizing rows runs over [{getattr(it, 'lo', 0)}, "
                f"{it.bound}); every row 0 <= i < num_nodes_ must be resized",
                {"first": str(getattr(it, "lo", None)), "bound": str(it.bound)})
      ctx.check(ok_body, "S2:row-resize", RC, body[0].line,
                f"row resize is {b}; expected adj_[i].resize(size_, 0)",
                {"stmt": str(b)})
      order_ok &= seen["count"] and seen["size"] and seen["rows"]
      seen["cols"] = True
      continue
    if it.kind == "return":
      r = it.term
      ctx.check(node_var is not None and uncast(r) == node_var, "S2:returns-new-id",
                RC, it.line, f"add_node returns {r}, not the id allotted",
                {"ret": str(r)})
      seen["ret"] = True
      continue
    if it.kind != "expr":
      if sc.touches(it):
        raise AnalysisError(f"add_node: statement outside the schema at line {it.line}: {it.kind}")
      continue
    t = it.term
    if isinstance(t, tuple) and t[0] == "=" and uncast(t[1]) == F("size_"):
      rhs = uncast(t[2])
      ok = isinstance(rhs, tuple) and len(rhs) == 3 and (
          (rhs[0] == "/" and _is_int(rhs[2], 64)) or
          (rhs[0] == ">>" and _is_int(rhs[2], 6)))
      if ok:
        inner_sum = uncast(rhs[1])
        ok = isinstance(inner_sum, tuple) and len(inner_sum) == 3 and \
            inner_sum[0] == "+" and (
                (uncast(inner_sum[1]) == F("num_nodes_") and _is_int(inner_sum[2], 63)) or
                (uncast(inner_sum[2]) == F("num_nodes_") and _is_int(inner_sum[1], 63)))
      ctx.check(ok, "S2:bucket-count", RC, it.line,
                f"size_ = {rhs}; expected ceil(num_nodes_/64) = (num_nodes_+63)/64",
                {"rhs": str(rhs)})
      order_ok &= seen["count"]
      seen["size"] = True
      continue
    if isinstance(t, tuple) and t[:2] == ("mcall", "emplace_back") and t[2] == F("adj_") \
        and len(t) == 5 and uncast(t[3]) == F("size_") and _is_int(t[4], 0):
      # equivalent idiom for "add one row": adj_.emplace_back(size_, 0); the
      # older rows still have to be widened by the all-rows loop
      order_ok &= seen["count"] and seen["size"]
      seen["rows"] = True
      ctx.ok("S2:rows-resized", RC, it.line, {"stmt": str(t), "idiom": "emplace_back(size_, 0)"})
      continue
    if isinstance(t, tuple) and t[:3] == ("mcall", "resize", F("adj_")):
      ok = len(t) == 4 and uncast(t[3]) == F("num_nodes_")
      ctx.check(ok, "S2:rows-resized", RC, it.line,
                f"adj_.resize args {t[3:]}; expected num_nodes_", {"stmt": str(t)})
      order_ok &= seen["count"]
      seen["rows"] = True
      continue
    if isinstance(t, tuple) and t[0] in ("=", "|=") and node_var is not None and \
        sc.is_cell(t[1], lambda r: r == node_var, lambda c: _bucket(c, node_var)):
      ctx.check(sc.is_bit(t[2], node_var), "S2:diagonal", RC, it.line,
                f"the new row gets {t[2]}; expected bit(node) so that every "
                "node reaches itself", {"rhs": str(t[2])})
      order_ok &= seen["rows"] and seen["cols"]
      seen["diag"] = True
      continue
    if isinstance(t, tuple) and t[:2] == ("mcall", "resize") and \
        isinstance(t[2], tuple) and t[2][:2] == ("index", F("adj_")):
      ctx.bad("S2:row-loop-bound", RC, it.line,
              f"a single row is resized ({t[2][2]}) outside a loop over all "
              "rows: older rows keep their old bucket count", {"stmt": str(t)})
      continue
    if sc.touches(it):
      raise AnalysisError(f"add_node: statement outside the schema at line {it.line}: {t}")
  missing = [k for k, v in seen.items() if not v]
  ctx.check(not missing and order_ok, "S2:complete-and-ordered", RC, fn.line,
            f"add_node lacks schema steps {missing} or performs them out of "
            "order", {"seen": seen, "order_ok": order_ok})
  # S3 add_connection -------------------------------------------------------
  fn = sc.add_conn
  if len(fn.params) < 2:
    raise AnalysisError("add_connection does not take (src, dst)")
  # further parameters (hints) have no role in the schema: wherever one is
  # used in a matched position the match fails
  src = ("var", fn.params[0].get("name"), fn.params[0]["id"])
  dst = ("var", fn.params[1].get("name"), fn.params[1]["id"])
  if {p["id"] for p in fn.params} & sym.assigned(fn):
    raise AnalysisError("add_connection: a parameter is reassigned")

  def single(items, kind, what):
    """The one matrix-touching item of a block, which must be of `kind`."""
    hot = [x for x in items if sc.touches(x)]
    if len(hot) != 1 or hot[0].kind != kind:
      if len(hot) > 1 and all(x.kind == kind for x in hot):
        raise AnalysisError(f"add_connection: more than one {what}")
      if not hot:
        raise AnalysisError(f"add_connection: {what} not found")
      bad = [x for x in hot if x.kind != kind][0]
      raise AnalysisError(f"add_connection: statement outside the schema at "
                          f"line {bad.line} (expected the {what})")
    return hot[0]

  items = sym.flatten(inner(fn.body), {}, fn)
  outer = single(items, "loop", "row loop")
  i = outer.var
  ctx.check(sc.all_rows(outer.bound) and sc.from_zero(outer, "add_connection row loop"),
            "S3:row-loop-bound", RC, outer.line,
            f"the outer loop runs over [{getattr(outer, 'lo', 0)}, {outer.bound}); "
            "every row 0 <= i < num_nodes_ must be considered whatever the "
            "arguments and the auxiliary state are: any row may reach src",
            {"first": str(getattr(outer, "lo", None)), "bound": str(outer.bound),
             "extra_params": [p.get("name") for p in fn.params[2:]]})
  ifs = single(outer.body, "if", "single guarded block of the row loop")
  if ifs.orelse:
    raise AnalysisError("add_connection: outer loop body is not a single guarded block")
  g = truth(ifs.term)
  ok = isinstance(g, tuple) and len(g) == 3 and g[0] == "&" and (
      (sc.is_cell(g[1], lambda r: r == i, lambda c: _bucket(c, src)) and sc.is_bit(g[2], src)) or
      (sc.is_cell(g[2], lambda r: r == i, lambda c: _bucket(c, src)) and sc.is_bit(g[1], src)))
  ctx.check(ok, "S3:guard", RC, ifs.line,
            f"guard is {g}; expected adj_[i][src/64] & bit(src) (row i reaches src)",
            {"guard": str(g)})
  inner_loop = single(ifs.body, "loop", "bucket loop")
  j = inner_loop.var
  ctx.check(sc.all_buckets(inner_loop.bound) and
            sc.from_zero(inner_loop, "add_connection bucket loop"),
            "S3:bucket-loop-bound", RC, inner_loop.line,
            f"the inner loop runs over [{getattr(inner_loop, 'lo', 0)}, "
            f"{inner_loop.bound}); every bucket 0 <= j < size_ must be merged "
            "(a range taken from an argument or from auxiliary state is not the "
            "width of the row)",
            {"first": str(getattr(inner_loop, "lo", None)), "bound": str(inner_loop.bound)})
  upd = single(inner_loop.body, "expr", "single statement of the bucket loop")
  u = upd.term
  is_or = isinstance(u, tuple) and len(u) == 3 and (
      u[0] == "|=" or (u[0] == "=" and isinstance(uncast_v(u[2]), tuple)
                       and uncast_v(u[2])[0] == "|" and len(uncast_v(u[2])) == 3))
  lhs_ok = isinstance(u, tuple) and len(u) == 3 and \
      sc.is_cell(u[1], lambda r: r == i, lambda c: uncast(c) == j)
  if isinstance(u, tuple) and u[0] == "|=":
    rhs_ok = sc.is_cell(u[2], lambda r: r == dst, lambda c: uncast(c) == j)
  elif is_or:
    a, b = uncast_v(u[2])[1], uncast_v(u[2])[2]
    cell_i = lambda t: sc.is_cell(t, lambda r: r == i, lambda c: uncast(c) == j)
    cell_d = lambda t: sc.is_cell(t, lambda r: r == dst, lambda c: uncast(c) == j)
    rhs_ok = (cell_i(a) and cell_d(b)) or (cell_i(b) and cell_d(a))
  else:
    rhs_ok = False
  ctx.check(is_or and lhs_ok and rhs_ok, "S3:row-or", RC, upd.line,
            f"update is {u}; expected adj_[i][j] |= adj_[dst][j]",
            {"update": str(u)})
  # S4 is_reachable ---------------------------------------------------------
  fn = sc.is_reach
  src = ("var", fn.params[0].get("name"), fn.params[0]["id"])
  dst = ("var", fn.params[1].get("name"), fn.params[1]["id"])
  if {fn.params[0]["id"], fn.params[1]["id"]} & sym.assigned(fn):
    raise AnalysisError("is_reachable: a parameter is reassigned")
  items = [x for x in sym.flatten(inner(fn.body), {}, fn)
           if x.kind != "decl" or sc.touches(x)]
  if len(items) != 1 or items[0].kind != "return" or items[0].term is None:
    raise AnalysisError("is_reachable: body is not a single return")
  r = truth(items[0].term)
  ok = isinstance(r, tuple) and len(r) == 3 and r[0] == "&" and (
      (sc.is_cell(r[1], lambda x: x == src, lambda c: _bucket(c, dst)) and sc.is_bit(r[2], dst)) or
      (sc.is_cell(r[2], lambda x: x == src, lambda c: _bucket(c, dst)) and sc.is_bit(r[1], dst)))
  ctx.check(ok, "S4:query", RC, items[0].line,
            f"is_reachable returns {r}; expected adj_[src][dst/64] & bit(dst)",
            {"ret": str(r)})
  # S5 bit helper -------------------------------------------------------------
  n_bit = 0
  for k in sorted(sym.inlined):
    f = sym.inlined[k]
    if len(f.params) != 1 or sym.ret_type(f) == "void":
      continue
    pv = ("var", f.params[0].get("name"), f.params[0]["id"])
    body = sym.inline_expr(f, [pv])
    core_t = uncast(body)
    if isinstance(core_t, tuple) and core_t and core_t[0] == "<<":
      n_bit += 1
      ctx.check(sc.is_bit(body, pv), f"S5:{k.split('(')[0]}", RC, f.line,
                f"{k} is not `64-bit 1 << (k & 63)`", {"helper": k, "body": str(body)})
    elif _bucket(body, pv):
      ctx.ok(f"S5:{k.split('(')[0]}", RC, f.line,
             {"helper": k, "role": "word index k / 64", "body": str(body)})
  if not n_bit:
    ctx.ok("S5:inline-bit", RC, 0, {"note": "bit(k) written inline at each use"})
  # no other function writes the matrix
  callers = None
  for f in sorted(ix.by_key.values(), key=lambda f: f.key):
    if f.cls != "ReachabilityAnalyzer" or f.kind == "CXXConstructorDecl":
      continue
    if f.key in (sc.add_node.key, sc.add_conn.key):
      continue
    w = [ev.what for ev in cxx.events(ix, f.body, {}) if ev.kind in ("write", "addr")
         and ev.what.startswith("ReachabilityAnalyzer::")]
    if f.key in sym.inlined:
      # a helper whose statements were matched in place above: it must not be
      # reachable from anywhere else
      if callers is None:
        callers = {}
        for g in ix.by_key.values():
          if g.body is None:
            continue
          for n in walk_sem(g.body):
            if n.get("kind") in ("CXXMemberCallExpr", "CallExpr"):
              key = ix.callee(n)[0]
              if key in sym.inlined:
                callers.setdefault(key, set()).add(g.key)
      allowed = {sc.add_node.key, sc.add_conn.key, sc.is_reach.key} | set(sym.inlined)
      extra = sorted(callers.get(f.key, set()) - allowed)
      writes_via_params = any(
          canon_type(desugared(p)).endswith(("*", "&")) and
          "const" not in desugared(p).split("*")[0].split("&")[0]
          for p in f.params)
      if w or writes_via_params:
        ctx.check(not extra, f"no-other-writer:{f.key}", f.file, f.line,
                  f"{f.key} writes the matrix and is also called from {extra}; "
                  "only add_node/add_connection may change the matrix",
                  {"writes": w, "other_callers": extra, "inlined": True})
        continue
    ctx.check(not w, f"no-other-writer:{f.key}", f.file, f.line,
              f"{f.key} writes {w}; only add_node/add_connection may change the matrix",
              {"writes": w})


def _calls_to(ix, fn, qual):
  return calls_to(ix, fn.body, qual)


@rule("R9.2", "C09", floor=3)
def r9_2(ctx):
  """An edge is stored only together with its closure update; node ids agree."""
  sc = ctx.memo(("c09",), lambda: Schema(ctx))
  ix = sc.ix
  edge_fields = {"CFGNode::incoming_", "CFGNode::outgoing_"}
  for fn in sorted(ix.by_key.values(), key=lambda f: f.key):
    if fn.kind in ("CXXConstructorDecl", "CXXDestructorDecl") or fn.body is None:
      continue
    if fn.file.endswith("_test.cc"):
      continue
    def transfer(ev, st):
      if ev.kind == "write" and ev.what in edge_fields:
        return st | {"w:" + ev.what}
      if ev.kind == "call" and ev.what.split("(")[0] == "ReachabilityAnalyzer::add_connection" \
          and not ev.cond:
        return st | {"closure"}
      return st
    fl = cxx.CxxFlow(ix, fn, transfer)
    wrote = any(ev.kind == "write" and ev.what in edge_fields for ev in fl.events)
    if not wrote:
      continue
    bad = [k for k, n, s in fl.exits if s is not None and
           any(x.startswith("w:") for x in s) and
           not ({"w:CFGNode::incoming_", "w:CFGNode::outgoing_", "closure"} <= s)]
    ctx.check(not bad, f"edge-writer:{fn.key}", fn.file, fn.line,
              f"{fn.key} stores an edge (incoming_/outgoing_) on a path that "
              "does not also store the mirror edge and call "
              "ReachabilityAnalyzer::add_connection",
              {"exits": [(k, sorted(s)) for k, n, s in fl.exits if s is not None]})
  # NewCFGNode: add_node called, its result compared with the node id used
  fns = [f for f in ix.find("Program::NewCFGNode") if len(f.params) == 2]
  if len(fns) != 1:
    raise AnalysisError("Program::NewCFGNode(name, condition) not found")
  fn = fns[0]
  calls = _calls_to(ix, fn, "ReachabilityAnalyzer::add_node")
  ctx.check(len(calls) == 1, "NewCFGNode:add_node-once", fn.file, fn.line,
            f"NewCFGNode calls add_node {len(calls)} times; must be exactly once",
            {"calls": len(calls)})
  # the CFGNode is constructed with the id that was compared with add_node's result
  env = {}
  for s in inner(fn.body):
    if s.get("kind") == "DeclStmt":
      _locals(ix, fn, [s], env)
  ctor = [n for n in cxx.walk(fn.body) if n.get("kind") == "CXXConstructExpr"
          and "CFGNode" in cxx.qual_type(n) and len(inner(n)) >= 3]
  if len(ctor) != 1:
    raise AnalysisError("NewCFGNode: CFGNode construction not found")
  id_arg = uncast(term(ix, inner(ctor[0])[2], env))
  cmp_ok = False
  for n in cxx.walk(fn.body):
    if n.get("kind") == "BinaryOperator" and n.get("opcode") == "==":
      a, b = uncast(term(ix, inner(n)[0], env)), uncast(term(ix, inner(n)[1], env))
      is_add = lambda t: isinstance(t, tuple) and t[0] == "mcall" and "add_node" in str(t[1])
      if (is_add(a) and b == id_arg) or (is_add(b) and a == id_arg):
        cmp_ok = True
  ctx.check(cmp_ok, "NewCFGNode:id-agreement", fn.file, fn.line,
            "the id given to the new CFGNode must be CHECKed equal to the id "
            "returned by ReachabilityAnalyzer::add_node", {"id_arg": str(id_arg)})
  # CFGNode::id() returns id_, and the ctor stores its id parameter there
  idf = ix.fn("CFGNode::id() const")
  r = [term(ix, inner(s)[0]) for s in inner(idf.body) if s.get("kind") == "ReturnStmt"]
  ctx.check(r == [("field", "CFGNode::id_", ("this",))], "CFGNode::id", idf.file, idf.line,
            f"CFGNode::id() returns {r}, not id_", {"ret": str(r)})


def _hoisted(ix, fn):
  """Substitution environment of fn's single-assignment locals whose
  definition has no side effect (`const auto from_id = node->id();`)."""
  from rules._util_c09c04 import assigned_locals
  reassigned = assigned_locals(fn)
  env = {}
  for n in walk_sem(fn.body):
    if n.get("kind") != "DeclStmt":
      continue
    for v in inner(n):
      if v.get("kind") != "VarDecl" or v["id"] in reassigned:
        continue
      kids = [c for c in inner(v) if c.get("kind")]
      if not kids or kids[-1].get("kind") == "LambdaExpr":
        continue
      t = term(ix, kids[-1], env)
      stale = any(x[0] == "var" and len(x) == 3 and x[2] in reassigned
                  for x in subterms(t))
      if pure_term(t) and not stale:
        env[v["id"]] = t
  return env


def _params_fixed(fn, what):
  from rules._util_c09c04 import assigned_locals
  if {p["id"] for p in fn.params} & assigned_locals(fn):
    raise AnalysisError(f"{what}: a parameter is reassigned; argument roles "
                        "cannot be read off the parameter names")


def _role_args(ix, call, fn):
  """Terms of the arguments of `call` with fn's params/this named by role;
  arguments hoisted into named locals are replaced by their definition."""
  env = _hoisted(ix, fn)
  return [uncast(term(ix, a, env)) for a in inner(call)[1:]]


@rule("R9.3", "C09", floor=4)
def r9_3(ctx):
  """Writer and readers agree on the orientation of the matrix."""
  sc = ctx.memo(("c09",), lambda: Schema(ctx))
  ix = sc.ix
  ID = lambda base: ("mcall", "CFGNode::id() const", base)
  # writer: ConnectTo(node) registers (node, this): row `node` gains what `this` reaches,
  # i.e. the matrix stores *backward* reachability: adj[a][b] <=> b ~> a forward.
  ct = ix.fn("CFGNode::ConnectTo(CFGNode *)")
  p = ("var", ct.params[0].get("name"), ct.params[0]["id"])
  calls = _calls_to(ix, ct, "ReachabilityAnalyzer::add_connection")
  if len(calls) != 1:
    raise AnalysisError("ConnectTo: add_connection call not found")
  a = _role_args(ix, calls[0], ct)
  if len(a) > 2 and len(sc.add_conn.params) == len(a):
    # further arguments have no role (R9.1 S3 rejects any use of them)
    a = a[:2]
  _params_fixed(ct, "ConnectTo")
  writer = None
  if a == [ID(p), ID(("this",))]:
    writer = "backward"    # add_connection(src=new successor, dst=this)
  elif a == [ID(("this",)), ID(p)]:
    writer = "forward"
  else:
    raise AnalysisError(f"ConnectTo: add_connection arguments not understood: {a}")
  # which of (incoming_, outgoing_) gets which: this -> node is the forward edge
  edge = {}
  for n in cxx.walk(ct.body):
    if n.get("kind") == "CXXMemberCallExpr":
      t = term(ix, n)
      if t[0] == "mcall" and t[1] == "push_back" and isinstance(t[2], tuple) and t[2][0] == "field":
        edge[t[2][1]] = (uncast(t[2][2]), uncast(t[3]))
  fwd_ok = edge.get("CFGNode::outgoing_") == (("this",), p) and \
      edge.get("CFGNode::incoming_") == (p, ("this",))
  ctx.check(fwd_ok, "ConnectTo:edge-direction", ct.file, ct.line,
            f"ConnectTo(node) must add node to this->outgoing_ and this to "
            f"node->incoming_; got {edge}", {"edges": str(edge)})
  ctx.ok("ConnectTo:writer-orientation", ct.file, ct.line, {"orientation": writer})
  # reader 1: Program::is_reachable(src, dst): forward path src ~> dst
  pr = ix.fn("Program::is_reachable(const CFGNode *, const CFGNode *)")
  s = ("var", pr.params[0].get("name"), pr.params[0]["id"])
  d = ("var", pr.params[1].get("name"), pr.params[1]["id"])
  calls = _calls_to(ix, pr, "ReachabilityAnalyzer::is_reachable")
  if len(calls) != 1:
    raise AnalysisError("Program::is_reachable: analyzer query not found")
  a = _role_args(ix, calls[0], pr)
  _params_fixed(pr, "Program::is_reachable")
  want = [ID(d), ID(s)] if writer == "backward" else [ID(s), ID(d)]
  if sorted(map(str, a)) != sorted(map(str, want)):
    raise AnalysisError(f"Program::is_reachable: analyzer query arguments not understood: {a}")
  ctx.check(a == want, "Program::is_reachable:orientation", pr.file, pr.line,
            f"the matrix is written {writer}; Program::is_reachable(src,dst) "
            f"must query {want}, queries {a}", {"args": str(a), "writer": writer})
  # reader 2: CanHaveCombination: is origin->where an ancestor of this?
  ch = ix.find("CFGNode::CanHaveCombination")[0]
  calls = _calls_to(ix, ch, "ReachabilityAnalyzer::is_reachable")
  if len(calls) != 1:
    raise AnalysisError("CanHaveCombination: analyzer query not found")
  a = _role_args(ix, calls[0], ch)
  is_this = lambda t: t == ID(("this",))
  is_where = lambda t: isinstance(t, tuple) and t[0] == "mcall" and \
      "CFGNode::id" in str(t[1]) and "Origin::where" in str(t[2])
  if len(a) != 2 or not ((is_this(a[0]) and is_where(a[1])) or
                         (is_where(a[0]) and is_this(a[1]))):
    raise AnalysisError(f"CanHaveCombination: analyzer query arguments not understood: {a}")
  ok = (is_this(a[0]) and is_where(a[1])) if writer == "backward" else \
      (is_where(a[0]) and is_this(a[1]))
  ctx.check(ok, "CanHaveCombination:orientation", ch.file, ch.line,
            f"the matrix is written {writer}; CanHaveCombination must ask "
            f"whether origin->where reaches this, queries {a}",
            {"args": str(a), "writer": writer})
  # reader 3 (Python surface): cfg.cc is_reachable binds keywords src, dst in order
  cf = [f for f in ix.by_key.values() if f.file.endswith("cfg.cc") and f.name == "is_reachable"]
  if len(cf) != 1:
    raise AnalysisError("cfg.cc is_reachable wrapper not found")
  cf = cf[0]
  calls = _calls_to(ix, cf, "Program::is_reachable")
  kw = [n for n in cxx.walk(cf.body) if n.get("kind") == "VarDecl" and n.get("name") == "kwlist"]
  names = []
  if kw:
    for n in cxx.walk(kw[0]):
      if n.get("kind") == "StringLiteral":
        names.append(n.get("value", "").strip('"'))
  parse = [n for n in cxx.walk(cf.body) if n.get("kind") == "CallExpr" and
           "PyArg_ParseTupleAndKeywords" in str(ix.callee(n)[0])]
  if len(calls) != 1 or len(parse) != 1 or names[:2] != ["src", "dst"]:
    raise AnalysisError(f"cfg.cc is_reachable: unknown shape (kwlist={names})")
  # the two output pointers after kwlist, each preceded by a type object
  outs = []
  for aexp in inner(parse[0])[1:]:
    t = uncast(term(ix, aexp))
    if isinstance(t, tuple) and t[0] == "&" and isinstance(t[1], tuple) and t[1][0] == "var" \
        and not str(t[1][1]).startswith("Py"):
      outs.append(t[1])
  args = [uncast(term(ix, x)) for x in inner(calls[0])[1:]]
  flat = [str(x) for x in args]
  ok = len(outs) == 2 and outs[0][1] in flat[0] and outs[1][1] in flat[1]
  ctx.check(ok, "cfg.is_reachable:keyword-order", cf.file, cf.line,
            f"keywords (src,dst) are parsed into {[o[1] for o in outs]} but "
            f"passed as {flat}", {"parsed": [o[1] for o in outs], "passed": flat})


def _tg(n):
  return f"pytype/typegraph/{n}"


_ADD_CONN_BODY = (
    "  std::int64_t src_bit = _node_bit(src);\n"
    "  int src_pos = src / 64;\n"
    "  std::int64_t* row_dst = adj_[dst].data();\n"
    "  for (int i = 0; i < num_nodes_; i++) {\n"
    "    if (adj_[i][src_pos] & src_bit) {\n"
    "      // i is connected to src\n"
    "      std::int64_t* row_i = adj_[i].data();\n"
    "      for (int j = 0; j < size_; j++) {\n"
    "        row_i[j] |= row_dst[j];  // if dst is connected to j, connect i and j\n"
    "      }\n"
    "    }\n"
    "  }\n")
# range-for + continue-guard + shift spelling of the same function body
_ADD_CONN_RANGEFOR = (
    "  const std::int64_t src_mask = _node_bit(src);\n"
    "  const int src_word = src >> 6;\n"
    "  const std::int64_t* from = adj_[dst].data();\n"
    "  for (auto& row : adj_) {\n"
    "    if (!(row[src_word] & src_mask)) {\n"
    "      continue;\n"
    "    }\n"
    "    std::int64_t* into = row.data();\n"
    "    for (int w = 0; w < size_; w++) {\n"
    "      into[w] |= from[w];\n"
    "    }\n"
    "  }\n")
# add_node / add_connection / is_reachable split into private helpers
_SPLIT_EDITS = [
    (_tg("reachable.h"), "  std::vector<std::vector<std::int64_t>> adj_;",
     "  using Row = std::vector<std::int64_t>;\n"
     "  static bool has_bit(const Row& row, int node);\n"
     "  void grow_rows();\n"
     "  void merge_row(Row* into, const Row& from) const;\n"
     "  std::vector<Row> adj_;"),
    (_tg("reachable.cc"), "int ReachabilityAnalyzer::add_node() {",
     "bool ReachabilityAnalyzer::has_bit(const Row& row, const int node) {\n"
     "  return row[node / 64] & _node_bit(node) ? true : false;\n"
     "}\n\n"
     "void ReachabilityAnalyzer::grow_rows() {\n"
     "  adj_.resize(num_nodes_);\n"
     "  for (int i = 0; i < num_nodes_; i++) {\n"
     "    adj_[i].resize(size_, 0);\n"
     "  }\n"
     "}\n\n"
     "void ReachabilityAnalyzer::merge_row(Row* into, const Row& from) const {\n"
     "  std::int64_t* row_into = into->data();\n"
     "  const std::int64_t* row_from = from.data();\n"
     "  for (int j = 0; j < size_; j++) {\n"
     "    row_into[j] |= row_from[j];\n"
     "  }\n"
     "}\n\n"
     "int ReachabilityAnalyzer::add_node() {"),
    (_tg("reachable.cc"),
     "  adj_.resize(num_nodes_);\n  for (int i = 0; i < num_nodes_; i++) {\n"
     "    adj_[i].resize(size_, 0);\n  }\n  adj_[node]",
     "  grow_rows();\n  adj_[node]"),
    (_tg("reachable.cc"), _ADD_CONN_BODY,
     "  const Row& row_dst = adj_[dst];\n"
     "  for (int i = 0; i < num_nodes_; i++) {\n"
     "    if (has_bit(adj_[i], src)) {\n"
     "      merge_row(&adj_[i], row_dst);\n"
     "    }\n"
     "  }\n"),
    (_tg("reachable.cc"), "  return adj_[src][dst / 64] & _node_bit(dst) ? true : false;",
     "  return has_bit(adj_[src], dst);"),
]
_CANHAVE_LOOP = (
    "  for (const Binding* goal : bindings) {\n"
    "    bool origin_reachable = false;\n"
    "    for (const auto& origin : goal->origins()) {\n"
    "      if (this->backward_reachability_->is_reachable(this->id(),\n"
    "                                                     origin->where->id())) {\n"
    "        origin_reachable = true;\n"
    "        break;\n"
    "      }\n"
    "    }\n"
    "    if (!origin_reachable) {\n"
    "      return false;\n"
    "    }\n"
    "  }\n"
    "  return true;\n")
_CANHAVE_ANY_OF = (
    "  return std::all_of(\n"
    "      bindings.begin(), bindings.end(), [this](const Binding* goal) {\n"
    "        const auto& origins = goal->origins();\n"
    "        return std::any_of(\n"
    "            origins.begin(), origins.end(), [this](const auto& origin) {\n"
    "              return this->backward_reachability_->is_reachable(this->id(), origin->where->id());\n"
    "            });\n"
    "      });\n")

VARIANTS = [
    {"name": "outer-bound-size", "rule": "R9.1", "file": _tg("reachable.cc"), "expect": "fire",
     "old": "  std::int64_t* row_dst = adj_[dst].data();\n  for (int i = 0; i < num_nodes_; i++) {",
     "new": "  std::int64_t* row_dst = adj_[dst].data();\n  for (int i = 0; i < size_; i++) {"},
    {"name": "bucket-div-32", "rule": "R9.1", "file": _tg("reachable.cc"), "expect": "fire",
     "old": "  int src_pos = src / 64;", "new": "  int src_pos = src / 32;"},
    {"name": "bit-is-32-bit-one", "rule": "R9.1", "file": _tg("reachable.cc"), "expect": "fire",
     "old": "  return 1l << (node_id & 63);", "new": "  return 1 << (node_id & 63);"},
    {"name": "and-instead-of-or", "rule": "R9.1", "file": _tg("reachable.cc"), "expect": "fire",
     "old": "        row_i[j] |= row_dst[j];", "new": "        row_i[j] &= row_dst[j];"},
    {"name": "assign-instead-of-or", "rule": "R9.1", "file": _tg("reachable.cc"), "expect": "fire",
     "old": "        row_i[j] |= row_dst[j];", "new": "        row_i[j] = row_dst[j];"},
    {"name": "guard-tests-dst", "rule": "R9.1", "file": _tg("reachable.cc"), "expect": "fire",
     "old": "  std::int64_t src_bit = _node_bit(src);\n  int src_pos = src / 64;",
     "new": "  std::int64_t src_bit = _node_bit(dst);\n  int src_pos = dst / 64;"},
    {"name": "or-row-src", "rule": "R9.1", "file": _tg("reachable.cc"), "expect": "fire",
     "old": "  std::int64_t* row_dst = adj_[dst].data();", "new": "  std::int64_t* row_dst = adj_[src].data();"},
    {"name": "old-rows-not-resized", "rule": "R9.1", "file": _tg("reachable.cc"), "expect": "fire",
     "old": "  for (int i = 0; i < num_nodes_; i++) {\n    adj_[i].resize(size_, 0);\n  }",
     "new": "  adj_[node].resize(size_, 0);"},
    {"name": "diagonal-not-set", "rule": "R9.1", "file": _tg("reachable.cc"), "expect": "fire",
     "old": "  adj_[node][node / 64] = _node_bit(node);  // New row, so we don't need \"|=\"\n", "new": ""},
    {"name": "bucket-count-floor", "rule": "R9.1", "file": _tg("reachable.cc"), "expect": "fire",
     "old": "  size_ = (num_nodes_ + 63) / 64;", "new": "  size_ = (num_nodes_ + 64) / 64;"},
    {"name": "inner-bound-off", "rule": "R9.1", "file": _tg("reachable.cc"), "expect": "fire",
     "old": "      for (int j = 0; j < size_; j++) {", "new": "      for (int j = 0; j < size_ - 1; j++) {"},
    {"name": "query-swapped-bucket", "rule": "R9.1", "file": _tg("reachable.cc"), "expect": "fire",
     "old": "  return adj_[src][dst / 64] & _node_bit(dst) ? true : false;",
     "new": "  return adj_[src][src / 64] & _node_bit(dst) ? true : false;"},
    {"name": "twin-shift-for-div", "rule": "R9.1", "file": _tg("reachable.cc"), "expect": "silent",
     "old": "  int src_pos = src / 64;", "new": "  int src_pos = src >> 6;"},
    {"name": "twin-mod-for-mask", "rule": "R9.1", "file": _tg("reachable.cc"), "expect": "silent",
     "old": "  return 1l << (node_id & 63);", "new": "  return static_cast<std::int64_t>(1) << (node_id % 64);"},
    {"name": "twin-index-instead-of-data", "rule": "R9.1", "file": _tg("reachable.cc"), "expect": "silent",
     "old": "        row_i[j] |= row_dst[j];", "new": "        adj_[i][j] |= adj_[dst][j];"},
    {"name": "twin-size_t-loop", "rule": "R9.1", "file": _tg("reachable.cc"), "expect": "silent",
     "old": "      for (int j = 0; j < size_; j++) {", "new": "      for (std::size_t j = 0; j < size_; ++j) {"},
    {"name": "edge-without-closure", "rule": "R9.2", "file": _tg("typegraph.cc"), "expect": "fire",
     "old": "  this->backward_reachability_->add_connection(node->id(), this->id());\n", "new": ""},
    {"name": "edge-one-sided", "rule": "R9.2", "file": _tg("typegraph.cc"), "expect": "fire",
     "old": "  node->incoming_.push_back(this);\n  this->outgoing_.push_back(node);",
     "new": "  this->outgoing_.push_back(node);"},
    {"name": "newcfgnode-skips-add_node-check", "rule": "R9.2", "file": _tg("typegraph.cc"), "expect": "fire",
     "old": "  CHECK(n == node_nr) <<\n      \"internal error: wrong reachability cache node count.\";\n", "new": ""},
    {"name": "writer-args-swapped", "rule": "R9.3", "file": _tg("typegraph.cc"), "expect": "fire",
     "old": "add_connection(node->id(), this->id());", "new": "add_connection(this->id(), node->id());"},
    {"name": "program-query-unswapped", "rule": "R9.3", "file": _tg("typegraph.cc"), "expect": "fire",
     "old": "  return backward_reachability_->is_reachable(dst->id(), src->id());",
     "new": "  return backward_reachability_->is_reachable(src->id(), dst->id());"},
    {"name": "canhave-query-swapped", "rule": "R9.3", "file": _tg("typegraph.cc"), "expect": "fire",
     "old": "is_reachable(this->id(),\n                                                     origin->where->id())",
     "new": "is_reachable(origin->where->id(),\n                                                     this->id())"},
    {"name": "twin-both-sides-swapped", "rule": "R9.3", "expect": "silent",
     "edits": [(_tg("typegraph.cc"), "add_connection(node->id(), this->id());", "add_connection(this->id(), node->id());"),
               (_tg("typegraph.cc"), "  return backward_reachability_->is_reachable(dst->id(), src->id());",
                "  return backward_reachability_->is_reachable(src->id(), dst->id());"),
               (_tg("typegraph.cc"), "is_reachable(this->id(),\n                                                     origin->where->id())",
                "is_reachable(origin->where->id(),\n                                                     this->id())")]},
    {"name": "seeded-C09-r2m1-lazy-widening", "rule": "R9.1", "patch": "seeded/C09-r2m1/patch.diff", "expect": "fire"},
    {"name": "twin-new-row-by-emplace_back", "rule": "R9.1", "file": _tg("reachable.cc"), "expect": "silent",
     "old": "  adj_.resize(num_nodes_);\n  for (int i = 0; i < num_nodes_; i++) {",
     "new": "  adj_.emplace_back(size_, 0);\n  for (int i = 0; i < num_nodes_; i++) {"},
    # -- behaviour-preserving refactorings (whole patches) must stay silent --------
    {"name": "twin-benign-C09-r1-rangefor-shift-helper", "rule": "R9.1", "patch": "benign/C09-r1/patch.diff", "expect": "silent"},
    {"name": "twin-benign-C09-r2-any_of-all_of-lambdas", "rule": "R9.3", "patch": "benign/C09-r2/patch.diff", "expect": "silent"},
    {"name": "twin-benign-C09-r3-hoisted-ids", "rule": "R9.3", "patch": "benign/C09-r3/patch.diff", "expect": "silent"},
    {"name": "twin-benign-C09-r4-row-alias-split-helpers", "rule": "R9.1", "patch": "benign/C09-r4/patch.diff", "expect": "silent"},
    {"name": "twin-benign-C07-r4-continue-guard-none_of", "rule": "R9.1", "patch": "benign/C07-r4/patch.diff", "expect": "silent"},
    # -- the same shapes with a defect must still fire -------------------------------
    {"name": "rangefor-shape-guard-tests-dst", "rule": "R9.1", "file": _tg("reachable.cc"), "expect": "fire",
     "old": _ADD_CONN_BODY, "new": _ADD_CONN_RANGEFOR.replace("_node_bit(src)", "_node_bit(dst)").replace("src >> 6", "dst >> 6")},
    {"name": "twin-rangefor-shape", "rule": "R9.1", "file": _tg("reachable.cc"), "expect": "silent",
     "old": _ADD_CONN_BODY, "new": _ADD_CONN_RANGEFOR},
    {"name": "rangefor-shape-or-from-src-row", "rule": "R9.1", "file": _tg("reachable.cc"), "expect": "fire",
     "old": _ADD_CONN_BODY, "new": _ADD_CONN_RANGEFOR.replace("adj_[dst].data()", "adj_[src].data()")},
    {"name": "continue-guard-wrong-polarity", "rule": "R9.1", "file": _tg("reachable.cc"), "expect": "fire",
     "old": _ADD_CONN_BODY, "new": _ADD_CONN_RANGEFOR.replace("if (!(row[src_word] & src_mask)) {", "if (row[src_word] & src_mask) {")},
    {"name": "rangefor-bucket-loop-stops-early", "rule": "R9.1", "file": _tg("reachable.cc"), "expect": "fire",
     "old": _ADD_CONN_BODY, "new": _ADD_CONN_RANGEFOR.replace("w < size_;", "w < size_ - 1;")},
    {"name": "rangefor-break-after-first-row", "rule": "R9.1", "file": _tg("reachable.cc"), "expect": "error",
     "old": _ADD_CONN_BODY, "new": _ADD_CONN_RANGEFOR.replace("      into[w] |= from[w];\n    }\n", "      into[w] |= from[w];\n    }\n    break;\n")},
    {"name": "rangefor-by-value-resizes-copies", "rule": "R9.1", "file": _tg("reachable.cc"), "expect": "error",
     "old": "  for (int i = 0; i < num_nodes_; i++) {\n    adj_[i].resize(size_, 0);\n  }",
     "new": "  for (auto row : adj_) {\n    row.resize(size_, 0);\n  }"},
    {"name": "twin-rangefor-resize", "rule": "R9.1", "file": _tg("reachable.cc"), "expect": "silent",
     "old": "  for (int i = 0; i < num_nodes_; i++) {\n    adj_[i].resize(size_, 0);\n  }",
     "new": "  for (auto& row : adj_) {\n    row.resize(size_, 0);\n  }"},
    {"name": "rangefor-resize-before-new-row-exists", "rule": "R9.1", "file": _tg("reachable.cc"), "expect": "fire",
     "old": "  adj_.resize(num_nodes_);\n  for (int i = 0; i < num_nodes_; i++) {\n    adj_[i].resize(size_, 0);\n  }",
     "new": "  for (auto& row : adj_) {\n    row.resize(size_, 0);\n  }\n  adj_.resize(num_nodes_);"},
    {"name": "word-helper-shifts-by-5", "rule": "R9.1", "expect": "fire",
     "edits": [(_tg("reachable.cc"), "ReachabilityAnalyzer::ReachabilityAnalyzer() : num_nodes_(0) {",
                "static inline int _node_word(int node_id) {\n  return node_id >> 5;\n}\n\nReachabilityAnalyzer::ReachabilityAnalyzer() : num_nodes_(0) {"),
               (_tg("reachable.cc"), "  int src_pos = src / 64;", "  int src_pos = _node_word(src);")]},
    {"name": "twin-word-helper", "rule": "R9.1", "expect": "silent",
     "edits": [(_tg("reachable.cc"), "ReachabilityAnalyzer::ReachabilityAnalyzer() : num_nodes_(0) {",
                "static inline int _node_word(int node_id) {\n  return node_id >> 6;\n}\n\nReachabilityAnalyzer::ReachabilityAnalyzer() : num_nodes_(0) {"),
               (_tg("reachable.cc"), "  int src_pos = src / 64;", "  int src_pos = _node_word(src);"),
               (_tg("reachable.cc"), "adj_[node][node / 64] = _node_bit(node);", "adj_[node][_node_word(node)] = _node_bit(node);"),
               (_tg("reachable.cc"), "  return adj_[src][dst / 64] & _node_bit(dst) ? true : false;",
                "  return (adj_[src][_node_word(dst)] & _node_bit(dst)) != 0;")]},
    {"name": "bit-helper-returns-int", "rule": "R9.1", "file": _tg("reachable.cc"), "expect": "fire",
     "old": "static inline std::int64_t _node_bit(int node_id) {", "new": "static inline int _node_bit(int node_id) {"},
    {"name": "query-truncated-to-int-before-test", "rule": "R9.1", "file": _tg("reachable.cc"), "expect": "fire",
     "old": "  return adj_[src][dst / 64] & _node_bit(dst) ? true : false;",
     "new": "  return static_cast<int>(adj_[src][dst / 64] & _node_bit(dst)) != 0;"},
    {"name": "src-bit-kept-in-int-local", "rule": "R9.1", "file": _tg("reachable.cc"), "expect": "fire",
     "old": "  std::int64_t src_bit = _node_bit(src);", "new": "  int src_bit = _node_bit(src);"},
    {"name": "twin-split-helpers", "rule": "R9.1", "expect": "silent", "edits": _SPLIT_EDITS},
    {"name": "split-helpers-merge-row-ands", "rule": "R9.1", "expect": "fire",
     "edits": _SPLIT_EDITS + [(_tg("reachable.cc"), "    row_into[j] |= row_from[j];", "    row_into[j] &= row_from[j];")]},
    {"name": "split-helpers-grow_rows-only-new-row", "rule": "R9.1", "expect": "fire",
     "edits": _SPLIT_EDITS + [(_tg("reachable.cc"), "  adj_.resize(num_nodes_);\n  for (int i = 0; i < num_nodes_; i++) {\n    adj_[i].resize(size_, 0);\n  }\n}",
                               "  adj_.resize(num_nodes_);\n  adj_[num_nodes_ - 1].resize(size_, 0);\n}")]},
    {"name": "split-helpers-writer-helper-has-another-caller", "rule": "R9.1", "expect": "fire",
     "edits": _SPLIT_EDITS + [(_tg("reachable.h"), "  std::size_t size() const { return size_; }",
                               "  std::size_t size() const { return size_; }\n  void shrink() { num_nodes_ = 0; grow_rows(); }")]},
    {"name": "hoisted-writer-ids-swapped", "rule": "R9.3", "file": _tg("typegraph.cc"), "expect": "fire",
     "old": "  this->backward_reachability_->add_connection(node->id(), this->id());",
     "new": "  const auto from_id = this->id();\n  const auto to_id = node->id();\n  this->backward_reachability_->add_connection(from_id, to_id);"},
    {"name": "twin-hoisted-writer-ids", "rule": "R9.3", "file": _tg("typegraph.cc"), "expect": "silent",
     "old": "  this->backward_reachability_->add_connection(node->id(), this->id());",
     "new": "  const auto from_id = node->id();\n  const auto to_id = id();\n  backward_reachability_->add_connection(from_id, to_id);"},
    {"name": "hoisted-id-of-reassigned-pointer", "rule": "R9.3", "file": _tg("typegraph.cc"), "expect": "error",
     "old": "  return backward_reachability_->is_reachable(dst->id(), src->id());",
     "new": "  const auto a = dst->id();\n  dst = src;\n  const auto b = dst->id();\n  return backward_reachability_->is_reachable(a, b);"},
    {"name": "any_of-lambda-query-swapped", "rule": "R9.3", "file": _tg("typegraph.cc"), "expect": "fire",
     "old": _CANHAVE_LOOP, "new": _CANHAVE_ANY_OF.replace("is_reachable(this->id(), origin->where->id())", "is_reachable(origin->where->id(), this->id())")},
    {"name": "twin-any_of-lambda-query", "rule": "R9.3", "file": _tg("typegraph.cc"), "expect": "silent",
     "old": _CANHAVE_LOOP, "new": _CANHAVE_ANY_OF},
]

# -- round 4: whole-range obligations (row loop / bucket loop start at 0 and end at
# the matrix dimension whatever the arguments and the auxiliary state are) ----------
_ROW_LOOP = "  std::int64_t* row_dst = adj_[dst].data();\n  for (int i = 0; i < num_nodes_; i++) {"
_H_FIELDS = "  std::size_t num_nodes_;  // == adj_.size() == adj_[0].size()"
VARIANTS += [
    {"name": "seeded-C09-r4m2-first-row-hint", "rule": "R9.1", "patch": "seeded/C09-r4m2/patch.diff", "expect": "fire"},
    {"name": "seeded-C09-r4m1-row-high-water-mark", "rule": "R9.1", "patch": "seeded/C09-r4m1/patch.diff", "expect": "fire"},
    {"name": "row-loop-starts-at-dst", "rule": "R9.1", "file": _tg("reachable.cc"), "expect": "fire",
     "old": _ROW_LOOP, "new": _ROW_LOOP.replace("int i = 0", "int i = dst")},
    {"name": "row-loop-starts-at-1", "rule": "R9.1", "file": _tg("reachable.cc"), "expect": "fire",
     "old": _ROW_LOOP, "new": _ROW_LOOP.replace("int i = 0", "int i = 1")},
    {"name": "row-loop-starts-at-hoisted-min", "rule": "R9.1", "file": _tg("reachable.cc"), "expect": "fire",
     "old": _ROW_LOOP, "new": "  const int start = src < dst ? src : dst;\n" + _ROW_LOOP.replace("int i = 0", "int i = start")},
    {"name": "bucket-loop-starts-at-src-word", "rule": "R9.1", "file": _tg("reachable.cc"), "expect": "fire",
     "old": "      for (int j = 0; j < size_; j++) {", "new": "      for (int j = src_pos; j < size_; j++) {"},
    {"name": "bucket-loop-ends-at-src-word", "rule": "R9.1", "file": _tg("reachable.cc"), "expect": "fire",
     "old": "      for (int j = 0; j < size_; j++) {", "new": "      for (int j = 0; j <= src_pos; j++) {"},
    {"name": "add_node-widens-only-rows-from-hint", "rule": "R9.1", "file": _tg("reachable.cc"), "expect": "fire",
     "old": "  for (int i = 0; i < num_nodes_; i++) {\n    adj_[i].resize(size_, 0);",
     "new": "  for (int i = node & ~63; i < num_nodes_; i++) {\n    adj_[i].resize(size_, 0);"},
    {"name": "bucket-loop-bounded-by-aux-counter", "rule": "R9.1", "expect": "fire",
     "edits": [(_tg("reachable.h"), _H_FIELDS, "  std::size_t used_words_ = 0;\n" + _H_FIELDS),
               (_tg("reachable.cc"), "  adj_[node][node / 64] = _node_bit(node);",
                "  used_words_ = node / 64 + 1;\n  adj_[node][node / 64] = _node_bit(node);"),
               (_tg("reachable.cc"), "      for (int j = 0; j < size_; j++) {", "      for (int j = 0; j < used_words_; j++) {")]},
    {"name": "row-loop-bounded-by-aux-live-rows", "rule": "R9.1", "expect": "fire",
     "edits": [(_tg("reachable.h"), _H_FIELDS, "  std::size_t live_rows_ = 0;\n" + _H_FIELDS),
               (_tg("reachable.cc"), _ROW_LOOP,
                "  if (live_rows_ <= src) live_rows_ = src + 1;\n" + _ROW_LOOP.replace("i < num_nodes_", "i < live_rows_"))]},
    {"name": "guard-also-tests-aux-done-flag", "rule": "R9.1", "expect": "fire",
     "edits": [(_tg("reachable.h"), _H_FIELDS, "  std::vector<char> done_;\n" + _H_FIELDS),
               (_tg("reachable.cc"), "  adj_[node][node / 64] = _node_bit(node);",
                "  done_.push_back(0);\n  adj_[node][node / 64] = _node_bit(node);"),
               (_tg("reachable.cc"), "    if (adj_[i][src_pos] & src_bit) {", "    if ((adj_[i][src_pos] & src_bit) && !done_[i]) {")]},
    {"name": "twin-unused-hint-parameter", "rule": "R9.1", "expect": "silent",
     "edits": [(_tg("reachable.h"), "  void add_connection(int src, int dst);", "  void add_connection(int src, int dst, int hint = 0);"),
               (_tg("reachable.cc"), "void ReachabilityAnalyzer::add_connection(const int src, const int dst) {",
                "void ReachabilityAnalyzer::add_connection(const int src, const int dst,\n                                          const int /*hint*/) {"),
               (_tg("typegraph.cc"), "add_connection(node->id(), this->id());", "add_connection(node->id(), this->id(), 0);")]},
    {"name": "twin-aux-edge-counter-never-read", "rule": "R9.1", "expect": "silent",
     "edits": [(_tg("reachable.h"), _H_FIELDS, "  std::size_t num_edges_ = 0;\n  std::vector<int> first_word_;\n" + _H_FIELDS),
               (_tg("reachable.cc"), "  adj_[node][node / 64] = _node_bit(node);",
                "  first_word_.push_back(node / 64);\n  adj_[node][node / 64] = _node_bit(node);"),
               (_tg("reachable.cc"), _ROW_LOOP, "  ++num_edges_;\n  if (first_word_[src] > first_word_[dst]) {\n    first_word_[src] = first_word_[dst];\n  }\n" + _ROW_LOOP)]},
    {"name": "twin-loops-ne-and-le-and-row-size", "rule": "R9.1", "expect": "silent",
     "edits": [(_tg("reachable.cc"), _ROW_LOOP, _ROW_LOOP.replace("i < num_nodes_; i++", "i != adj_.size(); ++i")),
               (_tg("reachable.cc"), "      for (int j = 0; j < size_; j++) {", "      for (std::size_t j = 0; j <= size_ - 1; j += 1) {")]},
    {"name": "twin-bucket-loop-to-row-size", "rule": "R9.1", "file": _tg("reachable.cc"), "expect": "silent",
     "old": "      for (int j = 0; j < size_; j++) {", "new": "      for (std::size_t j = 0; j < adj_[dst].size(); j++) {"},
    {"name": "bucket-loop-index-skips-inside-body", "rule": "R9.1", "file": _tg("reachable.cc"), "expect": "error",
     "old": "        row_i[j] |= row_dst[j];  // if dst is connected to j, connect i and j\n",
     "new": "        row_i[j] |= row_dst[j];\n        j++;\n"},
    {"name": "row-loop-start-from-opaque-call", "rule": "R9.1", "file": _tg("reachable.cc"), "expect": "error",
     "old": _ROW_LOOP, "new": _ROW_LOOP.replace("int i = 0", "int i = std::min(0, dst)")},
    {"name": "matrix-snapshot-bound-still-refused", "rule": "R9.1", "file": _tg("reachable.cc"), "expect": "error",
     "old": _ROW_LOOP, "new": "  const std::size_t n = num_nodes_;\n" + _ROW_LOOP.replace("i < num_nodes_", "i < n")},
]
